"""Library models for the loggers / checkpointers (C20): os.path, os.makedirs,
orbax.checkpoint.StandardCheckpointer, tqdm.tqdm.write, pprint, atexit.

All of them are ASSUMED contracts (trusted base).  They are *recording stubs*:
the call and its arguments are appended to ghost logs of the path state so
that a contract can state "the path appended to `checkpoint_path` is the path
handed to `checkpointer.save`, and `wait_until_finished` followed".

Strings that come out of `os.path` are opaque payloads (sort Val) registered
in `st.ghost['str_terms']`; the interpreter passes `f"{p}"` of such a term (or
of a python str) through unchanged (str.__format__ with an empty spec is the
identity on str).  Every call of `os.path.join` / `abspath` yields a FRESH
opaque string: nothing is assumed about how the result depends on the
arguments (a sound over-approximation of the deterministic library function).

Orbax contract transcribed (orbax.checkpoint.StandardCheckpointer, v0.11 API
docs): `save(directory, state)` starts writing `state` to `directory`
(asynchronously); `wait_until_finished()` blocks until every pending save is
committed.  A directory that was saved and waited for is restorable:
`restore(directory, target)` returns the saved state (round trip: C19).
"""
from __future__ import annotations

import z3

from .. import core as C
from ..core import BOOL, VAL, Builtin, Obj, Opaque, PyRaise, Sym, Unsupported
from . import LIB

OCP_TAG = "orbax.checkpoint.StandardCheckpointer"


# ------------------------------------------------------------------ strings
def fresh_str(E, name):
    """fresh opaque string payload"""
    s = E.st.fresh_sym(name, VAL)
    E.st.ghost.setdefault("str_terms", set()).add(s.z.get_id())
    return s


def input_str(E, name):
    """symbolic string input of a harness"""
    s = E.st.fresh_sym(name, VAL, is_input=True)
    E.st.ghost.setdefault("str_terms", set()).add(s.z.get_id())
    return s


def is_str_value(E, v):
    return isinstance(v, str) or (isinstance(v, Sym) and v.z.get_id() in E.st.ghost.get("str_terms", ()))


def _log(E, kind, *payload):
    E.st.ghost.setdefault("io_events", []).append((kind,) + payload)


# ------------------------------------------------------------------ os / os.path
@LIB.fn("os.path.join", doc="os.path.join(a, *p): a path string (opaque; fresh per call)")
def os_path_join(E, *parts):
    p = fresh_str(E, "path")
    E.st.ghost.setdefault("path_joins", []).append((p, tuple(parts)))
    return p


@LIB.fn("os.path.abspath", doc="os.path.abspath(p): a path string (opaque)")
def os_path_abspath(E, p):
    return fresh_str(E, "abspath")


@LIB.fn("os.path.exists", doc="os.path.exists(p): unconstrained Bool (file system state is not modelled)")
def os_path_exists(E, p):
    return E.st.fresh_sym("path_exists", BOOL)


LIB.funcs["os.path.isdir"] = LIB.funcs["os.path.exists"]
LIB.funcs["os.path.isfile"] = LIB.funcs["os.path.exists"]


@LIB.fn("os.makedirs", doc="os.makedirs(p): creates the directory; no effect on program state")
def os_makedirs(E, p, *a, **k):
    _log(E, "makedirs", p)
    return None


# ------------------------------------------------------------------ orbax
@LIB.fn(OCP_TAG, doc="StandardCheckpointer(): a checkpointer with no pending saves")
def ocp_standard_checkpointer(E, *a, **k):
    node, fr = E.cur_call if E.cur_call else (None, None)
    o = Obj(OCP_TAG, {"$events": []}, name=E.alloc_name(fr, node, ":ocp.StandardCheckpointer"))
    E.register(o)
    return o


def new_checkpointer(E, name="checkpointer"):
    """stub checkpointer for harnesses that build a logger without running __init__"""
    o = Obj(OCP_TAG, {"$events": []}, name=name)
    E.register(o)
    return o


@LIB.cls(OCP_TAG)
def _ocp_attr(E, o, name):
    if name == "save":
        def save(E, directory, state=None, *a, **k):
            if "state" in k and state is None:
                state = k.pop("state")
            ev = ("save", o, directory, state)
            o.fields["$events"].append(ev)
            _log(E, *ev)
            return None
        return Builtin(OCP_TAG + ".save", save)
    if name == "wait_until_finished":
        def wait(E):
            ev = ("wait", o)
            o.fields["$events"].append(ev)
            _log(E, *ev)
            return None
        return Builtin(OCP_TAG + ".wait_until_finished", wait)
    if name == "close":
        return Builtin(OCP_TAG + ".close", lambda E: None)
    raise Unsupported(f"no model for {OCP_TAG}.{name}")


# ------------------------------------------------------------------ printing
@LIB.fn("tqdm.tqdm.write", doc="tqdm.write(s): prints; no effect on program state")
def tqdm_write(E, *a, **k):
    return None


def _tqdm_class_attr(E, v, name):
    """`tqdm.tqdm` is itself a modelled callable (progress bar): its static method `write` prints"""
    if isinstance(v, Builtin) and v.name == "tqdm.tqdm" and name == "write":
        return LIB.funcs["tqdm.tqdm.write"]
    return NotImplemented


LIB.value_attr_handlers.append(_tqdm_class_attr)


@LIB.fn("pprint.pprint", doc="pprint(o): prints; no effect on program state")
def pprint_pprint(E, *a, **k):
    return None


@LIB.fn("atexit.register", doc="atexit.register(f): no effect before interpreter exit")
def atexit_register(E, f, *a, **k):
    return f


@LIB.fn("abc.abstractmethod", doc="decorator: identity on the function")
def abc_abstractmethod(E, f):
    return f
