"""tensorflow_probability.substrates.jax.distributions models (C13 policy heads).

ASSUMED library contracts (trusted base): the closed forms documented by
TensorFlow Probability for the three distributions the policy heads build
(`import tensorflow_probability.substrates.jax.distributions as dist`).
Reals for floats; `log` / `exp` are the uninterpreted real functions of
pyvc.tensor (T.tfn) with their point axioms; pi is the symbolic constant of
jax_model; e is the term exp(1).

Shapes follow TFP's batch/event semantics and NumPy broadcasting; a shape TFP
would reject raises ShapeError (a PyRaise, natively ValueError / TypeError
"incompatible shapes for broadcasting").

dist.Normal(loc, scale)               batch_shape = broadcast(loc.shape, scale.shape), event_shape = ()
  .entropy()      [TFP Normal._entropy: 0.5 + 0.5*log(2 pi) + log(scale)]
                  == 0.5*log(2*pi*e) + log(scale)                      elementwise over batch_shape
  .log_prob(x)    == -log(scale) - 0.5*log(2 pi) - 0.5*((x - loc)/scale)^2   over broadcast(x.shape, batch_shape)
  .sample(seed=key, sample_shape=())
                  == loc + scale * jax.random.normal(key, batch_shape)
                  (TFP jax substrate: samplers.normal(shape, seed) IS jax.random.normal(seed, shape);
                   checked natively by replay/drivers/c13_heads.py)
  .mean() == loc, .stddev() == scale   (broadcast to batch_shape)

dist.MultivariateNormalDiag(loc, scale_diag)
                  full = broadcast(loc.shape, scale_diag.shape), rank >= 1,
                  batch_shape = full[:-1], event_shape = full[-1:]
  .log_prob(a)    == sum_d [ -log s_d - 0.5*log(2 pi) - 0.5*((a_d - m_d)/s_d)^2 ]
                  a is broadcast against `full`, the LAST axis is reduced; result shape
                  broadcast(a.shape, full)[:-1]; incompatible shapes raise.
  .entropy()      == sum_d [ 0.5*log(2*pi*e) + log s_d ]               shape batch_shape
  .sample(seed=key, sample_shape=())
                  == loc + scale_diag * z(key)  with z standard-normal noise that depends on
                  the key and the index only (never on loc / scale_diag).  Rank 1: z ==
                  jax.random.normal(key, (A,)).  Rank 2: TFP draws event-major, natively
                  z[b, d] == jax.random.normal(key, (A, N))[d, b]; modelled as the separate
                  key-determined function `tfp_mvn_noise2(key, b, d)` (no relation to
                  jax.random.normal(key, (N, A)) is claimed).
  .mean() == loc, .stddev() == scale_diag

dist.Categorical(logits=L)            batch_shape = L.shape[:-1], n = L.shape[-1]
  .log_prob(a)    == log_softmax(L)[..., a] = L[..., a] - log sum_k exp L[..., k]
                  a (integers in [0, n)) is broadcast against batch_shape
  .entropy()      == - sum_k p_k * log p_k,  p = softmax(L), log p = log_softmax(L);  shape batch_shape
  .sample(seed=key, sample_shape=())
                  integer array of shape batch_shape with entries in [0, n); entry b is a function
                  of (key, b, L[b, :])
  .logits_parameter() == L,  .probs_parameter() == softmax(L)

Every constructed distribution is appended to the path ghost list
`E.st.ghost["tfp_dists"]` (kind, parameters) so that a contract can state
"the distribution was built from these parameters".
"""
from __future__ import annotations

from fractions import Fraction

import z3

from .. import core as C
from .. import tensor as T
from ..core import INT, KEY, REAL, ROW, Builtin, Obj, PyRaise, Sym, Unsupported
from ..tensor import Tensor
from . import LIB
from .jax_model import PI, softmax_last, tt

DIST = "tensorflow_probability.substrates.jax.distributions."
NORMAL, MVN, CAT = "tfp.Normal", "tfp.MultivariateNormalDiag", "tfp.Categorical"
HALF = Fraction(1, 2)


# ----------------------------------------------------------------- constants
def half_log_2pi():
    """0.5 * log(2 pi)"""
    return C.binop("*", HALF, T.scalar_fn("log", C.binop("*", 2, Sym(PI))))


def half_log_2pie():
    """0.5 * log(2 pi e), e = exp(1)"""
    e = T.scalar_fn("exp", 1)
    return C.binop("*", HALF, T.scalar_fn("log", C.binop("*", C.binop("*", 2, Sym(PI)), e)))


# ------------------------------------------------------------------ helpers
def _param(x, what):
    if x is None:
        raise PyRaise("ValueError", f"tfp distribution: missing parameter {what}")
    x = tt(x)
    if isinstance(x, (Obj,)):
        raise Unsupported(f"tfp distribution parameter {what} of type {type(x).__name__}")
    return T.as_tensor(x)


def _mk(E, tag, **fields):
    node, fr = E.cur_call if E.cur_call else (None, None)
    o = Obj(tag, fields, name=E.alloc_name(fr, node, f":{tag}"))
    E.register(o)
    E.st.ghost.setdefault("tfp_dists", []).append(o)
    return o


def _bcast_to(t, shape):
    """t broadcast to `shape` (numpy rules; raises ShapeError)"""
    t = T.as_tensor(t)
    T.broadcast_shapes(t.shape, shape)
    n = len(shape)
    if t.ndim > n:
        raise T.ShapeError(f"cannot broadcast {t.shape} to {shape}")
    return Tensor(tuple(shape), lambda *i: t.at(*T._bidx(t, n, i)), t.sort, t.gdeps, rows=t.rows if t.ndim == n and all(T.dim_eq(a, b) for a, b in zip(t.shape, shape)) else None)


def _only_default_sample_shape(sample_shape):
    if sample_shape not in ((), [], None):
        raise Unsupported("tfp .sample with a non-empty sample_shape")


def _key_of(seed, kw):
    key = seed if seed is not None else kw.get("key")
    if not isinstance(key, Sym) or key.z.sort() != KEY:
        raise Unsupported("tfp .sample without a PRNG key term")
    return key


def _noise(name, key, shape):
    """standard-normal noise: uninterpreted function of (key, index)"""
    k = len(shape)
    f = C.uf(f"{name}{k}", *([KEY] + [INT] * k + [REAL]))
    kz = key.z
    return Tensor(tuple(shape), lambda *i: Sym(f(kz, *[C.to_z3(x) for x in i])), REAL)


def _method(tag, name, f):
    return Builtin(f"{tag}.{name}", f)


# ------------------------------------------------------------------- Normal
@LIB.fn(DIST + "Normal", doc="Normal(loc, scale): elementwise Gaussian, batch_shape = broadcast(loc, scale)")
def tfp_normal(E, loc=None, scale=None, **kw):
    return _mk(E, NORMAL, loc=_param(loc, "loc"), scale=_param(scale, "scale"))


def _normal_params(o):
    loc, scale = o.fields["loc"], o.fields["scale"]
    batch = T.broadcast_shapes(loc.shape, scale.shape)
    return loc, scale, batch


def _gauss_logpdf(x, loc, scale):
    """-log s - 0.5 log(2 pi) - 0.5 ((x - m)/s)^2, broadcasting"""
    z = C.binop("/", C.binop("-", x, loc), scale)
    quad = C.binop("*", HALF, C.binop("*", z, z))
    return C.binop("-", C.binop("-", C.unop("-", T.tfn("log", scale)), half_log_2pi()), quad)


@LIB.cls(NORMAL)
def _normal_attr(E, o, name):
    if name == "entropy":
        def f(E):
            loc, scale, batch = _normal_params(o)
            ent = C.binop("+", half_log_2pie(), T.tfn("log", scale))
            return T.unwrap0(_bcast_to(ent, batch))
        return _method(NORMAL, name, f)
    if name == "log_prob":
        def f(E, x):
            loc, scale, batch = _normal_params(o)
            return _gauss_logpdf(T.as_tensor(tt(x)), T.unwrap0(loc), T.unwrap0(scale))
        return _method(NORMAL, name, f)
    if name == "sample":
        def f(E, sample_shape=(), seed=None, **kw):
            _only_default_sample_shape(sample_shape)
            key = _key_of(seed, kw)
            loc, scale, batch = _normal_params(o)
            z = _noise("rand_normal", key, batch)  # == jax.random.normal(key, batch)
            return C.binop("+", T.unwrap0(loc), C.binop("*", T.unwrap0(scale), T.unwrap0(z)))
        return _method(NORMAL, name, f)
    if name in ("mean", "mode"):
        return _method(NORMAL, name, lambda E: T.unwrap0(_bcast_to(o.fields["loc"], _normal_params(o)[2])))
    if name == "stddev":
        return _method(NORMAL, name, lambda E: T.unwrap0(_bcast_to(o.fields["scale"], _normal_params(o)[2])))
    if name in ("loc", "scale"):
        return o.fields[name]
    return NotImplemented


# ------------------------------------------------- MultivariateNormalDiag
@LIB.fn(DIST + "MultivariateNormalDiag", doc="MultivariateNormalDiag(loc, scale_diag): event = last axis of broadcast(loc, scale_diag)")
def tfp_mvn_diag(E, loc=None, scale_diag=None, **kw):
    if scale_diag is None or loc is None:
        raise Unsupported("MultivariateNormalDiag without loc / scale_diag")
    return _mk(E, MVN, loc=_param(loc, "loc"), scale=_param(scale_diag, "scale_diag"))


def _mvn_params(o):
    loc, scale = o.fields["loc"], o.fields["scale"]
    full = T.broadcast_shapes(loc.shape, scale.shape)
    if len(full) == 0:
        raise PyRaise("ValueError", "MultivariateNormalDiag: loc / scale_diag must have rank >= 1 (event axis)")
    return loc, scale, full


@LIB.cls(MVN)
def _mvn_attr(E, o, name):
    if name == "log_prob":
        def f(E, a):
            loc, scale, full = _mvn_params(o)
            a = T.as_tensor(tt(a))
            if a.sort != REAL and a.sort != INT:
                raise PyRaise("TypeError", "log_prob of a non-numeric value")
            allshape = T.broadcast_shapes(a.shape, full)  # raises when TFP's broadcast would
            term = _gauss_logpdf(a, loc, scale)
            term = _bcast_to(term, allshape)
            return T.reduce_axis(term, len(allshape) - 1, "sum")
        return _method(MVN, name, f)
    if name == "entropy":
        def f(E):
            loc, scale, full = _mvn_params(o)
            ent = _bcast_to(C.binop("+", half_log_2pie(), T.tfn("log", scale)), full)
            return T.reduce_axis(ent, len(full) - 1, "sum")
        return _method(MVN, name, f)
    if name == "sample":
        def f(E, sample_shape=(), seed=None, **kw):
            _only_default_sample_shape(sample_shape)
            key = _key_of(seed, kw)
            loc, scale, full = _mvn_params(o)
            if len(full) == 1:
                z = _noise("rand_normal", key, full)  # == jax.random.normal(key, (A,))
            elif len(full) == 2:
                z = _noise("tfp_mvn_noise", key, full)  # event-major draw; key- and index-determined only
            else:
                raise Unsupported("MultivariateNormalDiag.sample with batch rank > 1")
            return C.binop("+", _bcast_to(loc, full), C.binop("*", _bcast_to(scale, full), z))
        return _method(MVN, name, f)
    if name in ("mean", "mode"):
        return _method(MVN, name, lambda E: _bcast_to(o.fields["loc"], _mvn_params(o)[2]))
    if name == "stddev":
        return _method(MVN, name, lambda E: _bcast_to(o.fields["scale"], _mvn_params(o)[2]))
    if name == "loc":
        return o.fields["loc"]
    return NotImplemented


# --------------------------------------------------------------- Categorical
cat_sample_fn = {}


def _cat_sample_uf(k):
    return C.uf(f"tfp_cat_sample{k}", *([KEY] + [INT] * k + [ROW, INT]))


@LIB.fn(DIST + "Categorical", doc="Categorical(logits=L): distribution over range(L.shape[-1]) per leading index")
def tfp_categorical(E, logits=None, probs=None, **kw):
    if logits is None:
        raise Unsupported("Categorical(probs=...)")
    lg = _param(logits, "logits")
    if lg.ndim == 0:
        raise PyRaise("ValueError", "Categorical: logits must have rank >= 1")
    return _mk(E, CAT, logits=lg)


@LIB.cls(CAT)
def _cat_attr(E, o, name):
    lg = o.fields["logits"]
    batch = lg.shape[:-1]
    nb = len(batch)
    if name == "log_prob":
        def f(E, a):
            a = T.as_tensor(tt(a))
            if a.sort != INT:
                raise Unsupported("Categorical.log_prob of a non-integer value")
            shape = T.broadcast_shapes(a.shape, batch)
            n = len(shape)
            ls = T.as_tensor(softmax_last(E, lg, log=True))  # L - log sum exp L (last axis)

            def fn(*i):
                bi = T._bidx(Tensor(batch, None), n, i)
                return ls.at(*(tuple(bi) + (a.at(*T._bidx(a, n, i)),)))

            return T.unwrap0(Tensor(shape, fn, REAL, lg.gdeps))
        return _method(CAT, name, f)
    if name == "entropy":
        def f(E):
            p = T.as_tensor(softmax_last(E, lg))
            ls = T.as_tensor(softmax_last(E, lg, log=True))
            return C.unop("-", T.reduce_axis(C.binop("*", p, ls), lg.ndim - 1, "sum"))
        return _method(CAT, name, f)
    if name == "sample":
        def f(E, sample_shape=(), seed=None, **kw):
            _only_default_sample_shape(sample_shape)
            key = _key_of(seed, kw)
            from .nnx_model import ensure_rows

            rows = ensure_rows(E, lg)
            g = _cat_sample_uf(nb)
            kz = key.z
            val = lambda *b: g(kz, *[C.to_z3(x) for x in b], rows(*b))  # noqa: E731
            n = T.dim_z(lg.shape[-1])
            if nb:
                E.st.assume_forall([INT] * nb, lambda *b: z3.And(val(*b) >= 0, val(*b) < n), "tfp.categorical.sample.range")
            else:
                E.st.assume(z3.And(val() >= 0, val() < n))
            return T.unwrap0(Tensor(batch, lambda *b: Sym(val(*b)), INT))
        return _method(CAT, name, f)
    if name == "logits_parameter":
        return _method(CAT, name, lambda E: lg)
    if name == "probs_parameter":
        return _method(CAT, name, lambda E: softmax_last(E, lg))
    if name == "logits":
        return lg
    return NotImplemented
