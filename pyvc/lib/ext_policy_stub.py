"""Stub objects for actor-objective contracts (contracts/C12.py).  ASSUMED contracts.

1. Stochastic policy stub (class tag 'pyvc.StubStochasticPolicy', a leaf
   nnx.Module).  It transcribes the interface documented in
   rl_blox.blox.function_approximator.policy_head.StochasticPolicyBase:
     sample(observation, key)            -> action, one per observation row
     log_probability(observation, action)-> log pi(a|o), one value per row
     entropy(observation)                -> entropy of pi(.|o), one value per row
   Each method is an uninterpreted ROW-WISE function of (parameters, observation
   row, action row | key and batch position), differentiable in the policy
   parameters (gdeps = {policy name}) and in differentiable inputs
   (reparameterised sampling).  The concrete heads (softmax / Gaussian /
   tanh-Gaussian, tfp distributions) are the subject of C13, not of this stub.
   Shapes: observation (B..., D); continuous action (B..., A) or discrete action
   (B...,); a batch-shape mismatch raises (as the real heads do through tfp /
   broadcasting errors).

2. Flat value network (class tag 'pyvc.FlatValueNet'): a row-wise network with
   one output per row whose __call__ returns shape (B...,) instead of (B..., 1)
   (e.g. an MLP followed by squeeze(-1)): the "(N,)" critic-output scenario.

3. Finite-sum rule `sum_affine` (same protocol as ext_numeric: the premise is
   OBLIGED first, then the conclusion is assumed); statement proved in
   /verif/lemmas/SumLemmas.lean (PyvcSum.sum_affine).
"""
from __future__ import annotations

import z3

from .. import core as C
from .. import tensor as T
from ..core import INT, KEY, REAL, ROW, Builtin, Obj, PyRaise, Sym, Unsupported
from ..tensor import Tensor
from . import LIB
from .jax_model import tt
from .nnx_model import MODULE, PARAMS, comp, ensure_rows, net_call

STUB_POLICY = "pyvc.StubStochasticPolicy"
FLAT_VALUE = "pyvc.FlatValueNet"


# ----------------------------------------------------------- stochastic policy
def mk_policy(E, name, n_action_features=None, params=None):
    """stochastic policy stub; n_action_features None = discrete actions"""
    p = params if params is not None else E.st.fresh_sym(f"theta_{name}", PARAMS, is_input=False)
    o = Obj(STUB_POLICY, {"$F": name, "$params": p, "$out": n_action_features}, name=name)
    E.register(o)
    return o


def _batch_check(what, obs, other_batch):
    b = obs.shape[:-1]
    if len(b) != len(other_batch) or not all(T.dim_eq(x, y) for x, y in zip(b, other_batch)):
        raise T.ShapeError(f"{what}: batch shapes {b} and {tuple(other_batch)} differ")


def policy_log_probability(E, pol, observation, action):
    obs = T.as_tensor(tt(observation))
    act = T.as_tensor(tt(action))
    if obs.ndim == 0:
        raise PyRaise("ValueError", "log_probability: scalar observation")
    orow = ensure_rows(E, obs)
    p = pol.fields["$params"].z
    name = pol.fields["$F"]
    gd = obs.gdeps | act.gdeps | frozenset([pol.name])
    batch = obs.shape[:-1]
    if pol.fields["$out"] is None:
        # discrete actions: one integer per observation row
        _batch_check("log_probability", obs, act.shape)
        f = C.uf(f"logp_{name}", PARAMS, ROW, act.sort if act.sort in (INT, REAL) else INT, REAL)
        return T.unwrap0(Tensor(batch, lambda *b: Sym(f(p, orow(*b), C.to_z3(act.at(*b)))), REAL, gd))
    if act.ndim != obs.ndim:
        raise T.ShapeError(f"log_probability: observation {obs.shape} and action {act.shape} ranks differ")
    _batch_check("log_probability", obs, act.shape[:-1])
    if not T.dim_eq(act.shape[-1], pol.fields["$out"]):
        raise T.ShapeError(f"log_probability: action has {act.shape[-1]} features, policy has {pol.fields['$out']}")
    arow = ensure_rows(E, act)
    f = C.uf(f"logp_{name}", PARAMS, ROW, ROW, REAL)
    return T.unwrap0(Tensor(batch, lambda *b: Sym(f(p, orow(*b), arow(*b))), REAL, gd))


def policy_sample(E, pol, observation, key):
    obs = T.as_tensor(tt(observation))
    if obs.ndim == 0:
        raise PyRaise("ValueError", "sample: scalar observation")
    if not (isinstance(key, Sym) and key.z.sort() == KEY):
        raise Unsupported("policy.sample without a PRNG key term")
    orow = ensure_rows(E, obs)
    p = pol.fields["$params"].z
    name = pol.fields["$F"]
    gd = obs.gdeps | frozenset([pol.name])
    batch = obs.shape[:-1]
    k = len(batch)
    out = pol.fields["$out"]
    if out is None:
        f = C.uf(f"sample_{name}{k}", *([PARAMS, ROW, KEY] + [INT] * k + [INT]))
        return T.unwrap0(Tensor(batch, lambda *b: Sym(f(p, orow(*b), key.z, *[C.to_z3(x) for x in b])), INT, frozenset()))
    f = C.uf(f"sample_{name}{k}", *([PARAMS, ROW, KEY] + [INT] * k + [ROW]))
    rows = lambda *b: f(p, orow(*b), key.z, *[C.to_z3(x) for x in b])  # noqa: E731
    return Tensor(batch + (out,), lambda *i: Sym(comp(rows(*i[:-1]), C.to_z3(i[-1]))), REAL, gd, rows=rows)


def policy_entropy(E, pol, observation):
    obs = T.as_tensor(tt(observation))
    if obs.ndim == 0:
        raise PyRaise("ValueError", "entropy: scalar observation")
    orow = ensure_rows(E, obs)
    p = pol.fields["$params"].z
    f = C.uf(f"entropy_{pol.fields['$F']}", PARAMS, ROW, REAL)
    gd = obs.gdeps | frozenset([pol.name])
    return T.unwrap0(Tensor(obs.shape[:-1], lambda *b: Sym(f(p, orow(*b))), REAL, gd))


@LIB.cls(STUB_POLICY, bases=[MODULE])
def _stub_policy(E, obj, name):
    if name == "sample":
        return Builtin(f"{obj.name}.sample", lambda E, observation, key: policy_sample(E, obj, observation, key))
    if name == "log_probability":
        return Builtin(f"{obj.name}.log_probability", lambda E, observation, action: policy_log_probability(E, obj, observation, action))
    if name == "entropy":
        return Builtin(f"{obj.name}.entropy", lambda E, observation: policy_entropy(E, obj, observation))
    if name == "__call__":
        raise Unsupported("StubStochasticPolicy.__call__ (distribution parameters are C13's subject)")
    return NotImplemented


# ------------------------------------------------------------ flat value net
def mk_flat_value_net(E, name, params=None):
    p = params if params is not None else E.st.fresh_sym(f"theta_{name}", PARAMS, is_input=False)
    o = Obj(FLAT_VALUE, {"$F": name, "$params": p, "$out": 1}, name=name)
    E.register(o)
    return o


def flat_value_call(E, net, x):
    return T.squeeze(net_call(E, net, x), -1)


@LIB.cls(FLAT_VALUE, bases=[MODULE])
def _flat_value(E, obj, name):
    if name == "__call__":
        return Builtin(f"{obj.name}.__call__", lambda E, x, *a, **k: flat_value_call(E, obj, x))
    return NotImplemented


# ------------------------------------------------------------------ sum rule
LEMMAS = {"sum_affine": "lemmas/SumLemmas.lean: PyvcSum.sum_affine"}


def sum_affine(pst, name, node_a, node_b, factor, offset, using=None):
    """Rule PyvcSum.sum_affine for parameterless Sum nodes A, B over the same axis of length n:
        premise  (OBLIGED):  forall j in [0,n): bodyA(j) == factor * bodyB(j) + offset
        conclusion (assumed): SumA == factor * SumB + n * offset
    factor, offset: scalars that do not depend on j."""
    if node_a is None or node_b is None:
        return
    assert node_a.kind == "sum" and node_b.kind == "sum" and node_a.nparams == 0 and node_b.nparams == 0
    if not T.dim_eq(node_a.dim, node_b.dim):
        raise Unsupported("sum_affine: different axis lengths")
    n = T.dim_z(node_a.dim)
    k, c = C.as_real(factor), C.as_real(offset)
    j = pst.fresh("lj", INT)
    before = len(pst.results)
    pst.oblige(f"{name}.lemma_premise[sum_affine]", z3.Implies(z3.And(j >= 0, j < n), node_a.body(j) == k * node_b.body(j) + c),
               assume_after=False, extra_pool=[j], using=using)
    if pst.suppress or (len(pst.results) == before + 1 and pst.results[-1].verdict == "discharged"):
        # the conclusion is available only when the premise has been proved
        pst.assume(node_a.vf() == k * node_b.vf() + z3.ToReal(n) * c)
