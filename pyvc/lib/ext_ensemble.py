"""Library models for the PETS probabilistic ensemble (C17).

ASSUMED contracts (trusted base); each transcribes a documented library clause.

Stacked modules (flax.nnx transforms guide, "vmap over module construction"):
* `@nnx.split_rngs(splits=k) @nnx.vmap def make(rngs): return M(rngs)`
  returns ONE module object whose every parameter leaf carries a new leading
  axis of size k ("stacked state").  Model: every leaf network of the result
  has the ghost field `$stacked = k`; its `$params` term theta denotes the
  stacked tree and `member(theta, i)` the tree of member i (i in [0, k)).
* `nnx.vmap(f, in_axes=(0, ...))(stacked_module, ...)`: "the module's state is
  sliced along axis 0 and f is applied per slice", i.e.
  out[i] = f(M with parameters member(theta, i), <other args sliced/broadcast>).
  Implemented by handing jax_model.vmap_call the index vector arange(k) in
  place of the module and slicing the module at the generic index.
* `nnx.split(m) -> (graphdef, state)`; `jax.tree.map(lambda x: x[i], state)`
  applies the function to every leaf array: leaf[i] of a stacked leaf is the
  member-i leaf (jnp integer indexing: negative indices wrap once, then
  out-of-range indices are CLAMPED - jax never raises IndexError for gather);
  `nnx.merge(graphdef, state_i)` is the module with graphdef's structure and
  the given (now unstacked) state.
* Calling a stacked module directly (without vmap) is not modelled (Unsupported).

Random index helpers:
* `jax.random.choice(key, n:int, shape=S, replace=True)`: integer array of
  shape S, every entry in [0, n), entry a function of (key, n, index).
* `jax.random.permutation(key, x, axis=a, independent=False)`: "returns a
  randomly permuted array ... along the given axis; independent=False: the
  same permutation for all slices": out[.., c, ..] = x[.., pi(c), ..] with pi a
  bijection of [0, m), m = x.shape[a], determined by (key, m).

Shapes:
* `ndarray.reshape(A.., B, -1)` on shape (A.., M): C-order split of the last
  axis, out[a.., b, k] = x[a.., b*(M//B) + k]; raises ValueError unless B | M.
* `ndarray.transpose(list)` == transpose(*list).
* `jnp.split(y, (k,), axis=-1)` == [y[..., :k], y[..., k:]].

Scan:
* `nnx.scan(f, in_axes=(nnx.Carry, None, .., 0), out_axes=(nnx.Carry, 0))
  (carry, consts.., xs)`: iterates f over the leading axis of xs threading the
  carry; module/optimizer state in the carry is propagated back to the caller's
  objects.  Model ("generic iteration"): the state at the start of iteration k
  is an arbitrary function of k (leaf params scan_params(k), array attributes
  indexed by k, optimizer state scan_opt(k)); the body is executed once for a
  generic k in [0, L); ys[j] is the body's output with k := j; afterwards the
  caller's objects hold the state of index L.  Sound for every statement that
  quantifies over iterations; the step relation state(k+1) = body(state(k)) is
  NOT asserted.
"""
from __future__ import annotations

import z3

from .. import core as C
from .. import tensor as T
from ..core import INT, KEY, REAL, Builtin, Obj, Opaque, PyRaise, Sym, Unsupported
from ..tensor import Tensor
from . import LIB
from . import jax_model as JM
from .jax_model import tt, vmap_call
from .nnx_model import OPTSTATE, PARAMS, StateVal, leaf_nets

member = C.uf("member", PARAMS, INT, PARAMS)


# ------------------------------------------------------------ stacked modules
def stacked_dim(mod):
    """leading (ensemble) dimension of a stacked module, or None"""
    dims = [lf.fields.get("$stacked") for lf in leaf_nets(mod)]
    dims = [d for d in dims if d is not None]
    if not dims:
        return None
    for d in dims[1:]:
        if not T.dim_eq(T.norm_dim(d), T.norm_dim(dims[0])):
            raise Unsupported("stacked module with inconsistent leading dimensions")
    if len(dims) != len(leaf_nets(mod)):
        raise Unsupported("partially stacked module")
    return T.norm_dim(dims[0])


def is_module(o):
    return isinstance(o, Obj) and bool(leaf_nets(o)) and "$wrt" not in o.fields


def slice_module(E, mod, i):
    """module with the parameters of member i of a stacked module"""
    from .builtins_model import deep_copy

    m = deep_copy(E, mod)
    for lf in leaf_nets(m):
        lf.fields["$params"] = Sym(member(lf.fields["$params"].z, C.as_int(i)))
        lf.fields["$stacked"] = None
    return m


def mark_stacked(mod, k):
    for lf in leaf_nets(mod):
        if lf.fields.get("$stacked") is not None:
            raise Unsupported("nested stacking of module state")
        lf.fields["$stacked"] = k


@LIB.fn("flax.nnx.split_rngs", doc="split_rngs(splits=k): the decorated function receives Rngs whose streams carry a leading axis k")
def nnx_split_rngs(E, *a, splits=None, **kw):
    if a or splits is None:
        raise Unsupported("nnx.split_rngs used other than as decorator factory with splits=")

    def deco(E, f):
        def call(E, *args, **kwargs):
            args2 = [Opaque("nnx.Rngs", ("split", splits)) if isinstance(x, Opaque) and x.tag == "nnx.Rngs" else x for x in args]
            return E.call_value(f, args2, kwargs)
        return Builtin("nnx.split_rngs()", call)

    return Builtin("nnx.split_rngs", deco)


def _is_split_rngs(x):
    return isinstance(x, Opaque) and x.tag == "nnx.Rngs" and isinstance(x.payload, tuple) and x.payload and x.payload[0] == "split"


def ens_vmap_call(E, fn, in_axes, out_axes, args, kwargs):
    args = list(args)
    axes = list(in_axes) if isinstance(in_axes, (tuple, list)) else [in_axes] * len(args)
    if len(axes) != len(args):
        raise PyRaise("ValueError", "vmap in_axes must match the positional arguments")
    mapped = [k for k, ax in enumerate(axes) if ax is not None]
    # (1) vmapped constructor over split Rngs
    if mapped and all(isinstance(args[k], Opaque) and args[k].tag == "nnx.Rngs" for k in mapped):
        if not all(_is_split_rngs(args[k]) for k in mapped):
            raise Unsupported("nnx.vmap over Rngs that were not split")
        ks = [args[k].payload[1] for k in mapped]
        out = E.call_value(fn, args, dict(kwargs))
        if not is_module(out):
            raise Unsupported("vmapped constructor that does not return a module")
        mark_stacked(out, ks[0])
        return out
    # (2) stacked modules among the mapped arguments
    mods = [k for k in mapped if isinstance(args[k], Obj)]
    if not mods:
        return vmap_call(E, fn, in_axes, out_axes, args, kwargs)
    originals = {}
    for k in mods:
        if axes[k] != 0:
            raise Unsupported("module mapped along an axis other than 0")
        d = stacked_dim(args[k]) if is_module(args[k]) else None
        if d is None:
            raise PyRaise("ValueError", "vmap was requested to map a module whose state has no leading axis")
        originals[k] = args[k]
        args[k] = T.arange(d)

    def inner(E, *sl, **kw):
        sl = list(sl)
        for k in mods:
            sl[k] = slice_module(E, originals[k], sl[k])
        return E.call_value(fn, sl, kw)

    return vmap_call(E, Builtin("vmapped-module-body", inner), axes, out_axes, args, kwargs)


def _nnx_vmap(E, fn=None, in_axes=0, out_axes=0, **kw):
    LIB.used.add("flax.nnx.vmap")
    if fn is None:
        return Builtin("nnx.vmap()", lambda E, f: _nnx_vmap(E, f, in_axes=in_axes, out_axes=out_axes))
    return Builtin("nnx.vmapped", lambda E, *a, **k: ens_vmap_call(E, fn, in_axes, out_axes, a, k))


LIB.funcs["flax.nnx.vmap"] = Builtin("flax.nnx.vmap", _nnx_vmap)
LIB.docs["flax.nnx.vmap"] = "nnx.vmap: jax.vmap; stacked modules are sliced along their leading state axis; vmapped constructors return stacked modules"


# ----------------------------------------------------- split / tree.map / merge
class StackedLeaf:
    """parameter leaf array with a leading member axis"""

    def __init__(self, params, dim):
        self.params = params
        self.dim = dim


class ParamLeaf:
    def __init__(self, params):
        self.params = params


_old_split = LIB.funcs["flax.nnx.split"]
_old_merge = LIB.funcs["flax.nnx.merge"]


def _nnx_split(E, m, *filters):
    LIB.used.add("flax.nnx.split")
    gd, st = _old_split.fn(E, m, *filters)
    st.stacked = stacked_dim(m) if is_module(m) else None
    return gd, st


def _nnx_merge(E, graphdef, state, *rest):
    LIB.used.add("flax.nnx.merge")
    m = _old_merge.fn(E, graphdef, state, *rest)
    for lf in leaf_nets(m):
        lf.fields["$stacked"] = getattr(state, "stacked", None)
    return m


LIB.funcs["flax.nnx.split"] = Builtin("flax.nnx.split", _nnx_split)
LIB.funcs["flax.nnx.merge"] = Builtin("flax.nnx.merge", _nnx_merge)

_prev_tree_hook = getattr(LIB, "tree_map_hook", None)


def _tree_map_hook(E, f, t, rs):
    if isinstance(t, StateVal):
        if rs:
            raise Unsupported("tree.map over several module states")
        dim = getattr(t, "stacked", None)
        out = []
        kinds = set()
        for fname, p in t.entries:
            leaf = StackedLeaf(p, dim) if dim is not None else ParamLeaf(p)
            r = E.call_value(f, [leaf], {})
            if isinstance(r, StackedLeaf):
                kinds.add("stacked")
            elif isinstance(r, ParamLeaf):
                kinds.add("plain")
            else:
                raise Unsupported("tree.map over module state with a function that is not a leaf selection")
            out.append((fname, r.params))
        if len(kinds) > 1:
            raise Unsupported("tree.map result mixes stacked and unstacked leaves")
        st = StateVal(out)
        st.stacked = dim if kinds == {"stacked"} else None
        return st
    if _prev_tree_hook is not None:
        return _prev_tree_hook(E, f, t, rs)
    return NotImplemented


LIB.tree_map_hook = _tree_map_hook


def _leaf_getitem(E, v, idx):
    if isinstance(v, StackedLeaf):
        if isinstance(idx, tuple):
            if len(idx) != 1:
                raise Unsupported("multi-axis index into a stacked parameter leaf")
            idx = idx[0]
        if isinstance(idx, bool) or not isinstance(idx, (int, Sym)) or (isinstance(idx, Sym) and idx.z.sort() != INT):
            raise Unsupported("non-integer index into a stacked parameter leaf")
        d = v.dim
        # jnp indexing: negative indices wrap once, the result is clamped into [0, d-1]
        i = C.ite(C.compare("<", idx, 0), C.binop("+", idx, d), idx)
        i = C.smax(0, C.smin(i, C.binop("-", d, 1)))
        iz = z3.simplify(C.as_int(i))
        return ParamLeaf(member(v.params, iz))
    if isinstance(v, ParamLeaf):
        raise Unsupported("index into an unstacked parameter leaf")
    return NotImplemented


LIB.getitem_handlers.insert(0, _leaf_getitem)


# ------------------------------------------------------------- random helpers
_old_choice = LIB.funcs["jax.random.choice"]


def _jr_choice(E, key, a, shape=(), replace=True, p=None, axis=0, **kw):
    LIB.used.add("jax.random.choice")
    shp = tuple(shape) if isinstance(shape, (tuple, list)) else (shape,)
    a2 = tt(a)
    if not shp or not isinstance(a2, (int, Sym)) or p is not None:
        if shp:
            raise Unsupported("jax.random.choice(array, shape=...)")
        return _old_choice.fn(E, key, a, shape)
    if isinstance(a2, Sym) and a2.z.sort() != INT:
        raise PyRaise("TypeError", "jax.random.choice: a must be an integer or an array")
    if replace is not True:
        raise Unsupported("jax.random.choice without replacement")
    shp = tuple(T.norm_dim(d) for d in shp)
    k = len(shp)
    f = C.uf(f"rand_choice_t{k}", *([KEY, INT] + [INT] * k + [INT]))
    kz, nz = key.z, C.as_int(a2)
    val = lambda *i: f(kz, nz, *[C.to_z3(x) for x in i])  # noqa: E731
    E.st.assume_forall([INT] * k, lambda *i: z3.And(val(*i) >= 0, val(*i) < nz), "choice.range")
    return Tensor(shp, lambda *i: Sym(val(*i)), INT)


LIB.funcs["jax.random.choice"] = Builtin("jax.random.choice", _jr_choice)


def _jr_permutation(E, key, x, axis=0, independent=False, **kw):
    LIB.used.add("jax.random.permutation")
    x = tt(x)
    if not isinstance(x, Tensor):
        raise Unsupported("jax.random.permutation of an integer")
    if independent:
        raise Unsupported("jax.random.permutation(independent=True)")
    if axis < 0:
        axis += x.ndim
    m = x.shape[axis]
    mz = T.dim_z(m)
    kz = key.z
    pf = C.uf("rand_perm", KEY, INT, INT, INT)
    pinv = C.uf("rand_perm_inv", KEY, INT, INT, INT)
    pi = lambda c: pf(kz, mz, C.to_z3(c))  # noqa: E731
    E.st.assume_forall([INT], lambda c: z3.Implies(z3.And(c >= 0, c < mz), z3.And(pi(c) >= 0, pi(c) < mz, pinv(kz, mz, pi(c)) == c)), "perm.bijection")
    E.st.assume_forall([INT], lambda c: z3.Implies(z3.And(c >= 0, c < mz), z3.And(pinv(kz, mz, c) >= 0, pinv(kz, mz, c) < mz, pi(pinv(kz, mz, c)) == c)), "perm.onto")
    E.st.ghost.setdefault("perms", []).append(dict(key=key, m=m, pi=pi, axis=axis, src=x))

    def fn(*i):
        j = list(i)
        j[axis] = Sym(pi(i[axis]))
        return x.at(*j)

    return Tensor(x.shape, fn, x.sort, x.gdeps)


LIB.funcs["jax.random.permutation"] = Builtin("jax.random.permutation", _jr_permutation)


# --------------------------------------------------------------------- shapes
def _reshape_split_last(E, v, shape):
    """(A.., M).reshape(A.., B, -1): C-order split of the last axis"""
    if len(shape) == 1 and isinstance(shape[0], (tuple, list)):
        shape = tuple(shape[0])
    shape = tuple(T.norm_dim(s) for s in shape)
    if len(shape) != v.ndim + 1 or v.ndim < 1:
        return None
    if not (isinstance(shape[-1], int) and shape[-1] == -1):
        return None
    if not all(T.dim_eq(a, b) for a, b in zip(shape[:-2], v.shape[:-1])):
        return None
    B, M = shape[-2], v.shape[-1]
    if isinstance(B, int) and B <= 0:
        return None
    nb = T.exact_quotient(M, B)  # M is literally B * nb (e.g. a rollout of n_envs * steps samples): keep the factor
    if nb is None:
        rem = C.binop("%", M, B)
        bad = C.compare("!=", rem, 0)
        if (bad if isinstance(bad, bool) else E.truth(bad)):
            raise PyRaise("ValueError", f"cannot reshape array of shape {v.shape} into shape {shape}")
        nb = T.norm_dim(C.binop("//", M, B))

    def fn(*o):
        return v.at(*(tuple(o[:-2]) + (C.binop("+", C.binop("*", o[-2], nb), o[-1]),)))

    return Tensor(tuple(v.shape[:-1]) + (B, nb), fn, v.sort, v.gdeps)


def _tensor_shape_attr(E, v, name):
    if not isinstance(v, Tensor):
        return NotImplemented
    if name == "reshape":
        def f(E, *shape, **kw):
            r = _reshape_split_last(E, v, shape)
            if r is not None:
                return r
            return T.reshape(v, shape)
        return Builtin("Tensor.reshape", f)
    if name == "transpose":
        def f(E, *axes):
            if len(axes) == 1 and isinstance(axes[0], (tuple, list)):
                axes = tuple(axes[0])
            return T.transpose(v, axes if axes else None)
        return Builtin("Tensor.transpose", f)
    return NotImplemented


LIB.value_attr_handlers.insert(0, _tensor_shape_attr)


@JM.both("split", doc="split(y, (k,), axis): [y[..:k], y[k:..]] along axis (index form with one cut)")
def jnp_split(E, y, indices_or_sections, axis=0):
    y = T.as_tensor(tt(y))
    if axis < 0:
        axis += y.ndim
    if isinstance(indices_or_sections, (tuple, list)) and len(indices_or_sections) == 1:
        k = indices_or_sections[0]
        pre = (slice(None),) * axis
        return [T.index(y, pre + (slice(None, k),)), T.index(y, pre + (slice(k, None),))]
    raise Unsupported("jnp.split other than one cut index")


# ----------------------------------------------------------------------- scan
LIB.const("flax.nnx.Carry", Opaque("nnx.Carry"))


def _carry_objects(v, out, seen):
    if id(v) in seen:
        return
    seen.add(id(v))
    if isinstance(v, Obj):
        out.append(v)
        for k, x in v.fields.items():
            if k == "$wrt":
                continue
            _carry_objects(x, out, seen)
    elif isinstance(v, (list, tuple)):
        for x in v:
            _carry_objects(x, out, seen)
    elif isinstance(v, dict):
        for x in v.values():
            _carry_objects(x, out, seen)


def _state_at(E, objs, tag, k):
    """set every state component of the carried objects to its value at scan index k"""
    kz = C.to_z3(k)
    for n, o in enumerate(objs):
        for fld, val in list(o.fields.items()):
            base = f"scan_{tag}_{n}_{fld.strip('$')}"
            if fld == "$params":
                E.log_write(o.name, fld)
                o.fields[fld] = Sym(C.uf(base, INT, PARAMS)(kz))
            elif fld == "$state" and isinstance(val, Sym) and val.z.sort() == OPTSTATE:
                E.log_write(o.name, fld)
                o.fields[fld] = Sym(C.uf(base, INT, OPTSTATE)(kz))
            elif fld == "$nupdates":
                o.fields[fld] = Sym(C.uf(base, INT, INT)(kz))
            elif isinstance(val, Tensor) and not fld.startswith("$") and val.sort == REAL:
                f = z3.Function(base, *([INT] * (val.ndim + 1) + [REAL]))
                E.log_write(o.name, fld)
                o.fields[fld] = Tensor(val.shape, (lambda f: (lambda *i: Sym(f(kz, *[C.to_z3(x) for x in i]))))(f), REAL, val.gdeps)


def scan_call(E, f, in_axes, out_axes, args):
    args = list(args)
    axes = list(in_axes) if isinstance(in_axes, (tuple, list)) else None
    if axes is None or len(axes) != len(args):
        raise Unsupported("nnx.scan: in_axes must be a tuple matching the arguments")
    is_carry = lambda a: isinstance(a, Opaque) and a.tag == "nnx.Carry"  # noqa: E731
    carry_pos = [k for k, a in enumerate(axes) if is_carry(a)]
    if len(carry_pos) != 1:
        raise Unsupported("nnx.scan without exactly one Carry argument")
    if not (isinstance(out_axes, (tuple, list)) and len(out_axes) == 2 and is_carry(out_axes[0]) and out_axes[1] == 0):
        raise Unsupported("nnx.scan: out_axes other than (Carry, 0)")
    L = None
    for a, ax in zip(args, axes):
        if is_carry(ax) or ax is None:
            continue
        if ax != 0:
            raise Unsupported("nnx.scan over an axis other than 0")
        for lf in JM._leaves(tt(a)):
            if not isinstance(lf, Tensor) or lf.ndim == 0:
                raise PyRaise("ValueError", "scan over a value without a leading axis")
            if L is None:
                L = lf.shape[0]
            elif not T.dim_eq(L, lf.shape[0]):
                raise PyRaise("ValueError", "scan got values with different leading axis sizes")
    if L is None:
        raise Unsupported("nnx.scan without scanned inputs (length=)")
    tag = E.st.fresh_name("s")
    k = E.st.fresh(f"scan_k_{tag}", INT)
    E.st.assume(z3.And(k >= 0, k < T.dim_z(L)))
    E.st.add_pool(k)
    carry = args[carry_pos[0]]
    objs = []
    _carry_objects(carry, objs, set())
    _state_at(E, objs, tag, k)
    sl = []
    for a, ax in zip(args, axes):
        if is_carry(ax) or ax is None:
            sl.append(a)
        else:
            sl.append(JM._map_leaves(tt(a), lambda lf: JM._slice_axis(lf, 0, Sym(k))))
    E.st.ghost.setdefault("scans", []).append(dict(k=Sym(k), length=L, tag=tag))
    out = E.call_value(f, sl, {})
    if not isinstance(out, (tuple, list)) or len(out) != 2:
        raise PyRaise("ValueError", "scan body must return (carry, y)")
    carry_out, y = out

    def wrap(o):
        o = tt(o)
        if o is None:
            return None
        if isinstance(o, (tuple, list)):
            return type(o)(wrap(x) for x in o)
        ot = T.as_tensor(o)

        def fn2(*idx):
            v = ot.at(*idx[1:])
            if isinstance(v, Sym):
                return Sym(z3.substitute(v.z, (k, C.to_z3(idx[0]))), v.gdeps)
            return v

        return Tensor((L,) + tuple(ot.shape), fn2, ot.sort, ot.gdeps)

    ys = wrap(y)
    # state after the last iteration, propagated to the caller's objects
    _state_at(E, objs, tag, L)
    return (carry_out, ys)


@LIB.fn("flax.nnx.scan", doc="nnx.scan(f, in_axes, out_axes): generic-iteration model (see module docstring)")
def nnx_scan(E, f=None, in_axes=None, out_axes=None, length=None, **kw):
    if kw.get("reverse") or kw.get("unroll") not in (None, 1):
        raise Unsupported("nnx.scan options")
    if f is None:
        return Builtin("nnx.scan()", lambda E, g: nnx_scan(E, g, in_axes=in_axes, out_axes=out_axes, length=length))
    return Builtin("nnx.scanned", lambda E, *a: scan_call(E, f, in_axes, out_axes, a))


# ------------------------------------------------------- real floor division
# Python / NumPy float `a // b` and `a % b` (b != 0):  a == b*q + r,  q = floor(a/b)
# integral, r has the sign of b and |r| < |b|.  q is the uninterpreted
# real_floordiv(a, b) (so that equal operands give equal results); its defining
# inequalities are recorded for every application when it is created, together
# with the three consequences q in {-1, 0, 1} for a within one period of zero.
# b == 0 (ZeroDivisionError / nan) is not modelled.
_rfd = C.uf("real_floordiv", REAL, REAL, INT)


def _real_divmod(a, b):
    pst = T.st()
    k = _rfd(a, b)
    kr = z3.ToReal(k)
    r = a - b * kr
    pst.assume(z3.And(
        z3.Implies(b > 0, z3.And(r >= 0, r < b)),
        z3.Implies(b < 0, z3.And(r <= 0, r > b)),
        z3.Implies(z3.And(b > 0, a >= 0, a < b), k == 0),
        z3.Implies(z3.And(b > 0, a >= b, a < 2 * b), k == 1),
        z3.Implies(z3.And(b > 0, a < 0, a >= -b), k == -1),
    ))
    return kr, r


C.REAL_DIVMOD_HOOK["fn"] = _real_divmod
