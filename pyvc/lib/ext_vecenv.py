"""gymnasium.vector.VectorEnv: typestate contract with per-environment episode state (C01 / C11).

ASSUMED contract of the Gymnasium >= 1.0 vector API (docs: "Vectorize your
environments", `gymnasium.vector.AutoresetMode`).  A vector environment with
`num_envs` sub-environments (a symbolic Int >= 1) is a heap object; everything
it returns is BATCHED - one opaque payload (sort Val) per reset / step - and its
per-sub-environment episode state is ghost:

  $cur     the batched observation returned last          $nsteps  vector steps so far
  $alive   Array Int -> Bool: sub-environment e has a running episode
  $stepped Array Int -> Bool: sub-environment e performed a REAL transition in the
           most recent vector step (it had a running episode when the step began)
  $started reset() has been called
  $before / $action   batched observation before / batched action of the most recent step
  ghost functions of the vector step index n:  OBS(n) REW(n) TERM(n) TRUNC(n) (batched, Val)
  and of (e, n):  DONE(e, n)  sub-environment e's episode ended in vector step n.

reset(seed=None, options=None): every sub-environment starts an episode.
step(actions):
  NEXT_STEP autoreset (the default): "the sub-environment is reset in the step
    AFTER the one in which it terminated or truncated: that step ignores the
    action, returns the reset observation, reward 0, terminated = truncated =
    False" -  alive'[e] = not DONE(e, n) if alive[e] else True;  stepped' = alive.
  SAME_STEP autoreset: "the sub-environment is reset in the same step; the step
    returns the reset observation as next observation and the final observation
    in info['final_obs']" - alive' = alive (all running), stepped' = alive.
  DISABLED is not modelled (Unsupported).
Stepping before the first reset is what C11 forbids: reported through the hook
`step.pre` (env.fields['$started']).

info: without a statistics wrapper it has no 'episode' entries; with
gymnasium.wrappers.vector.RecordEpisodeStatistics ("adds the episode statistics
to info['episode'] = {'r','l','t'} with the mask info['_episode']") it carries
opaque per-environment arrays: info['_episode'] (an opaque mask whose np.any is
an unconstrained Boolean), info['episode']['r'|'l'|'t'] (indexing with the mask
gives the list of the finished sub-environments' values - modelled with ONE
representative element: the lists are only iterated for logging).
"""
from __future__ import annotations

import z3

from .. import core as C
from ..core import BOOL, INT, VAL, Anything, Builtin, Obj, Opaque, Sym, Unsupported
from . import LIB
from . import gym_model, jax_model, np_model  # noqa: F401
from .gym_model import BOX_STUB, DISCRETE, hook

VENV = "gymnasium.vector.VectorEnv"
MASK = "stub.FinishedMask"
STATS = "stub.EpisodeStatArray"
LIB.class_bases["gymnasium.vector.SyncVectorEnv"] = [VENV]
BARR = z3.ArraySort(INT, BOOL)

for _m in ("NEXT_STEP", "SAME_STEP", "DISABLED"):
    LIB.const(f"gymnasium.vector.AutoresetMode.{_m}", Opaque("autoreset_mode", _m))
    LIB.const(f"gymnasium.vector.vector_env.AutoresetMode.{_m}", Opaque("autoreset_mode", _m))


def vec_funcs(name):
    return dict(OBS=C.uf(f"OBSV_{name}", INT, VAL), REW=C.uf(f"REWV_{name}", INT, VAL), TERM=C.uf(f"TERMV_{name}", INT, VAL),
                TRUNC=C.uf(f"TRUNCV_{name}", INT, VAL), RESET=C.uf(f"RESETV_{name}", INT, VAL), DONE=C.uf(f"DONE_{name}", INT, INT, BOOL))


def mk_vec_env(E, name="env", mode="NEXT_STEP", discrete=False, wrapped=False, started=None, n_envs=None):
    """vector environment in an arbitrary state (started=None: it may or may not have been reset yet);
    n_envs: a concrete number of sub-environments (then the statistics info carries per-environment lists)"""
    gym_model.VECTOR_ENVS.add(name)
    n_envs = E.int(f"{name}.num_envs", 1) if n_envs is None else n_envs
    if discrete:
        single = Obj(DISCRETE, {"n": E.int(f"{name}.n_actions", 2), "start": 0}, name=f"{name}.single_action_space")
    else:
        single = Obj(BOX_STUB, {"$dim": None}, name=f"{name}.single_action_space")
    E.register(single)
    n0 = E.int(f"{name}.steps_before", 0)
    o = Obj(VENV, {
        "num_envs": n_envs, "single_action_space": single, "metadata": {"autoreset_mode": LIB.funcs[f"gymnasium.vector.AutoresetMode.{mode}"]},
        "$name": name, "$concrete_envs": str(n_envs) if isinstance(n_envs, int) else "", "$mode": mode, "$wrapped": "yes" if wrapped else "no", "$cur": E.val(f"{name}.cur0"),
        "$alive": E.st.fresh_sym(f"{name}.alive0", BARR, is_input=True), "$stepped": E.st.fresh_sym(f"{name}.stepped0", BARR, is_input=True),
        "$started": E.bool(f"{name}.started0") if started is None else started,
        "$nsteps": n0, "$n0": n0, "$nresets": E.int(f"{name}.resets_before", 0),
        "$before": E.val(f"{name}.before0"), "$action": E.val(f"{name}.action0"), "$total": 0,
    }, name=name)
    E.register(o)
    if mode == "SAME_STEP":
        # state invariant of the mode: once reset, every sub-environment has a running episode between two steps
        E.assume(C.implies(C.as_bool(o.fields["$started"]) if not isinstance(o.fields["$started"], bool) else o.fields["$started"],
                           Sym(o.fields["$alive"].z == z3.K(INT, z3.BoolVal(True)))))
    return o


@LIB.cls(VENV)
def _venv(E, obj, name):
    f = obj.fields
    fn = vec_funcs(f["$name"])
    if name == "reset":
        def reset(E, seed=None, options=None, **kw):
            k = f["$nresets"]
            o = Sym(fn["RESET"](C.to_z3(k)))
            for fld in ("$cur", "$alive", "$nresets", "$started"):
                E.log_write(obj.name, fld)
            f["$cur"] = o
            f["$alive"] = Sym(z3.K(INT, z3.BoolVal(True)))
            f["$started"] = True
            f["$nresets"] = C.binop("+", k, 1)
            hook(E, "reset", env=obj, obs=o)
            return (o, VecInfo(obj, False))
        return Builtin("VectorEnv.reset", reset)
    if name == "step":
        def step(E, actions):
            if f["$mode"] not in ("NEXT_STEP", "SAME_STEP"):
                raise Unsupported(f"autoreset mode {f['$mode']}")
            hook(E, "step.pre", env=obj, action=actions)
            n = f["$nsteps"]
            nz = C.to_z3(n)
            for fld in ("$cur", "$alive", "$stepped", "$nsteps", "$before", "$action", "$total"):
                E.log_write(obj.name, fld)
            alive = f["$alive"].z
            e = z3.Int("e!venv")
            if f["$mode"] == "NEXT_STEP":
                new_alive = z3.Lambda([e], z3.If(z3.Select(alive, e), z3.Not(fn["DONE"](e, nz)), z3.BoolVal(True)))
            else:
                new_alive = alive
            f["$stepped"] = Sym(alive)
            f["$alive"] = Sym(new_alive)
            f["$before"] = f["$cur"]
            f["$action"] = actions
            f["$cur"] = Sym(fn["OBS"](nz))
            f["$nsteps"] = C.binop("+", n, 1)
            f["$total"] = C.binop("+", f["$total"], f["num_envs"])
            hook(E, "step.post", env=obj)
            return (f["$cur"], Sym(fn["REW"](nz)), Sym(fn["TERM"](nz)), Sym(fn["TRUNC"](nz)), VecInfo(obj, f["$wrapped"] == "yes", E, nz))
        return Builtin("VectorEnv.step", step)
    if name == "close":
        return Builtin("VectorEnv.close", lambda E: None)
    if name in ("unwrapped", "env"):
        return obj
    if name == "action_space":
        return f["single_action_space"]
    return NotImplemented


class VecInfo(dict):
    """info of a vector step; see module docstring"""

    def __init__(self, env, wrapped, E=None, nz=None):
        super().__init__()
        self.env = env
        n = int(env.fields["$concrete_envs"]) if env.fields.get("$concrete_envs") else None  # (a string: survives loop-cut havoc)
        if wrapped and n is not None and E is not None:
            # concrete number of sub-environments: per-environment lists.  RecordEpisodeStatistics adds its keys only
            # in steps in which some episode finished; info["_episode"][e] holds exactly for those sub-environments;
            # info["final_obs"][e] is their terminal observation (SAME_STEP: the returned observation is already the
            # reset observation of the next episode - a different value)
            fn = vec_funcs(env.fields["$name"])
            fin = [Sym(fn["DONE"](z3.IntVal(e), nz)) for e in range(n)]
            if E.st.branch(z3.Or(*[x.z for x in fin])):
                final = C.uf(f"FINALOBS_{env.fields['$name']}", INT, INT, VAL)
                ep_r, ep_l = C.uf(f"EPRET_{env.fields['$name']}", INT, INT, C.REAL), C.uf(f"EPLEN_{env.fields['$name']}", INT, INT, INT)
                for e in range(n):
                    E.assume(ep_l(z3.IntVal(e), nz) >= 1)
                self["_episode"] = fin
                self["episode"] = {"r": [Sym(ep_r(z3.IntVal(e), nz)) for e in range(n)], "l": [Sym(ep_l(z3.IntVal(e), nz)) for e in range(n)],
                                   "t": [Anything("episode.t")] * n}
                self["final_obs"] = [Sym(final(z3.IntVal(e), nz)) for e in range(n)]
        elif wrapped:
            m = Obj(MASK, {}, name=f"{env.name}.info._episode")
            self["_episode"] = m
            self["episode"] = {k: Obj(STATS, {}, name=f"{env.name}.info.episode.{k}") for k in ("r", "l", "t")}
            self["final_obs"] = Anything("final_obs")


@LIB.cls(MASK)
def _mask(E, obj, name):
    return NotImplemented


@LIB.cls(STATS)
def _stats(E, obj, name):
    return NotImplemented


def _stats_getitem(E, v, idx):
    if isinstance(v, Obj) and v.cls == STATS:
        return [Anything(f"{v.name}[finished]")]
    return NotImplemented


LIB.getitem_handlers.insert(0, _stats_getitem)


def _wrap_any(path):
    b = LIB.funcs.get(path)
    if b is None or getattr(b, "_mask", False):
        return
    old = b.fn

    def fn(E, v=None, *a, **k):
        if isinstance(v, Obj) and v.cls == MASK:
            return E.st.fresh_sym("some_episode_finished", BOOL)
        return old(E, v, *a, **k)

    b.fn = fn
    b._mask = True


for _p in ("numpy.any", "jax.numpy.any"):
    _wrap_any(_p)


@LIB.fn("gymnasium.wrappers.vector.RecordEpisodeStatistics", doc="vector RecordEpisodeStatistics(env): same environment; step info gains 'episode' / '_episode'")
def vec_record_statistics(E, env, *a, **k):
    if not (isinstance(env, Obj) and env.cls == VENV):
        raise Unsupported("vector RecordEpisodeStatistics of a non-vector environment")
    env.fields["$wrapped"] = "yes"  # (a string: python-level configuration is not havocked by loop cuts)
    return env
