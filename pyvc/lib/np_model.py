"""NumPy model: mutable rank-1 arrays (NDArr, slot-indexed storage with opaque
payloads) and functional tensors for everything else.

ASSUMED contracts (trusted base), each with the NumPy documentation clause it
transcribes.  NumPy functions applied to jax-style Tensors delegate to the
same tensor operations as jax.numpy (jax_model).
"""
from __future__ import annotations

from fractions import Fraction

import z3

from .. import core as C
from .. import tensor as T
from ..core import BOOL, INT, REAL, VAL, Builtin, NDArr, Obj, Opaque, PyRaise, Sym, Unsupported
from ..tensor import Tensor
from . import LIB

val_of_real = C.uf("val_of_real", REAL, VAL)
val_of_int = C.uf("val_of_int", INT, VAL)
val_of_bool = C.uf("val_of_bool", BOOL, VAL)


def cast_fn(dtype_tag):
    """storage cast of an opaque payload to the array's dtype: identity on
    values representable in the dtype (DESIGN 4.2); kept as an uninterpreted
    function per dtype so that 'unmodified up to the storage dtype' is what is
    proved, nothing more."""
    return C.uf(f"cast_{dtype_tag}", VAL, VAL)


def to_sort(v, sort, dtype_tag=None):
    """coerce a scalar to the element sort of an array"""
    if isinstance(v, Tensor):
        if v.ndim == 0:
            v = v.at()
        else:
            raise Unsupported("tensor payload into scalar slot")
    z = C.to_z3(v)
    s = z.sort()
    if sort == VAL:
        if s == REAL:
            z = val_of_real(z)
        elif s == INT:
            z = val_of_int(z)
        elif s == BOOL:
            z = val_of_bool(z)
        elif s != VAL:
            raise Unsupported(f"store of sort {s}")
        if dtype_tag:
            z = cast_fn(dtype_tag)(z)
        return z
    if sort == REAL:
        return C.as_real(v)
    if sort == INT:
        if s == REAL:
            raise Unsupported("real stored into int array (truncation)")
        return C.as_num(v)
    if sort == BOOL:
        return C.as_bool(v)
    raise Unsupported(f"array of sort {sort}")


def dtype_tag(d):
    if d is None:
        return "float"
    if isinstance(d, Builtin):
        return {"float": "float", "int": "int", "bool": "bool"}.get(d.name, d.name)
    if isinstance(d, Opaque) and d.tag == "dtype":
        return str(d.payload)
    if isinstance(d, C.LibNS):
        return d.path.split(".")[-1]
    if isinstance(d, str):
        return d
    return "float"


class PShape:
    """shape of an opaque payload"""

    def __init__(self, of):
        self.of = of

    def __repr__(self):
        return "<payload-shape>"


def _sym_attr(E, v, name):
    if isinstance(v, Sym) and v.z.sort() == VAL:
        if name == "shape":
            return (PShape(v),)
        if name in ("copy", "astype", "squeeze", "flatten"):
            return Builtin(name, lambda E, *a, **k: v)
        if name == "dtype":
            return Opaque("dtype", "payload")
    return NotImplemented


LIB.value_attr_handlers.insert(0, _sym_attr)


def _ndarr_attr(E, v, name):
    if not isinstance(v, NDArr):
        return NotImplemented
    if name == "shape":
        return (C.mk(v.length) if not isinstance(v.length, int) else v.length,) + tuple(getattr(v, "payload_shape", ()))
    if name == "dtype":
        return Opaque("dtype", getattr(v, "dtype", "float"))
    if name == "copy":
        def f(E):
            r = NDArr(v.data, v.length, v.elem_sort, E.alloc_name(None, None, ":copy"))
            r.dtype = getattr(v, "dtype", "float")
            r.payload_shape = getattr(v, "payload_shape", ())
            E.heap[r.name] = r
            return r
        return Builtin("ndarray.copy", f)
    if name == "mean":
        return Builtin("ndarray.mean", lambda E, *a, **k: T.mean(view(v)))
    if name == "sum":
        return Builtin("ndarray.sum", lambda E, *a, **k: T.reduce(view(v), "sum"))
    if name == "max":
        return Builtin("ndarray.max", lambda E, *a, **k: T.reduce(view(v), "max"))
    if name == "astype":
        return Builtin("ndarray.astype", lambda E, *a, **k: view(v))
    return NotImplemented


LIB.value_attr_handlers.insert(0, _ndarr_attr)


def view(a: NDArr, n=None):
    """functional snapshot of the first n slots"""
    data = a.data
    n = a.length if n is None else n
    n = C.mk(n) if isinstance(n, z3.ExprRef) else n
    t = Tensor((n,), lambda i: z3.Select(data, C.to_z3(i)), a.elem_sort)
    t.np_strict = True
    return t


def new_ndarr(E, length, sort, data=None, dtype="float", payload_shape=(), tag="arr"):
    node, fr = E.cur_call if E.cur_call else (None, None)
    name = E.alloc_name(fr, node, f":{tag}")
    if data is None:
        data = E.st.fresh(f"{tag}0", z3.ArraySort(INT, sort))
    a = NDArr(data, length if isinstance(length, int) else C.to_z3(length), sort, name)
    a.dtype = dtype
    a.payload_shape = payload_shape
    E.heap[name] = a
    return a


def _shape_arg(shape):
    if isinstance(shape, (tuple, list)):
        return tuple(shape)
    return (shape,)


@LIB.fn("numpy.empty", doc="numpy.empty(shape, dtype): new array of the given shape, contents arbitrary")
def np_empty(E, shape, dtype=None):
    shape = _shape_arg(shape)
    tag = dtype_tag(dtype)
    n = shape[0]
    if isinstance(n, Sym) and n.z.sort() != INT:
        raise PyRaise("TypeError", "shape must be integers")
    if isinstance(n, Fraction):
        raise PyRaise("TypeError", "'float' object cannot be interpreted as an integer")
    rest = shape[1:]
    if rest and not all(isinstance(r, PShape) for r in rest) or not rest and E.shared.__dict__.get("np_empty_payload", True):
        # payload slots: buffers of opaque values
        pass
    if isinstance(n, (int, Sym)):
        if isinstance(n, Sym):
            if E.st.branch(n < 0):
                raise PyRaise("ValueError", "negative dimensions are not allowed")
        if rest:
            sort = VAL  # slots holding opaque payloads
        else:
            sort = INT if tag in ("int", "int32", "int64") else (BOOL if tag == "bool" else REAL)
            if E.shared.__dict__.get("scalar_payloads_opaque", True) and _in_buffer_code(E) and not _in_priority_code(E):
                sort = VAL
        return new_ndarr(E, n, sort, dtype=tag, payload_shape=rest, tag="empty")
    raise Unsupported("np.empty shape")


@LIB.fn("numpy.zeros", doc="numpy.zeros(shape, dtype): new array filled with zeros")
def np_zeros(E, shape, dtype=None):
    shape = _shape_arg(shape)
    tag = dtype_tag(dtype)
    if len(shape) == 1 and E.shared.__dict__.get("np_zeros_mutable", True) and (isinstance(shape[0], Sym) or E.cur_call and _in_buffer_code(E)):
        sort = INT if tag in ("int", "int32", "int64", "bool") else REAL
        zero = z3.IntVal(0) if sort == INT else z3.RealVal(0)
        return new_ndarr(E, shape[0], sort, data=z3.K(INT, zero), dtype=tag, tag="zeros")
    sort = INT if tag.startswith("int") else REAL
    return T.full(shape, 0 if sort == INT else Fraction(0), sort)


def _in_priority_code(E):
    node, fr = E.cur_call
    return fr is not None and "PriorityBuffer" in fr.qualname


def _in_buffer_code(E):
    node, fr = E.cur_call
    return fr is not None and "replay_buffer" in fr.qualname


@LIB.fn("numpy.empty_like", doc="numpy.empty_like(prototype, dtype=None, shape=None): new array with the prototype's shape and dtype unless overridden, contents arbitrary")
def np_empty_like(E, prototype, dtype=None, order="K", subok=True, shape=None):
    if shape is None:
        shape = _sym_attr(E, prototype, "shape") if not isinstance(prototype, (NDArr, Tensor)) else prototype.shape
    if dtype is None:
        if isinstance(prototype, NDArr):
            dtype = prototype.dtype
        elif isinstance(prototype, Tensor):
            dtype = "int" if prototype.sort == INT else ("bool" if prototype.sort == BOOL else "float")
        elif isinstance(prototype, Sym) and prototype.z.sort() == VAL:
            # the dtype of an opaque payload is whatever that VALUE happens to be (python int, float32 array, ...):
            # a tag of its own, different from every declared dtype
            dtype = f"dtype_of({prototype.z})"
        else:
            z = C.to_z3(prototype)
            dtype = "int" if z.sort() == INT else ("bool" if z.sort() == BOOL else "float")
    return np_empty(E, shape, dtype)


@LIB.fn("numpy.asarray", doc="numpy.asarray: value-preserving conversion")
def np_asarray(E, v, dtype=None, **kw):
    if isinstance(v, (list, tuple)):
        return T.from_list(list(v))
    if isinstance(v, NDArr):
        return v
    return v


LIB.funcs["numpy.array"] = LIB.funcs["numpy.asarray"]
LIB.const("numpy.newaxis", None)
LIB.const("numpy.float32", Opaque("dtype", "float32"))
LIB.const("numpy.float64", Opaque("dtype", "float64"))
LIB.const("numpy.int32", Opaque("dtype", "int32"))
LIB.const("numpy.int64", Opaque("dtype", "int64"))
LIB.const("numpy.bool_", Opaque("dtype", "bool"))
LIB.const("numpy.inf", Opaque("inf"))
LIB.const("numpy.typing", C.LibNS("numpy.typing"))


@LIB.fn("numpy.arange", doc="numpy.arange(n): 0..n-1")
def np_arange(E, *a, **kw):
    if len(a) == 1:
        return T.arange(a[0])
    if len(a) == 2:
        lo, hi = a
        n = C.binop("-", hi, lo)
        return Tensor((n,), lambda i: C.binop("+", lo, i), INT)
    raise Unsupported("arange with step")


def _bounds_or_raise(E, idx, length, what="index"):
    """numpy raises IndexError for an out-of-range index; negative wraps"""
    lz = C.to_z3(length) if not isinstance(length, int) else z3.IntVal(length)
    iz = C.as_int(idx)
    inb = z3.And(iz >= -lz, iz < lz)
    if E.may(z3.Not(inb)):
        if not E.st.branch(inb):
            raise PyRaise("IndexError", f"{what} out of bounds")
    neg = iz < 0
    if E.may(neg):
        return z3.If(neg, iz + lz, iz)
    return iz


def _tensor_bounds_or_raise(E, idx: Tensor, length, what="index"):
    lz = C.to_z3(length) if not isinstance(length, int) else z3.IntVal(length)
    n = idx.ndim

    def inb(*q):
        rng = [z3.And(C.to_z3(q[k]) >= 0, C.to_z3(q[k]) < T.dim_z(idx.shape[k])) for k in range(n)]
        v = C.as_int(idx.at(*q))
        return z3.Implies(z3.And(*rng), z3.And(v >= -lz, v < lz))

    # the same index tensor against the same length (every field of a dict-of-arrays buffer): decided once per path
    done = E.st.ghost.setdefault("gather_inb_done", {})
    ck = (id(idx), lz.get_id())
    if ck in done:
        return
    done[ck] = (idx, lz)  # pins both objects, so the ids stay unique
    sks = [E.st.fresh(f"q{k}", INT) for k in range(n)]
    viol = z3.Not(inb(*sks))
    if E.may(viol, extra_pool=sks):
        if E.st.branch(viol):
            raise PyRaise("IndexError", f"{what} out of bounds")
        # on the surviving path the whole index tensor is in range
    E.st.assume_forall([INT] * n, inb, "gather.inb")


def _getitem(E, v, idx):
    if isinstance(v, NDArr):
        if isinstance(idx, Tensor):
            if idx.sort != INT:
                raise Unsupported("non-integer index array")
            _tensor_bounds_or_raise(E, idx, v.length)
            data = v.data
            lz = C.to_z3(v.length) if not isinstance(v.length, int) else z3.IntVal(v.length)
            E.st.ghost.setdefault("gather_indices", []).append(idx)

            def fn(*q):
                iz = C.as_int(idx.at(*q))
                return z3.Select(data, iz)

            return Tensor(idx.shape, fn, v.elem_sort)
        if isinstance(idx, slice):
            if idx.step not in (None, 1) or idx.start not in (None, 0):
                raise Unsupported("ndarray slice")
            hi = v.length if idx.stop is None else idx.stop
            hi_c = C.smin(hi, C.mk(v.length) if not isinstance(v.length, int) else v.length)
            hi_c = C.smax(hi_c, 0)
            return view(v, C.to_z3(hi_c) if isinstance(hi_c, Sym) else hi_c)
        if isinstance(idx, (int, Sym)):
            iz = _bounds_or_raise(E, idx, v.length)
            return C.mk(z3.Select(v.data, iz))
        if isinstance(idx, tuple) and len(idx) == 1:
            return _getitem(E, v, idx[0])
        raise Unsupported(f"ndarray index {type(idx).__name__}")
    if isinstance(v, Tensor):
        if v.np_strict:
            tup = idx if isinstance(idx, tuple) else (idx,)
            ax = 0
            for i in tup:
                if i is None:
                    continue
                if ax >= v.ndim:
                    raise PyRaise("IndexError", "too many indices for array")
                if (isinstance(i, Sym) and i.z.sort() == INT) or (isinstance(i, int) and not isinstance(i, bool)):
                    d = v.shape[ax]
                    if not (isinstance(i, int) and isinstance(d, int)):
                        dz = T.dim_z(d)
                        iz = C.as_int(i)
                        inb = z3.And(iz >= -dz, iz < dz)
                        if E.may(z3.Not(inb)):
                            if not E.st.branch(inb):
                                raise PyRaise("IndexError", "index out of bounds")
                ax += 1
        return T.index(v, idx)
    return NotImplemented


def _setitem(E, v, idx, value):
    if isinstance(v, NDArr):
        E.log_write(v.name, "data")
        tag = getattr(v, "dtype", None) if v.elem_sort == VAL else None
        if isinstance(idx, (int, Sym)):
            iz = _bounds_or_raise(E, idx, v.length)
            v.data = z3.Store(v.data, iz, to_sort(value, v.elem_sort, tag))
            return True
        if isinstance(idx, (list, tuple)) and all(isinstance(i, (int, Sym)) for i in idx):
            for i in idx:
                iz = _bounds_or_raise(E, i, v.length)
                v.data = z3.Store(v.data, iz, to_sort(value, v.elem_sort, tag))
            return True
        if isinstance(idx, Tensor) and idx.ndim == 1:
            _tensor_bounds_or_raise(E, idx, v.length)
            old = v.data
            new = E.st.fresh(f"{_short(v.name)}.st", old.sort())
            n = T.dim_z(idx.shape[0])
            w = z3.Function(E.st.fresh_name("wit"), INT, INT)
            if isinstance(value, Tensor):
                if value.ndim != 1 or not T.dim_eq(value.shape[0], idx.shape[0]):
                    if value.ndim == 1 and T.dim_is_one(value.shape[0]):
                        value = value.at(0)
                    else:
                        raise T.ShapeError("shape mismatch in fancy assignment")
            if isinstance(value, Tensor):
                last = z3.Function(E.st.fresh_name("last"), INT, INT)
                E.st.assume_forall([INT], lambda k: z3.Implies(z3.And(k >= 0, k < n), z3.And(
                    last(k) >= 0, last(k) < n,
                    C.as_int(idx.at(last(k))) == C.as_int(idx.at(k)),
                    z3.Select(new, C.as_int(idx.at(k))) == to_sort(value.at(last(k)), v.elem_sort, tag))), "fancy.set.hit")
            else:
                vz = to_sort(value, v.elem_sort, tag)
                E.st.assume_forall([INT], lambda k: z3.Implies(z3.And(k >= 0, k < n), z3.Select(new, C.as_int(idx.at(k))) == vz), "fancy.set.hit")
            E.st.assume_forall([INT], lambda s: z3.Or(z3.Select(new, s) == z3.Select(old, s), z3.And(w(s) >= 0, w(s) < n, C.as_int(idx.at(w(s))) == s)), "fancy.set.frame")
            v.data = new
            return True
        raise Unsupported(f"ndarray store index {type(idx).__name__}")
    return NotImplemented


def _short(n):
    return n.split(":")[-1].split("#")[0] if ":" in n else n


LIB.getitem_handlers.append(_getitem)
LIB.setitem_handlers.append(_setitem)


def _len(E, v):
    if isinstance(v, NDArr):
        return C.mk(v.length) if not isinstance(v.length, int) else v.length
    if isinstance(v, Tensor):
        if not v.shape:
            raise PyRaise("TypeError", "len() of unsized object")
        return v.shape[0]
    return NotImplemented


LIB.len_handlers.append(_len)


def _iterate(E, v):
    if isinstance(v, Tensor):
        return v.unpack_axis0()
    return NotImplemented


LIB.iterate_handlers.append(_iterate)


def _as_t(x):
    if isinstance(x, NDArr):
        return view(x)
    return x


def ndarr_binop(E, op, a, b):
    return C.binop(op, _as_t(a), _as_t(b))


def ndarr_compare(E, op, a, b):
    return C.compare(op, _as_t(a), _as_t(b))


@LIB.fn("numpy.cumsum", doc="numpy.cumsum(a)[i] = a[0]+...+a[i]")
def np_cumsum(E, a, axis=None):
    a = T.as_tensor(_as_t(a))
    if a.ndim != 1:
        raise Unsupported("cumsum rank")
    return cumsum(E, a)


def cumsum(E, a: Tensor):
    n = a.shape[0]
    nz = T.dim_z(n)
    sort = REAL if a.sort == REAL else INT
    cs = z3.Function(E.st.fresh_name("cumsum"), INT, sort)
    x = lambda i: C.as_num(a.at(i))  # noqa: E731
    E.st.assume(z3.Implies(nz >= 1, cs(0) == x(0)))
    E.st.assume_forall([INT], lambda i: z3.Implies(z3.And(i >= 1, i < nz), cs(i) == cs(i - 1) + x(i)), "cumsum.step")
    t = Tensor((n,), lambda i: cs(C.to_z3(i)), sort)
    t.cumsum_of = a
    t.cs = cs
    t.np_strict = True
    # Lemma cumsum_mono (lemmas/SumLemmas.lean), applied automatically when its
    # premise (all summands >= 0) is provable in the current state.
    from ..state import prove
    sk = E.st.fresh("cs_i", INT)
    prem = z3.Implies(z3.And(sk >= 0, sk < nz), x(sk) >= 0)
    v, *_ = prove(E.st.pc, E.st.qfacts, prem, extra_pool=list(E.st.pool) + [sk], timeout_ms=4000, quick=True)
    t.monotone = v == "unsat"
    E.st.ghost["last_cumsum"] = t
    E.st.ghost.setdefault("cumsums", []).append(t)
    if t.monotone:
        E.st.assume_forall([INT, INT], lambda i, j: z3.Implies(z3.And(i >= 0, i <= j, j < nz), cs(i) <= cs(j)), "cumsum.monotone")
    # mirror image (same lemma applied to -x): all summands <= 0 => non-increasing
    prem2 = z3.Implies(z3.And(sk >= 0, sk < nz), x(sk) <= 0)
    v2, *_ = prove(E.st.pc, E.st.qfacts, prem2, extra_pool=list(E.st.pool) + [sk], timeout_ms=4000, quick=True)
    if v2 == "unsat":
        E.st.assume_forall([INT, INT], lambda i, j: z3.Implies(z3.And(i >= 0, i <= j, j < nz), cs(i) >= cs(j)), "cumsum.antitone")
    return t


def cumsum_monotone(E, t, name="cumsum.monotone"):
    """Lemma (lemmas/SumLemmas.lean: cumsum_mono): if every summand is >= 0
    then the cumulative sum is non-decreasing.  The premise is an obligation;
    the conclusion is then assumed."""
    a = t.cumsum_of
    n = T.dim_z(a.shape[0])
    cs = t.cs
    E.st.oblige_forall(f"{name}.premise_nonneg", [INT], lambda i: z3.Implies(z3.And(i >= 0, i < n), C.as_num(a.at(i)) >= 0), hint="i", using=["PWF", "sample.interval_law", "sampling.interval_law", "gather.inb"])
    E.st.assume_forall([INT, INT], lambda i, j: z3.Implies(z3.And(i >= 0, i <= j, j < n), cs(i) <= cs(j)), name)


@LIB.fn("numpy.searchsorted", doc="numpy.searchsorted(a, v, side='left'): i with a[i-1] < v <= a[i]")
def np_searchsorted(E, a, v, side="left"):
    a = T.as_tensor(_as_t(a))
    if side != "left":
        raise Unsupported("searchsorted side")
    nz = T.dim_z(a.shape[0])
    vt = T.as_tensor(v)
    k = vt.ndim
    ss = z3.Function(E.st.fresh_name("ss"), *([INT] * k + [INT])) if k else None

    def res(*q):
        return ss(*[C.to_z3(x) for x in q]) if k else ssc

    if not k:
        ssc = E.st.fresh("ss", INT)

    def spec(*args):
        q, j = args[:-1], args[-1]
        r = res(*q)
        vq = C.as_num(vt.at(*q))
        aj = C.as_num(a.at(j))
        return z3.And(r >= 0, r <= nz,
                      z3.Implies(z3.And(j >= 0, j < r), aj < vq),
                      z3.Implies(z3.And(j >= r, j < nz), aj >= vq))

    E.st.assume_forall([INT] * (k + 1), spec, "searchsorted")
    out = Tensor(vt.shape, lambda *q: res(*q), INT)
    out.np_strict = True
    E.st.ghost["last_searchsorted"] = out
    return T.unwrap0(out)


@LIB.fn("numpy.nonzero", doc="numpy.nonzero(a): indices of the non-zero entries, ascending")
def np_nonzero(E, a):
    a1 = T.as_tensor(_as_t(a))
    if a1.ndim != 1:
        raise Unsupported("nonzero rank")
    nz = T.dim_z(a1.shape[0])
    # all entries provably zero: the result is empty (so that callers' empty-case
    # behaviour - e.g. rng.integers(0, 0) raising - is decided, not forked)
    from ..state import prove as _prove
    sk = E.st.fresh("nz_i", INT)
    v, *_ = _prove(E.st.pc, E.st.qfacts, z3.Implies(z3.And(sk >= 0, sk < nz), C.as_num(a1.at(sk)) == 0), extra_pool=[sk], timeout_ms=4000, quick=True)
    if v == "unsat":
        return (Tensor((0,), lambda q: 0, INT),)
    cnt = E.st.fresh_sym("nnz", INT)
    f = z3.Function(E.st.fresh_name("nzidx"), INT, INT)
    inv = z3.Function(E.st.fresh_name("nzpos"), INT, INT)
    nonzero = lambda i: C.as_num(a1.at(i)) != 0  # noqa: E731
    E.st.assume(cnt.z >= 0)
    E.st.assume(cnt.z <= nz)
    E.st.assume_forall([INT], lambda q: z3.Implies(z3.And(q >= 0, q < cnt.z), z3.And(f(q) >= 0, f(q) < nz, nonzero(f(q)), inv(f(q)) == q)), "nonzero.sound")
    E.st.assume_forall([INT], lambda i: z3.Implies(z3.And(i >= 0, i < nz, nonzero(i)), z3.And(inv(i) >= 0, inv(i) < cnt.z, f(inv(i)) == i)), "nonzero.complete")
    return (Tensor((cnt,), lambda q: f(C.to_z3(q)), INT),)


@LIB.fn("numpy.max", doc="numpy.max")
def np_max(E, a, axis=None, **kw):
    a = _as_t(a)
    if not isinstance(a, Tensor):
        if isinstance(a, (list, tuple)):
            return T.reduce(T.from_list(list(a)), "max", axis)
        return a
    return T.reduce(a, "max", axis)


@LIB.fn("numpy.min", doc="numpy.min")
def np_min(E, a, axis=None, **kw):
    a = _as_t(a)
    if not isinstance(a, Tensor):
        if isinstance(a, (list, tuple)):
            return T.reduce(T.from_list(list(a)), "min", axis)
        return a
    return T.reduce(a, "min", axis)


@LIB.fn("numpy.abs", doc="numpy.abs")
def np_abs(E, a):
    a = _as_t(a)
    return T.tabs(a) if isinstance(a, Tensor) else C.sabs(a)


@LIB.fn("numpy.random.default_rng", doc="numpy.random.default_rng(seed): Generator determined by seed")
def np_default_rng(E, seed=None):
    o = Obj("numpy.random.Generator", {"$seed": seed}, name=E.alloc_name(None, None, ":rng"))
    E.register(o)
    return o


@LIB.cls("numpy.random.Generator")
def _generator(E, obj, name):
    if name == "integers":
        def f(E, low, high=None, size=None, **kw):
            if high is None:
                low, high = 0, low
            if E.st.branch(C.compare("<=", high, low)):
                raise PyRaise("ValueError", "low >= high")
            if size is None:
                r = E.st.fresh_sym("randint", INT)
                E.assume(C.band(C.compare(">=", r, low), C.compare("<", r, high)))
                return r
            shape = _shape_arg(size)
            if any(isinstance(s, Fraction) or (isinstance(s, Sym) and s.z.sort() != INT) for s in shape):
                raise PyRaise("TypeError", "size must be integers")
            t = T.fresh_tensor("randint", shape, INT, is_input=True)
            k = len(shape)
            E.st.assume_forall([INT] * k, lambda *q: z3.And(C.as_int(t.at(*q)) >= C.as_int(low), C.as_int(t.at(*q)) < C.as_int(high)), "integers.range")
            E.st.ghost["last_integers"] = t
            return t
        return Builtin("Generator.integers", f)
    if name == "uniform":
        def f(E, low=0, high=1, size=None):
            if size is None:
                shape = ()
            else:
                shape = _shape_arg(size)
            lt, ht = T.as_tensor(low), T.as_tensor(high)
            shape = T.broadcast_shapes(shape, lt.shape, ht.shape)
            u = T.fresh_tensor("unif", shape, REAL, is_input=True)
            k = len(shape)
            # half-open unit interval, excluding 0 (property quantifier: (0,1))
            E.st.assume_forall([INT] * k, lambda *q: z3.And(C.as_real(u.at(*q)) > 0, C.as_real(u.at(*q)) < 1), "uniform.unit") if k else E.assume(C.band(u.at() > 0, u.at() < 1))
            if lt.ndim == 0 and ht.ndim == 0 and lt.at() == 0 and ht.at() == 1:
                res = u
            else:
                # opaque result + named defining fact (reveal with using=["uniform.def"]):
                # keeps later queries linear in the drawn points
                res = T.fresh_tensor("unifpt", shape, REAL, is_input=False)
                defn = lambda *q: C.as_real(res.at(*q)) == C.as_real(lt.at(*T._bidx(lt, k, q))) + C.as_real(u.at(*q)) * (C.as_real(ht.at(*T._bidx(ht, k, q))) - C.as_real(lt.at(*T._bidx(lt, k, q))))  # noqa: E731
                if k:
                    E.st.assume_forall([INT] * k, defn, "uniform.def")
                else:
                    E.assume(defn())
                res = T.unwrap0(res)
            if isinstance(res, Tensor):
                res.unit = u
                res.np_strict = True
            E.st.ghost["last_uniform_unit"] = u
            E.st.ghost["last_uniform_bounds"] = (lt, ht)
            E.st.ghost["last_uniform_points"] = res
            return res
        return Builtin("Generator.uniform", f)
    if name == "choice":
        def f(E, a, size=None, **kw):
            items = E.iterate(a)
            if not items:
                raise PyRaise("ValueError", "a cannot be empty")
            i = E.st.fresh_sym("choice", INT, is_input=True)
            E.assume(C.band(i >= 0, i < len(items)))
            x = E._sym_list_index(items, i)
            if size is None:
                return x
            return T.from_list([x])
        return Builtin("Generator.choice", f)
    if name == "random":
        def f(E, size=None):
            u = E.st.fresh_sym("unif", REAL, is_input=True)
            E.assume(C.band(u >= 0, u < 1))
            return u
        return Builtin("Generator.random", f)
    if name == "permutation":
        raise Unsupported("Generator.permutation")
    return NotImplemented
