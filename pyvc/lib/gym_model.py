"""gymnasium model: the environment typestate contract of DESIGN 5 (C01/C11).

ASSUMED contract of the Gymnasium API.  An environment is a heap object with
ghost fields
  $cur     last returned observation (sort Val)
  $alive   an episode is running (reset done, no termination/truncation since)
  $nsteps  number of step() calls so far;  $nresets number of reset() calls
  $ndone   number of finished episodes (steps that returned terminated or truncated)
  $before / $action   observation before / action passed to the most recent step
and immutable "log space" ghost functions of the step index n of THIS
environment: OBS(n), REW(n), TERM(n), TRUNC(n) and RESET(k) for the k-th reset.
`step` when not $alive is what the property forbids: it is reported through
the obligation hook `step.pre.alive` (C11) instead of being modelled.
"""
from __future__ import annotations

from fractions import Fraction

import z3

from .. import core as C
from .. import tensor as T
from ..core import BOOL, INT, REAL, VAL, Anything, Builtin, Obj, Opaque, PyRaise, Sym, Unsupported
from . import LIB

ENV = "gymnasium.Env"
DISCRETE = "gymnasium.spaces.Discrete"
BOX = "gymnasium.spaces.Box"
LIB.class_bases[DISCRETE] = ["gymnasium.spaces.Space"]
LIB.class_bases[BOX] = ["gymnasium.spaces.Space"]
LIB.class_bases["gymnasium.core.Env"] = [ENV]


VECTOR_ENVS = set()  # names of vector environments (pyvc/lib/ext_vecenv.py): their step outputs are batched payloads


def env_funcs(name):
    if name in VECTOR_ENVS:
        from .ext_vecenv import vec_funcs

        return vec_funcs(name)
    return dict(
        OBS=C.uf(f"OBS_{name}", INT, VAL), REW=C.uf(f"REW_{name}", INT, REAL), TERM=C.uf(f"TERM_{name}", INT, BOOL),
        TRUNC=C.uf(f"TRUNC_{name}", INT, BOOL), RESET=C.uf(f"RESET_{name}", INT, VAL))


def mk_env(E, name="env", discrete=True, alive=False):
    """environment in an arbitrary state: before the first reset ($alive False)
    unless alive=True"""
    if discrete:
        n = E.int(f"{name}.n_actions", 2)
        space = Obj(DISCRETE, {"n": n}, name=f"{name}.action_space")
    else:
        space = Obj(BOX_STUB, {"$dim": None}, name=f"{name}.action_space")
    E.register(space)
    obs_space = Obj("gymnasium.spaces.Space", {"dtype": Opaque("dtype", "float32"), "shape": (Opaque("obs-shape"),)}, name=f"{name}.observation_space")
    E.register(obs_space)
    n0 = E.int(f"{name}.steps_before", 0)
    o = Obj(ENV, {
        "action_space": space, "observation_space": obs_space,
        "$name": name, "$cur": E.val(f"{name}.cur0"), "$alive": E.bool(f"{name}.alive0") if alive is None else alive,
        "$nsteps": n0, "$nresets": E.int(f"{name}.resets_before", 0), "$ndone": E.int(f"{name}.done_before", 0),
        "$before": E.val(f"{name}.before0"), "$action": E.val(f"{name}.action0"), "$n0": n0,
        "$eplen": E.int(f"{name}.eplen0", 0), "$epret": E.real(f"{name}.epret0"),
    }, name=name)
    E.register(o)
    return o


def hook(E, kind, **kw):
    for h in E.shared.__dict__.get("env_hooks", []):
        h(E, kind, **kw)


@LIB.cls(ENV)
def _env(E, obj, name):
    f = obj.fields
    fn = env_funcs(f["$name"])
    if name == "reset":
        def reset(E, seed=None, options=None, **kw):
            k = f["$nresets"]
            o = Sym(fn["RESET"](C.to_z3(k)))
            E.log_write(obj.name, "$cur")
            E.log_write(obj.name, "$alive")
            E.log_write(obj.name, "$nresets")
            f["$cur"] = o
            f["$alive"] = True
            f["$nresets"] = C.binop("+", k, 1)
            E.log_write(obj.name, "$eplen")
            E.log_write(obj.name, "$epret")
            f["$eplen"] = 0
            f["$epret"] = 0
            hook(E, "reset", env=obj, obs=o)
            return (o, {})
        return Builtin("Env.reset", reset)
    if name == "step":
        def step(E, action):
            hook(E, "step.pre", env=obj, action=action)
            n = f["$nsteps"]
            nz = C.to_z3(n)
            o2, r = Sym(fn["OBS"](nz)), Sym(fn["REW"](nz))
            term, trunc = Sym(fn["TERM"](nz)), Sym(fn["TRUNC"](nz))
            for fld in ("$cur", "$alive", "$nsteps", "$before", "$action", "$ndone"):
                E.log_write(obj.name, fld)
            f["$before"] = f["$cur"]
            f["$action"] = action
            f["$cur"] = o2
            done = C.mk(z3.Or(term.z, trunc.z))
            f["$alive"] = C.unop("not", done)
            f["$nsteps"] = C.binop("+", n, 1)
            f["$ndone"] = C.binop("+", f["$ndone"], C.ite(done, 1, 0))
            E.log_write(obj.name, "$eplen")
            E.log_write(obj.name, "$epret")
            f["$eplen"] = C.binop("+", f["$eplen"], 1)
            f["$epret"] = C.binop("+", f["$epret"], r)
            hook(E, "step.post", env=obj)
            info = InfoDict(obj)
            return (o2, r, term, trunc, info)
        return Builtin("Env.step", step)
    if name == "close":
        return Builtin("Env.close", lambda E: None)
    if name == "unwrapped":
        return obj
    if name == "spec":
        return Anything("env.spec")
    return NotImplemented


class InfoDict(dict):
    """info returned by step: contents unconstrained; 'episode' in info is unknown"""

    def __init__(self, env):
        super().__init__()
        self.env = env


@LIB.cls(DISCRETE)
def _discrete(E, obj, name):
    if name == "sample":
        def sample(E, *a, **k):
            s = E.st.fresh_sym("space_sample", INT)
            E.assume(C.band(s >= 0, C.compare("<", s, obj.fields["n"])))
            hook(E, "space.sample", space=obj, action=s)
            return s
        return Builtin("Discrete.sample", sample)
    if name == "seed":
        return Builtin("Space.seed", lambda E, *a, **k: None)
    if name == "shape":
        return ()
    return NotImplemented


BOX_STUB = "stub.Box"  # loop-level Box: actions are opaque payloads known to lie inside the box


@LIB.cls(BOX_STUB, bases=(BOX,))
def _box(E, obj, name):
    if name == "sample":
        def sample(E, *a, **k):
            s = E.st.fresh_sym("space_sample", VAL)
            E.st.ghost.setdefault("in_bounds_actions", []).append(s)
            hook(E, "space.sample", space=obj, action=s)
            return s
        return Builtin("Box.sample", sample)
    if name == "seed":
        return Builtin("Space.seed", lambda E, *a, **k: None)
    if name in ("low", "high"):
        return obj.fields.get(name, Anything(f"box.{name}"))
    if name == "shape":
        return obj.fields.get("shape", (Opaque("act-dim"),))
    return NotImplemented


@LIB.cls("gymnasium.spaces.Space")
def _space(E, obj, name):
    return NotImplemented


def _space_setattr(E, tag, obj, name, value):
    return NotImplemented


@LIB.fn("tqdm.trange", doc="trange(a,b) iterates like range(a,b)")
def tqdm_trange(E, *a, **kw):
    r = LIB.builtins["range"].fn(E, *a)
    return Progress(r)


class Progress:
    def __init__(self, rng):
        self.rng = rng


@LIB.fn("tqdm.tqdm")
def tqdm_tqdm(E, it=None, **kw):
    return Progress(it)


def _progress_attr(E, v, name):
    if isinstance(v, Progress):
        if name in ("update", "close", "set_description", "set_postfix", "refresh", "write"):
            return Builtin(f"tqdm.{name}", lambda E, *a, **k: None)
        if name == "n":
            return Anything("tqdm.n")
    return NotImplemented


LIB.value_attr_handlers.insert(0, _progress_attr)

_orig_as_range = LIB.as_symbolic_range


def _as_range(E, it):
    if isinstance(it, Progress):
        it = it.rng
    return _orig_as_range(E, it)


LIB.as_symbolic_range = _as_range


def _iterate_progress(E, v):
    if isinstance(v, Progress):
        return E.iterate(v.rng)
    return NotImplemented


LIB.iterate_handlers.insert(0, _iterate_progress)


def _info_contains(E, container, item):
    if isinstance(container, InfoDict):
        return E.st.fresh_sym("info_has", BOOL)
    return NotImplemented


LIB.contains_hook = _info_contains
