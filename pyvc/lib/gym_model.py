"""gym_model (library models)"""
from . import LIB
