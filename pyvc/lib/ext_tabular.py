"""Library / builtin models needed by the tabular learners (C14).

ASSUMED contracts (trusted base), each transcribing a documented clause:

* PyTable - a Python *nested list* `t[i][j][k]` with symbolic dimensions
  (dynaq.Counter.transition_counter / reward_history are list-of-list-of-list).
  Language semantics transcribed: `t[i]` of an in-range int returns the i-th
  sub-list (by reference, so `t[i][j][k] = v` / `+=` mutates the one shared
  cell and nothing else); out-of-range -> IndexError; negative indices wrap.
* a leaf `list[float]` that is only ever `.append`ed to and summarised by
  `np.mean` / `len` / `sum` is abstracted by the pair (len, sum):
  append(x): len+1, sum+x;  np.mean(l) = sum(l)/len(l)  (NumPy doc: "arithmetic
  mean ... sum of the elements divided by the number of elements").
* builtin sum(row) over a numeric row = Sum node of the row (pyvc.tensor).
* jax.lax.fori_loop(lower, upper, body_fun, init_val): documented semantics
      val = init_val
      for i in range(lower, upper): val = body_fun(i, val)
      return val
  Concrete trip counts are unrolled; symbolic trip counts need a sidecar
  handler `shared.fori_specs[<body qualname>] = h(E, lower, upper, body, init)`
  (inductive cut written in the contract file), otherwise Unsupported.
* sum lemmas for finite sums of integers (Finset.sum_update_of_mem /
  Finset.sum_nonneg / Finset.single_le_sum in Mathlib), stated for concrete
  node pairs by `sum_point_update_lemmas`.
"""
from __future__ import annotations

from fractions import Fraction

import z3

from .. import core as C
from .. import tensor as T
from ..core import INT, REAL, Builtin, PyRaise, Sym, Unsupported
from ..tensor import Tensor
from . import LIB
from . import builtins_model, np_model, jax_model  # noqa: F401  (wrapped below: load them first)


# ---------------------------------------------------------------- nested lists
class PyTable:
    """nested python list with (possibly symbolic) dims.
    kind 'num'  : cells are numbers, contents in tensor `t`
    kind 'lists': cells are list[float] abstracted by (`ln`, `sm`)"""

    def __init__(self, name, shape, kind="num", t=None, ln=None, sm=None):
        self.name = name
        self.shape = tuple(shape)
        self.kind = kind
        self.t = t
        self.ln = ln
        self.sm = sm

    def __repr__(self):
        return f"<PyTable {self.name} {self.kind} {self.shape}>"


class PyTableView:
    def __init__(self, root, prefix):
        self.root = root
        self.prefix = tuple(prefix)


class PyListCell:
    """one list[float] cell of a 'lists' table"""

    def __init__(self, root, idx):
        self.root = root
        self.idx = tuple(idx)

    def length(self):
        return self.root.ln.at(*self.idx)

    def total(self):
        return self.root.sm.at(*self.idx)


def fresh_count_table(E, name, shape):
    """arbitrary nested list of ints"""
    return PyTable(name, shape, "num", t=T.fresh_tensor(name, shape, INT))


def fresh_history_table(E, name, shape):
    """arbitrary nested list of float lists (len >= 0 is a list-length fact)"""
    ln = T.fresh_tensor(name + ".len", shape, INT)
    sm = T.fresh_tensor(name + ".sum", shape, REAL)
    # len(l) >= 0 is stated for each cell when it is accessed (_tab_getitem)
    return PyTable(name, shape, "lists", ln=ln, sm=sm)


def _as_view(v):
    if isinstance(v, PyTable):
        return PyTableView(v, ())
    return v


def _may(E, cond):
    """E.may with a cheap first attempt that ignores the quantified facts
    (hiding hypotheses is sound: 'impossible' stays impossible)"""
    from ..state import prove

    z = z3.simplify(C.as_bool(cond))
    if z3.is_false(z):
        return False
    v, *_ = prove(E.st.pc, [], z3.Not(z), timeout_ms=2000, quick=True)
    if v == "unsat":
        return False
    return E.may(cond)


def _list_index(E, idx, d):
    if isinstance(idx, bool):
        idx = int(idx)
    if isinstance(idx, Tensor) and idx.ndim == 0:
        idx = idx.at()
    if isinstance(idx, Fraction) or (isinstance(idx, Sym) and idx.z.sort() != INT):
        raise PyRaise("TypeError", "list indices must be integers or slices")
    if not isinstance(idx, (int, Sym)):
        raise Unsupported(f"nested-list index {type(idx).__name__}")
    if isinstance(idx, int) and isinstance(d, int):
        if not (-d <= idx < d):
            raise PyRaise("IndexError", "list index out of range")
        return idx % d
    iz, dz = C.as_int(idx), T.dim_z(d)
    inb = z3.And(iz >= -dz, iz < dz)
    if _may(E, z3.Not(inb)):
        if not E.st.branch(inb):
            raise PyRaise("IndexError", "list index out of range")
    if _may(E, iz < 0):
        return C.mk(z3.If(iz < 0, iz + dz, iz))
    return idx


def _tab_getitem(E, v, idx):
    v = _as_view(v)
    if not isinstance(v, PyTableView):
        return NotImplemented
    root = v.root
    k = len(v.prefix)
    if isinstance(idx, (slice, tuple)):
        raise Unsupported("nested-list slice / tuple index")
    i = _list_index(E, idx, root.shape[k])
    pre = v.prefix + (i,)
    if len(pre) < len(root.shape):
        return PyTableView(root, pre)
    if root.kind == "num":
        return root.t.at(*pre)
    cell = PyListCell(root, pre)
    E.assume(C.compare(">=", cell.length(), 0))  # len(list) >= 0
    return cell


def _tab_setitem(E, v, idx, value):
    v = _as_view(v)
    if not isinstance(v, PyTableView):
        return NotImplemented
    root = v.root
    if root.kind != "num" or len(v.prefix) != len(root.shape) - 1:
        raise Unsupported("assignment of a whole sub-list of a nested list")
    i = _list_index(E, idx, root.shape[-1])
    if isinstance(value, Tensor):
        if value.ndim:
            raise Unsupported("array stored in a nested-list cell")
        value = value.at()
    E.log_write(f"pytable@{root.name}", "*")
    root.t = T.at_set(root.t, v.prefix + (i,), value, "set")
    return True


LIB.getitem_handlers.insert(0, _tab_getitem)
LIB.setitem_handlers.insert(0, _tab_setitem)


def _tab_attr(E, v, name):
    if isinstance(v, PyListCell):
        if name == "append":
            def f(E, x):
                root = v.root
                if isinstance(x, Tensor):
                    x = x.item()
                E.log_write(f"pytable@{root.name}", "*")
                root.ln = T.at_set(root.ln, v.idx, 1, "add")
                root.sm = T.at_set(root.sm, v.idx, x, "add")
            return Builtin("list.append", f)
        raise Unsupported(f"list.{name} on an abstracted float list")
    return NotImplemented


LIB.value_attr_handlers.insert(0, _tab_attr)


def _tab_len(E, v):
    if isinstance(v, PyListCell):
        return v.length()
    v = _as_view(v)
    if isinstance(v, PyTableView):
        return v.root.shape[len(v.prefix)]
    return NotImplemented


LIB.len_handlers.insert(0, _tab_len)


def row_sum(view):
    v = _as_view(view)
    root = v.root
    if root.kind != "num" or len(v.prefix) != len(root.shape) - 1:
        raise PyRaise("TypeError", "unsupported operand type(s) for +: 'int' and 'list'")
    return T.reduce(T.index(root.t, tuple(v.prefix)), "sum")


_old_sum = LIB.builtins["sum"]


@LIB.builtin("sum")
def b_sum(E, it, start=0):
    if isinstance(it, (PyTable, PyTableView)):
        r = row_sum(it)
        return r if (isinstance(start, int) and start == 0) else C.binop("+", start, r)
    if isinstance(it, PyListCell):
        r = it.total()
        return r if (isinstance(start, int) and start == 0) else C.binop("+", start, r)
    return _old_sum.fn(E, it, start)


def _wrap_mean(path):
    old = LIB.funcs.get(path)

    @LIB.fn(path, doc="mean(list) = sum(list)/len(list); nan (RuntimeWarning) on an empty list")
    def mean(E, a, *rest, **kw):
        if isinstance(a, PyListCell):
            n = a.length()
            if _may(E, C.compare("==", n, 0)):
                if E.st.branch(C.as_bool(C.compare("==", n, 0))):
                    raise Unsupported("np.mean of an empty list (nan)")
            return C.binop("/", a.total(), n)
        if isinstance(a, (PyTable, PyTableView)):
            raise Unsupported("np.mean of a nested list")
        if old is None:
            raise Unsupported(path)
        return old.fn(E, a, *rest, **kw)


_wrap_mean("numpy.mean")


def sum_point_update_lemmas(E, before, after, row, j, delta):
    """Finite-sum lemmas for the two 0-parameter Sum nodes
        s0 = sum_k before[row, k],  s1 = sum_k after[row, k]
    when `after` is `before` with delta added at [row, j] (0 <= j < dim) and all
    entries of `before` are >= 0:   s1 == s0 + delta,  s0 >= before[row, j] >= 0.
    (Mathlib: Finset.sum_update_of_mem, Finset.single_le_sum.)  Returns (s0, s1)."""
    s0 = T.reduce(T.index(before, tuple(row)), "sum")
    s1 = T.reduce(T.index(after, tuple(row)), "sum")
    E.assume(C.compare("==", s1, C.binop("+", s0, delta)))
    E.assume(C.compare(">=", s0, before.at(*(tuple(row) + (j,)))))
    return s0, s1


# ------------------------------------------------------------------ fori_loop
FORI_UNROLL_MAX = 16


@LIB.fn("jax.lax.fori_loop", doc="val = init; for i in range(lower, upper): val = body(i, val); return val")
def fori_loop(E, lower, upper, body_fun, init_val, **kw):
    specs = getattr(E.shared, "fori_specs", None) or {}
    q = getattr(body_fun, "qualname", None)
    if q in specs:
        return specs[q](E, lower, upper, body_fun, init_val)

    def conc(x):
        if isinstance(x, Sym):
            c = C.concrete_of(z3.simplify(x.z))
            return None if c is None else int(c)
        return x if isinstance(x, int) else None

    lo, hi = conc(lower), conc(upper)
    if lo is None or hi is None:
        raise Unsupported("jax.lax.fori_loop with a symbolic trip count and no sidecar invariant")
    if hi - lo > FORI_UNROLL_MAX:
        raise Unsupported("jax.lax.fori_loop trip count too large to unroll")
    val = init_val
    for i in range(lo, hi):
        val = E.call_value(body_fun, [i, val], {})
    return val


# ------------------------------------------------------ scripted environment
class ScriptedEnv:
    """Harness stand-in for a gymnasium.Env used to execute call sites of the
    training loops: `step(a)` returns the next scripted 5-tuple
    (observation, reward, terminated, truncated, info) - arbitrary symbolic
    values chosen by the harness, i.e. universally quantified - and records the
    action; `reset()` returns the next scripted (observation, info)."""

    def __init__(self, steps=(), resets=()):
        self.steps = list(steps)
        self.resets = list(resets)
        self.actions = []
        self.n_resets = 0


def _env_attr(E, v, name):
    if not isinstance(v, ScriptedEnv):
        return NotImplemented
    if name == "step":
        def step(E, action):
            if not v.steps:
                raise Unsupported("ScriptedEnv: no scripted step left")
            v.actions.append(action)
            return tuple(v.steps.pop(0))
        return Builtin("ScriptedEnv.step", step)
    if name == "reset":
        def reset(E, **kw):
            if not v.resets:
                raise Unsupported("ScriptedEnv: no scripted reset left")
            v.n_resets += 1
            return tuple(v.resets.pop(0))
        return Builtin("ScriptedEnv.reset", reset)
    raise Unsupported(f"ScriptedEnv.{name}")


LIB.value_attr_handlers.insert(0, _env_attr)


# ------------------------------------------ nested list -> array conversion
def view_tensor(v):
    """np/jnp.asarray(nested list of numbers) = the array with the same entries"""
    v = _as_view(v)
    if v.root.kind != "num":
        raise Unsupported("array from a nested list of lists-of-floats (ragged)")
    return T.index(v.root.t, tuple(v.prefix)) if v.prefix else v.root.t


def _wrap_asarray(path):
    old = LIB.funcs.get(path)
    if old is None:
        return

    @LIB.fn(path, doc="asarray(nested list) = array with the same entries (value-preserving conversion)")
    def asarray(E, a, *rest, **kw):
        if isinstance(a, (PyTable, PyTableView)):
            a = view_tensor(a)
        return old.fn(E, a, *rest, **kw)


for _p in ("jax.numpy.asarray", "jax.numpy.array", "numpy.asarray", "numpy.array"):
    _wrap_asarray(_p)
