"""Library models used by the multi-task schedulers and task selectors (C11).

Every entry is an ASSUMED contract (trusted base), with the documentation
clause it transcribes.

* gymnasium.wrappers.RecordEpisodeStatistics(env, buffer_length, stats_key)
  "This wrapper will keep track of cumulative rewards and episode lengths. ...
   the most recent rewards and episode lengths are stored in buffers that can be
   accessed via wrapped_env.return_queue and wrapped_env.length_queue.
   return_queue: The cumulative rewards of the last deque_size-many episodes;
   length_queue: The lengths of the last deque_size-many episodes".
  Model: a heap object with ghost fields
      $e     number of episodes completed through THIS wrapper (starts at 0)
      $c     number of environment steps that belong to those completed episodes
      $qsum  sum of the lengths currently in length_queue
      $bl    buffer_length
  `len(return_queue) == len(length_queue) == min($e, $bl)`;
  `sum(length_queue) == $qsum`, where `$qsum == $c` as long as `$e <= $bl`
  (nothing was evicted yet) and otherwise `$bl <= $qsum <= $c - ($e - $bl)`
  (every episode has at least one step).  `np.mean(return_queue)` is an
  unconstrained real (nan - modelled as "any real" - when the queue is empty).
  The fields are advanced by whoever steps the environment: here the contract
  stub of the single-task training routine (contracts/C11_sched.py, `record_episodes`).

* collections.deque (model in ext_loops: window over an append-only log): added here
  `d.extend(return_queue)` = len(queue) further appends of unconstrained values, and
  `np.mean(d)` / `np.mean(return_queue)` = an unconstrained real.

* `[elt for s in range(lo, hi) if cond]` over a symbolic range, consumed by `np.sum`:
  the sum of the filtered list is  sum_{s in [lo, hi)} (elt(s) if cond(s) else 0), a `Fold`
  (sum DEFINED by its recurrence F(lo) = 0, F(j+1) = F(j) + term(j)); `fold_equal` proves two
  folds equal by the induction schema of ext_returns (base / step obliged).

* `l[:-1]` on a python list of symbolic length: the list without its last element.

* numpy: `np.zeros(n, dtype)` / `np.full(n, v)` as MUTABLE rank-1 arrays when the
  contract sets `shared.sched_mutable_arrays` (in-place `a[i] += x`, `a[:] = v`),
  `a[[i0, i1, ..]]` (integer-list indexing: the selected entries in list order),
  `np.finfo(float).max` (the largest finite double: a positive symbolic constant),
  `Generator.choice(n, size=K, replace=False)` (K pairwise different ints from
  range(n); every such selection is explored; ValueError when K > n).

* python `set.add / remove / discard / __contains__` with a symbolic int element
  that is known to be one of finitely many candidates (`shared.sched_id_range`):
  the element is made concrete by case analysis (exact).
"""
from __future__ import annotations

import itertools
from fractions import Fraction

import z3

from .. import core as C
from .. import tensor as T
from ..core import BOOL, INT, REAL, Anything, Builtin, NDArr, Obj, Opaque, PathEnd, PyRaise, Sym, Unsupported
from . import LIB
from . import builtins_model, np_model, jax_model, gym_model, ext_tabular, ext_symlist, ext_returns  # noqa: F401  (wrapped below: load first)
from .np_model import new_ndarr, to_sort

RES = "gymnasium.wrappers.RecordEpisodeStatistics"
QUEUE = "pyvc.EpisodeQueue"
DEQUE = "pyvc.ReturnDeque"
LIB.class_bases["gymnasium.Wrapper"] = ["gymnasium.Env"]


# ------------------------------------------------------------ RecordEpisodeStatistics
@LIB.fn(RES, doc="RecordEpisodeStatistics(env, buffer_length): return_queue / length_queue hold the returns / lengths of the last buffer_length completed episodes")
def res_new(E, env, buffer_length=100, stats_key="episode"):
    node, fr = E.cur_call if E.cur_call else (None, None)
    o = Obj(RES, {"env": env, "$e": 0, "$c": 0, "$qsum": 0, "$bl": buffer_length, "_stats_key": stats_key},
            name=E.alloc_name(fr, node, ":RecordEpisodeStatistics"))
    E.register(o)
    for kind in ("return", "length"):
        q = Obj(QUEUE, {"$of": o, "$kind": kind}, name=f"{o.name}.{kind}_queue")
        o.fields[f"{kind}_queue"] = q
    return o


def record_episodes(E, res, e, c):
    """ghost transition of the wrapper when `e` further episodes with `c` steps
    in total complete through it (e >= 0, c >= e; e == 0 => c == 0)"""
    f = res.fields
    e0, c0, bl = f["$e"], f["$c"], f["$bl"]
    e1, c1 = C.binop("+", e0, e), C.binop("+", c0, c)
    fits = C.compare("<=", e1, bl)
    q = E.st.fresh_sym("length_queue_sum", INT)
    # nothing evicted: the queue holds every completed episode; otherwise the last $bl of them
    E.assume(C.ite(fits, C.compare("==", q, c1),
                   C.band(C.compare(">=", q, bl), C.compare("<=", q, C.binop("-", c1, C.binop("-", e1, bl))))))
    for k, v in (("$e", e1), ("$c", c1), ("$qsum", q)):
        E.setfield(res, k, v)


@LIB.cls(RES, bases=("gymnasium.Wrapper",))
def _res_attr(E, obj, name):
    if name in ("unwrapped",):
        return E.getattr(obj.fields["env"], "unwrapped")
    if name in ("action_space", "observation_space", "spec"):
        return E.getattr(obj.fields["env"], name)
    if name in ("reset", "step", "close"):
        raise Unsupported("stepping a RecordEpisodeStatistics wrapper inside the scheduler (only the single-task routine steps it)")
    return NotImplemented


def queue_len(q):
    f = q.fields["$of"].fields
    return C.smin(f["$e"], f["$bl"])


def _queue_len_hook(E, v):
    if isinstance(v, Obj) and v.cls == QUEUE:
        return queue_len(v)
    if _XL is None and isinstance(v, Obj) and v.cls == DEQUE:
        return v.fields["$n"]
    return NotImplemented


LIB.len_handlers.insert(0, _queue_len_hook)


@LIB.cls(QUEUE)
def _queue_attr(E, obj, name):
    return NotImplemented


_prev_sum = LIB.builtins["sum"]


@LIB.builtin("sum")
def b_sum(E, it, start=0):
    if isinstance(it, Obj) and it.cls == QUEUE:
        if it.fields["$kind"] != "length":
            return C.binop("+", start, E.st.fresh_sym("sum_of_returns", REAL))
        r = it.fields["$of"].fields["$qsum"]
        return r if (isinstance(start, int) and start == 0) else C.binop("+", start, r)
    return _prev_sum.fn(E, it, start)


def _wrap_mean(path):
    old = LIB.funcs.get(path)

    def mean(E, a=None, *rest, **kw):
        if isinstance(a, Obj) and a.cls in (QUEUE, DEQUE):
            LIB.used.add(path + "(queue of episode returns): unconstrained real")
            return E.st.fresh_sym("mean_return", REAL)
        if old is None:
            raise Unsupported(path)
        return old.fn(E, a, *rest, **kw)

    LIB.funcs[path] = Builtin(path, mean)


_wrap_mean("numpy.mean")


# ------------------------------------------------------------ collections.deque (windows of episode returns)
# The deque model itself lives in ext_loops (window over an append-only log: append / len / index).
# Added here: `d.extend(return_queue)` (m = len(queue) further appends of unconstrained values) and
# `np.mean(d)` (an unconstrained real).
try:
    from . import ext_loops as _XL
    DEQUE = _XL.DEQUE
except ImportError:  # pragma: no cover
    _XL = None


def _deque_extend(E, d, xs):
    m = LIB.builtins["len"].fn(E, xs)
    if _XL is not None:
        E.setfield(d, "$g", C.binop("+", d.fields["$g"], m))
        E.setfield(d, "$col", E.st.fresh_sym("deque.col", d.fields["$col"].z.sort()))
    else:
        tot = C.binop("+", d.fields["$n"], m)
        mx = d.fields["$maxlen"]
        E.setfield(d, "$n", tot if mx is None else C.smin(tot, mx))


if _XL is not None:
    _prev_deque_attr = LIB.class_handlers[DEQUE]

    def _deque_attr(E, d, name):
        if name == "extend":
            LIB.used.add("collections.deque.extend(queue of episode returns)")
            return Builtin("deque.extend", lambda E, xs: _deque_extend(E, d, xs))
        return _prev_deque_attr(E, d, name)

    LIB.class_handlers[DEQUE] = _deque_attr
else:  # pragma: no cover
    def _deque(E, it=(), maxlen=None):
        node, fr = E.cur_call if E.cur_call else (None, None)
        o = Obj(DEQUE, {"$n": 0, "$maxlen": maxlen}, name=E.alloc_name(fr, node, ":deque"))
        E.register(o)
        return o

    LIB.funcs["collections.deque"] = Builtin("collections.deque", _deque)

    @LIB.cls(DEQUE)
    def _deque_attr(E, obj, name):
        if name == "extend":
            return Builtin("deque.extend", lambda E, xs: _deque_extend(E, obj, xs))
        if name == "maxlen":
            return obj.fields["$maxlen"]
        return NotImplemented


# ------------------------------------------------------------ numpy: mutable per-task arrays
def _mutable(E):
    return bool(E.shared.__dict__.get("sched_mutable_arrays"))


def _wrap_zeros():
    old = LIB.funcs["numpy.zeros"]

    def zeros(E, shape, dtype=None, **kw):
        if _mutable(E) and isinstance(shape, (int, Sym)) and not isinstance(shape, bool):
            LIB.used.add("numpy.zeros")
            tag = np_model.dtype_tag(dtype)
            sort = INT if tag in ("int", "int32", "int64", "bool") else REAL
            zero = z3.IntVal(0) if sort == INT else z3.RealVal(0)
            return new_ndarr(E, shape, sort, data=z3.K(INT, zero), dtype=tag, tag="zeros")
        return old.fn(E, shape, dtype, **kw)

    LIB.funcs["numpy.zeros"] = Builtin("numpy.zeros", zeros)


def _wrap_full():
    old = LIB.funcs["numpy.full"]

    def full(E, shape, v, dtype=None, **kw):
        if _mutable(E) and isinstance(shape, (int, Sym)) and not isinstance(shape, bool) and isinstance(v, (int, Fraction, Sym)):
            LIB.used.add("numpy.full")
            vz = C.to_z3(v)
            sort = INT if vz.sort() == INT and dtype is not None and np_model.dtype_tag(dtype).startswith("int") else REAL
            return new_ndarr(E, shape, sort, data=z3.K(INT, to_sort(v, sort)), dtype="float" if sort == REAL else "int", tag="full")
        return old.fn(E, shape, v, dtype, **kw)

    LIB.funcs["numpy.full"] = Builtin("numpy.full", full)


_wrap_zeros()
_wrap_full()

FLOAT_MAX = z3.Real("float_max")


@LIB.fn("numpy.finfo", doc="np.finfo(float).max: the largest representable finite double (a positive constant)")
def np_finfo(E, dtype=None):
    o = Obj("numpy.finfo", {"max": Sym(FLOAT_MAX), "min": Sym(-FLOAT_MAX)}, name=E.alloc_name(None, None, ":finfo"))
    E.register(o)
    E.assume(FLOAT_MAX > 0)
    return o


@LIB.cls("numpy.finfo")
def _finfo_attr(E, obj, name):
    return NotImplemented


def _setitem(E, v, idx, value):
    """a[:] = scalar  (every slot takes the value)"""
    if isinstance(v, NDArr) and isinstance(idx, slice) and idx.start is None and idx.stop is None and idx.step is None \
            and isinstance(value, (int, Fraction, Sym)) and v.elem_sort in (INT, REAL):
        E.log_write(v.name, "data")
        v.data = z3.K(INT, to_sort(value, v.elem_sort))
        return True
    return NotImplemented


def _getitem(E, v, idx):
    """a[[i0, i1, ...]] (list of integers): the selected entries, in list order"""
    if isinstance(v, NDArr) and isinstance(idx, list) and idx and all(isinstance(i, (int, Sym)) and not isinstance(i, bool) for i in idx):
        vals = [E.getitem(v, i) for i in idx]
        return T.from_list(vals)
    return NotImplemented


LIB.setitem_handlers.insert(0, _setitem)
LIB.getitem_handlers.insert(0, _getitem)


# ------------------------------------------------------------ finite nondeterministic choice
def choose(E, n, name="choice"):
    """python-level nondeterministic choice of k in range(n): every k is explored on its own
    path.  Nothing is assumed (the choice is free), so no solver call is needed to fork."""
    st = E.st
    k = 0
    while k < n - 1:
        if st.pos < len(st.decisions):
            d = st.decisions[st.pos]
        else:
            st.forks.append(st.decisions[: st.pos] + [False])
            st.decisions = st.decisions[: st.pos] + [True]
            d = True
        st.pos += 1
        if d:
            break
        k += 1
    if n <= 0:
        raise PathEnd("empty choice")
    st.assume(st.fresh_sym(name, INT, is_input=True) == k)  # recorded for counter-models only
    return k


# ------------------------------------------------------------ Generator.choice without replacement
_prev_generator = LIB.class_handlers["numpy.random.Generator"]


def _generator(E, obj, name):
    if name == "choice":
        old = _prev_generator(E, obj, name)

        def choice(E, a, size=None, replace=True, **kw):
            if isinstance(a, int) and not isinstance(a, bool) and isinstance(size, int) and replace is False:
                LIB.used.add("numpy.random.Generator.choice(n, size=K, replace=False): K pairwise different elements of range(n)")
                if size > a:
                    raise PyRaise("ValueError", "Cannot take a larger sample than population when replace is False")
                combos = list(itertools.combinations(range(a), size))
                return list(combos[choose(E, len(combos), "choice_subset")])
            return old.fn(E, a, size=size, **kw)
        return Builtin("Generator.choice", choice)
    return _prev_generator(E, obj, name)


LIB.class_handlers["numpy.random.Generator"] = _generator


# ------------------------------------------------------------ sets of task ids with a symbolic element
def concretize_id(E, x):
    """x: symbolic int known to range over shared.sched_id_range -> python int (case split, exact)"""
    if not isinstance(x, Sym):
        return x
    c = C.concrete_of(z3.simplify(x.z))
    if c is not None:
        return int(c)
    n = E.shared.__dict__.get("sched_id_range")
    if n is None or x.z.sort() != INT:
        raise Unsupported("symbolic element in a python set")
    for k in range(n):
        if E.st.branch(C.as_bool(C.compare("==", x, k))):
            return k
    raise Unsupported("set element outside the declared id range")


def _set_attr(E, v, name):
    if not isinstance(v, set) or name not in ("add", "remove", "discard"):
        return NotImplemented

    def f(E, x):
        x = concretize_id(E, x)
        E.log_write(f"set@{id(v)}", "*")
        if name == "add":
            v.add(x)
        elif name == "discard":
            v.discard(x)
        else:
            if x not in v:
                raise PyRaise("KeyError", repr(x))
            v.remove(x)
    return Builtin(f"set.{name}", f)


LIB.value_attr_handlers.insert(0, _set_attr)


# ------------------------------------------------------------ sums over a symbolic window, defined by recurrence
class Fold:
    """F(p.., j) = sum_{s in [lo, j)} term(p.., s)  for lo <= j <= max(lo, hi), DEFINED by its recurrence
        F(p.., lo) = 0,    forall lo <= j < hi:  F(p.., j + 1) = F(p.., j) + term(p.., j)
    (Finset.sum_range_succ).  Nothing else is assumed about F: equalities between two folds
    are proved with the induction schema `ext_returns.induct` (see `fold_equal`)."""

    def __init__(self, E, name, lo, hi, term, nparams=0, sort=REAL):
        self.name = name
        self.lo, self.hi = C.as_int(lo), C.as_int(hi)
        self.term = term
        self.nparams = nparams
        self.F = z3.Function(E.st.fresh_name(name), *([INT] * (nparams + 1) + [sort]))
        lo_z, hi_z, F = self.lo, self.hi, self.F
        zero = z3.RealVal(0) if sort == REAL else z3.IntVal(0)
        if nparams:
            E.st.assume_forall([INT] * nparams, lambda *p: F(*p, lo_z) == zero, f"{name}.base")
        else:
            E.st.assume(F(lo_z) == zero)
        E.st.assume_forall([INT] * (nparams + 1),
                           lambda *a: z3.Implies(z3.And(lo_z <= a[-1], a[-1] < hi_z), F(*a[:-1], a[-1] + 1) == F(*a) + C.to_z3(term(*a))),
                           f"{name}.step")
        E.st.ghost.setdefault("folds", []).append(self)

    def upto(self, *a):
        return Sym(self.F(*[C.to_z3(x) for x in a]))

    def end(self):
        return z3.If(self.hi >= self.lo, self.hi, self.lo)

    def value(self, *p):
        return Sym(self.F(*[C.to_z3(x) for x in p], self.end()))


def fold_equal(E, name, A: Fold, B: Fold, params=()):
    """A == B (for the given parameter terms) from: equal windows (obliged) and - by induction over the
    window, base and step obliged - equal partial sums.  Returns True when everything was proved
    (only then `A.value == B.value` is available as a hypothesis)."""
    from .ext_returns import induct

    n0 = len(E.st.results)
    pz = [C.to_z3(x) for x in params]
    # quantifier-free side conditions first (crisp counter-models): same window, pointwise equal summands
    E.st.oblige(f"{name}.same_window", z3.And(A.lo == B.lo, A.hi == B.hi), using=[])
    E.st.oblige_forall(f"{name}.same_summand_at_every_position", [INT],
                       lambda s: z3.Implies(z3.And(A.lo <= s, s < A.hi), C.to_z3(A.term(*pz, s)) == C.to_z3(B.term(*pz, s))), hint="s", using=[])
    width = z3.If(A.hi >= A.lo, A.hi - A.lo, z3.IntVal(0))
    ok = induct(E, f"{name}.partial_sums_agree", width, [], lambda j: A.F(*pz, A.lo + j) == B.F(*pz, A.lo + j))
    if ok:
        # the instance j = width of the conclusion (lo + width == end of the window)
        E.st.oblige(f"{name}.sums_agree", A.F(*pz, A.end()) == B.F(*pz, B.end()), extra_pool=[width], using=[f"{name}.partial_sums_agree"])
    return ok and all(r.verdict == "discharged" for r in E.st.results[n0:])


class FilteredComp:
    """`[elt for s in range(lo, hi) if cond]` over a symbolic NON-EMPTY range: cond / value are the
    filter and the element at the generic position `ivar`.  Only np.sum consumes it:
    sum of the filtered list == sum_{s in [lo, hi)} (value(s) if cond(s) else 0)."""

    def __init__(self, lo, hi, ivar, cond, value):
        self.lo, self.hi, self.ivar, self.cond, self.value = lo, hi, ivar, cond, value

    def term(self, s):
        sz = C.to_z3(s)
        body = z3.If(C.as_bool(self.cond), C.as_real(self.value), z3.RealVal(0))
        return Sym(z3.substitute(body, (self.ivar, sz)))


def _filtered_comp(E, node, gen, fr, lo, hi, iv):
    from ..interp import Frame

    if not E.st.branch(C.as_bool(C.compare("<", lo, hi))):
        return []
    # a generic position of the (non-empty) range
    E.st.assume(z3.And(C.as_int(lo) <= iv, iv < C.as_int(hi)))
    f = Frame(fr.qualname, fr.module, parent=fr)
    f.vars[gen.target.id] = Sym(iv)
    n_forks = len(E.st.forks)
    cond = True
    for c in gen.ifs:
        v = E.eval(c, f)
        if not isinstance(v, (bool, Sym)):
            raise Unsupported("filter of a comprehension over a symbolic range is not a boolean")
        cond = v if cond is True else C.band(cond, v)
    value = E.eval(node.elt, f)
    if not isinstance(value, (int, Fraction, Sym)) or isinstance(value, bool):
        raise Unsupported("element of a filtered comprehension over a symbolic range is not a number")
    LIB.used.add("list comprehension with filter over a symbolic range (consumed by numpy.sum as a fold)")
    return FilteredComp(lo, hi, iv, C.mk(C.as_bool(cond)) if not isinstance(cond, bool) else cond, value)


LIB.filtered_comp_hook = _filtered_comp


def _wrap_sum(path):
    old = LIB.funcs[path]

    def np_sum(E, a=None, *rest, **kw):
        if isinstance(a, FilteredComp):
            fold = Fold(E, "listsum", a.lo, a.hi, lambda s: a.term(s))
            fold.comp = a
            E.st.ghost["last_listsum"] = fold
            return fold.value()
        if isinstance(a, list) and not a:
            return Fraction(0)
        return old.fn(E, a, *rest, **kw)

    LIB.funcs[path] = Builtin(path, np_sum)


_wrap_sum("numpy.sum")


# ------------------------------------------------------------ l[:-1] on a list of symbolic length
def _symlist_drop_last(E, v, idx):
    """l[:-1]: the list without its last element (the empty list stays empty)  [list slicing]"""
    from .ext_symlist import SymList

    if isinstance(v, SymList) and isinstance(idx, slice) and idx.start is None and idx.step is None and isinstance(idx.stop, int) and idx.stop == -1:
        n = v.len_z()
        LIB.used.add("list[:-1] on a list of symbolic length")
        return SymList(z3.simplify(z3.If(n >= 1, n - 1, 0)), v.cols, v.sorts, v.is_tuple, v.name + "[:-1]")
    return NotImplemented


LIB.getitem_handlers.insert(0, _symlist_drop_last)
