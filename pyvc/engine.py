"""Path enumeration, tasks, result aggregation."""
from __future__ import annotations

import time
import traceback

import z3

from . import core as C
from . import tensor as T
from .core import PathEnd, PyRaise, Unsupported
from .interp import Executor, LoopSpec
from .lib import load_all
from .loader import Loader
from .state import STATS, ObligationResult, PathState, prove

MAX_PATHS = 20000


class Shared:
    def __init__(self, root=None):
        self.loader = Loader(root)
        self.lib = load_all()
        self.stubs = {}
        self.loop_specs = {}
        self.observers = []
        self.phase = "verify"
        self.writesets = {}
        self.houdini = {}
        self.houdini_dead = {}
        self.modcache = {}
        self.loops_seen = set()
        self.force_cut = set()
        self.entered_counts = {}
        self.lines_covered = set()
        self.concrete_dims = None
        self.deadline = None
        self.dim_scheme = "consecutive"
        self.used_dims = set()
        self.all_cands = {}

    def trace_enter(self, q):
        self.entered_counts[q] = self.entered_counts.get(q, 0) + 1

    def cover_line(self, fr, s):
        if fr.module is not None:
            self.lines_covered.add((fr.qualname, s.lineno))


class TaskResult:
    def __init__(self, name):
        self.name = name
        self.paths = 0
        self.obligations = {}  # name -> aggregated dict
        self.errors = []  # (kind, msg)
        self.raised = {}  # exc_type -> count of paths ending in an uncaught python exception
        self.functions = {}
        self.lib_used = set()
        self.seconds = 0.0
        self.covered = set()
        self.notes = []
        self.loops = []
        self.houdini_kept = {}

    def add(self, r: ObligationResult):
        a = self.obligations.get(r.name)
        rank = {"discharged": 0, "undecided": 1, "failed": 2}
        if a is None:
            self.obligations[r.name] = dict(
                name=r.name, verdict=r.verdict, backend=r.backend, seconds=r.seconds, vcs=1,
                detail=r.detail, model=r.model, smt2=r.smt2, path=r.path,
            )
            return
        a["vcs"] += 1
        a["seconds"] += r.seconds
        if rank[r.verdict] > rank[a["verdict"]]:
            a.update(verdict=r.verdict, backend=r.backend, detail=r.detail, model=r.model, smt2=r.smt2, path=r.path)
        elif r.backend not in a["backend"]:
            a["backend"] += "," + r.backend

    def to_json(self):
        obs = []
        for o in self.obligations.values():
            d = {k: o[k] for k in ("name", "verdict", "backend", "vcs")}
            d["seconds"] = round(o["seconds"], 4)
            if o["verdict"] != "discharged":
                d["detail"] = o.get("detail")
                d["model"] = o.get("model")
            obs.append(d)
        return dict(
            task=self.name, paths=self.paths, seconds=round(self.seconds, 3), obligations=obs,
            errors=self.errors, raised=self.raised, covered=sorted(self.covered), notes=self.notes,
            loops=[f"{a}#loop{b}" for a, b in self.loops], houdini_kept={f"{k[0]}#loop{k[1]}": sorted(v) for k, v in self.houdini_kept.items()},
        )


class NeedDiscovery(BaseException):
    """a cut loop was met in the verify phase before the discovery pass ran"""


def explore(shared: Shared, harness, result: TaskResult, allow_raise=None, both=False):
    """Enumerate all paths of `harness(E)`.  A path that ends in an uncaught
    Python exception is recorded under result.raised (whether that is
    acceptable is for the harness to state with E.expect_raise / contracts)."""
    work = [[]]
    npaths = 0
    while work:
        if getattr(shared, "deadline", None) and time.time() > shared.deadline:
            result.notes.append("exploration stopped at its time budget")
            break
        prefix = work.pop()
        npaths += 1
        if npaths > MAX_PATHS:
            result.errors.append(("engine", f"path budget exceeded ({MAX_PATHS})"))
            break
        st = PathState(prefix)
        st.mode_both = both
        T.CUR["st"] = st
        if shared.phase == "discover":
            st.suppress = 1
            st.write_log = shared.writesets
        E = Executor(shared, st)
        try:
            harness(E)
        except PathEnd:
            pass
        except PyRaise as e:
            if shared.phase != "discover":
                result.raised[e.exc_type] = result.raised.get(e.exc_type, 0) + 1
                if not (allow_raise and e.exc_type in allow_raise):
                    st.results.append(ObligationResult(
                        f"no_uncaught_exception[{e.exc_type}]", "failed", "engine", 0.0,
                        detail=f"path ends in uncaught {e.exc_type}: {e.msg}", model=st.model_dict(_model_of(st)),
                        path=list(st.decisions[: st.pos])))
        except Unsupported as e:
            if shared.phase != "discover":
                result.errors.append(("unsupported", str(e)))
        except z3.Z3Exception as e:
            if shared.phase != "discover":
                result.errors.append(("z3", str(e) + "\n" + traceback.format_exc()[-1500:]))
        except RecursionError:
            result.errors.append(("engine", "python recursion limit"))
        except Exception as e:  # engine bug: never a violation
            if shared.phase != "discover":
                result.errors.append(("crash", f"{type(e).__name__}: {e}\n" + traceback.format_exc()[-2500:]))
        if shared.phase != "discover":
            for r in st.results:
                result.add(r)
            result.covered |= st.covered
            result.notes.extend(st.notes)
        work.extend(st.forks)
    if shared.phase != "discover":
        result.paths += npaths
    return npaths


def _model_of(st):
    s = z3.Solver()
    s.set("timeout", 5000)
    for h in st.pc:
        s.add(h)
    if s.check() == z3.sat:
        return s.model()
    return None


def run_task(name, harness, root=None, setup=None, allow_raise=None, both=False, needs_discovery=None):
    """Run one verification task (one function contract / lemma).

    setup(shared): registers stubs, loop specs, observers.
    Two phases when loops are cut: 'discover' (write sets) then 'verify',
    with Houdini rounds around 'verify' when candidates are present."""
    t0 = time.time()
    shared = Shared(root)
    if setup:
        setup(shared)
    res = TaskResult(name)
    # phase A: discovery of loop write sets - run lazily, only once a cut loop is actually met
    # (the verify pass raises NeedDiscovery at the first cut loop when no discovery has been done)
    shared.discovered = False
    shared.phase = "verify"
    rounds = 0
    while True:
        rounds += 1
        shared.houdini_dead = {}
        res = TaskResult(name)
        shared.loader.entered = {}
        shared.lib.used = set()
        try:
            explore(shared, harness, res, allow_raise=allow_raise, both=both)
        except NeedDiscovery:
            shared.phase = "discover"
            explore(shared, harness, TaskResult(name))
            shared.discovered = True
            shared.phase = "verify"
            rounds -= 1
            continue
        import os as _os
        if _os.environ.get("PYVC_DEBUG"):
            print("houdini round", rounds, {k: sorted(v) for k, v in shared.houdini_dead.items()}, flush=True)
        if not shared.houdini_dead or rounds > 12:
            break
        # drop dead candidates and repeat
        for key, dead in shared.houdini_dead.items():
            alive = shared.houdini.get(key)
            if alive is None:
                alive = set(shared.all_cands.get(key, ()))
            shared.houdini[key] = set(alive) - dead
        # remember universe of candidates on the first round
    # counterexample confirmation on concrete sizes: reductions over symbolic
    # axes are uninterpreted, so a failed obligation may be an artefact of the
    # abstraction; re-run with small concrete dimensions (sums unrolled
    # exactly) and keep 'failed' only if it fails there too.
    cand = [o for o in res.obligations.values() if o["verdict"] in ("failed", "undecided") and not any(p.startswith("canary") for p in o["name"].split("."))]
    if cand and shared.used_dims:
        # several concrete size assignments: consecutive distinct sizes, and powers of two (so that
        # divisibility relations between sizes occur, e.g. "sample count is a multiple of the batch size")
        confirmed = {}
        passed_all = {o["name"]: True for o in cand}
        unroll0 = T.UNROLL_MAX
        T.UNROLL_MAX = 40  # concrete sizes: unroll every reduction exactly (quantifier-free queries)
        only_undecided = all(o["verdict"] == "undecided" for o in cand)
        t_conf = time.time()
        for scheme in ("consecutive", "powers"):
            if only_undecided and scheme == "powers":
                break  # undecided obligations get one (budgeted) concrete attempt; the native replay decides the rest
            shared.deadline = time.time() + (240 if only_undecided else 600)
            shared.concrete_dims = {}
            shared.dim_scheme = scheme
            shared.houdini_dead = {}
            res2 = TaskResult(name)
            try:
                explore(shared, harness, res2, allow_raise=allow_raise)
            except NeedDiscovery:
                shared.phase = "discover"
                explore(shared, harness, TaskResult(name))
                shared.discovered = True
                shared.phase = "verify"
                res2 = TaskResult(name)
                explore(shared, harness, res2, allow_raise=allow_raise)
            for o in cand:
                o2 = res2.obligations.get(o["name"])
                if o2 is not None and o2["verdict"] == "failed" and o["name"] not in confirmed:
                    confirmed[o["name"]] = (dict(shared.concrete_dims), o2)
                if o2 is None or o2["verdict"] != "discharged":
                    passed_all[o["name"]] = passed_all[o["name"]] and (o2 is None)
            if len(confirmed) == len(cand):
                break
        for o in cand:
            if o["name"] in confirmed:
                dims, o2 = confirmed[o["name"]]
                o["verdict"] = "failed"
                o["backend"] = o2.get("backend", o["backend"])
                o["detail"] = "[confirmed on concrete sizes %s] %s" % (dims, o2.get("detail"))
                o["model"] = dict(o2.get("model") or {}, **{f"dim:{k}": v for k, v in dims.items()})
                o["smt2"] = o2.get("smt2")
                o["path"] = o2.get("path")
            elif o["verdict"] == "failed":
                o["verdict"] = "undecided"
                o["detail"] = "[not confirmed on concrete sizes: symbolic-sum abstraction too weak] %s" % (o.get("detail"),)
        shared.concrete_dims = None
        shared.deadline = None
        T.UNROLL_MAX = unroll0
    res.functions = dict(shared.loader.entered)
    res.lib_used = set(shared.lib.used)
    res.loops = sorted(shared.loops_seen)
    res.houdini_kept = {k: v for k, v in shared.houdini.items() if v is not None}
    res.seconds = time.time() - t0
    res.rounds = rounds
    return res
