"""Effect clause `no_uninitialised_read` for C09 (results must not depend on heap leftovers).

`np.empty` / `jnp.empty` / `np.empty_like` hand out storage with ARBITRARY contents
(NumPy: whatever the allocator recycles).  A value computed from a never-written
cell is a function of the process's allocation history, not of (seed, initial
state, environment).  Contract carried by every array allocated that way and held
directly in a local or in an instance attribute:

  (U1) the array is consumed only THROUGH A SUBSCRIPT (`A[i]`, `A[:n]`, `A[idx]`,
       `A.at[i]...`) - the index / slice is where the code states which cells it
       reads, and the buffer contracts of C02 / C08 oblige those to be written
       cells - or through metadata (`.shape .dtype .size .ndim .nbytes`, `len(A)`),
       `A.fill(v)` (initialises), or by being re-bound;
  (U1') handing the array whole to a module-level function OF THE PACKAGE is allowed iff that function itself consumes the
       parameter only as in (U1) (checked on the callee's body, depth <= 3) - the contract travels with the array;
  (U2) every other occurrence (a whole-array reduction `A.max()`, `np.sum(A)`,
       arithmetic on `A`, passing / returning `A` whole) is a violation.

Scope of a tracked array:
  * local  `x = np.empty(...)`                : every use of `x` in that function;
  * attribute `self.a = np.empty(...)` in class C : every `self.a` in C and in the
    classes of the package that derive from C, and every `self.f.a` in a class
    that assigns `self.f = C(...)`.
Zero-size allocations (`np.empty(0, ...)`) have no cells and are not tracked.
Arrays stored inside containers (`self.buffer[k] = np.empty(...)`, the replay
buffers' field dictionary) are NOT tracked here: C02's well-formedness obligations
cover them.

One obligation per tracked array (ok / failed with file:line of the first
whole-array use), so the count is never zero on a tree that has such storage.
"""
import ast
import os

EMPTY_FNS = {"empty", "empty_like"}
META = {"shape", "dtype", "size", "ndim", "nbytes", "itemsize", "at", "fill"}


def _is_empty_alloc(v):
    if not isinstance(v, ast.Call):
        return False
    f = v.func
    name = f.attr if isinstance(f, ast.Attribute) else (f.id if isinstance(f, ast.Name) else "")
    if name not in EMPTY_FNS:
        return False
    if isinstance(f, ast.Attribute):
        root = f.value
        while isinstance(root, ast.Attribute):
            root = root.value
        if not (isinstance(root, ast.Name) and root.id in {"np", "numpy", "jnp", "jax", "onp"}):
            return False
    if name == "empty" and v.args and isinstance(v.args[0], ast.Constant) and v.args[0].value == 0:
        return False
    return True


def _parents(tree):
    par = {}
    for n in ast.walk(tree):
        for c in ast.iter_child_nodes(n):
            par[c] = n
    return par


FUNCS = {}  # name -> (FunctionDef, parent map) for every module-level function of the package (filled by analyse_sources)


def _param_ok(fn, fpar, pname, depth):
    """the callee consumes parameter `pname` only through allowed uses (it is never re-bound before)"""
    for n in ast.walk(fn):
        if isinstance(n, ast.Name) and n.id == pname:
            if isinstance(n.ctx, ast.Store):
                return False
            if isinstance(n.ctx, ast.Load) and not _use_ok(n, fpar, depth + 1):
                return False
    return True


def _use_ok(node, par, depth=0):
    """is this Load occurrence of a tracked array an allowed (indexed / metadata) use?"""
    p = par.get(node)
    if isinstance(p, ast.keyword):
        kw, p = p, par.get(p)
    else:
        kw = None
    if isinstance(p, ast.Call) and isinstance(p.func, ast.Name) and p.func.id in FUNCS and depth < 3:
        # handed whole to a function of the package: allowed iff that function only indexes the parameter (its contract U1)
        fn, fpar = FUNCS[p.func.id]
        params = [a.arg for a in fn.args.posonlyargs + fn.args.args]
        pname = None
        if kw is not None:
            pname = kw.arg if kw.arg in params + [a.arg for a in fn.args.kwonlyargs] else None
        elif node in p.args and not any(isinstance(a, ast.Starred) for a in p.args):
            i = p.args.index(node)
            pname = params[i] if i < len(params) else None
        if pname is not None and _param_ok(fn, fpar, pname, depth):
            return True
    if isinstance(p, ast.Subscript) and p.value is node:
        return True
    if isinstance(p, ast.Attribute) and p.value is node and p.attr in META:
        return True
    if isinstance(p, ast.Call) and isinstance(p.func, ast.Name) and p.func.id == "len" and node in p.args:
        return True
    return False


def _self_attr(n, attr=None):
    return (isinstance(n, ast.Attribute) and isinstance(n.value, ast.Name) and n.value.id == "self"
            and (attr is None or n.attr == attr))


def _describe(node, par, rel):
    p = par.get(node)
    what = type(p).__name__
    if isinstance(p, ast.Attribute):
        what = f"whole-array method/attribute `.{p.attr}`"
    elif isinstance(p, ast.Call):
        f = p.func
        what = f"passed whole to `{ast.unparse(f)}(...)`"
    elif isinstance(p, ast.Return):
        what = "returned whole"
    elif isinstance(p, (ast.BinOp, ast.Compare, ast.UnaryOp)):
        what = "arithmetic / comparison on the whole array"
    return f"{rel}:{node.lineno}: {what}"


def analyse_sources(sources):
    """sources: {relpath: text} -> list of dict(module, owner, name, line, verdict, detail)"""
    trees = {}
    for rel, src in sources.items():
        try:
            trees[rel] = ast.parse(src)
        except SyntaxError:
            continue
    FUNCS.clear()
    for rel, t in trees.items():
        fpar = None
        for n in t.body:
            if isinstance(n, ast.FunctionDef):
                fpar = fpar or _parents(t)
                FUNCS.setdefault(n.name, (n, fpar))
    classes = {}  # name -> (rel, ClassDef)
    for rel, t in trees.items():
        for c in ast.walk(t):
            if isinstance(c, ast.ClassDef):
                classes.setdefault(c.name, (rel, c))

    def bases(c):
        out = []
        for b in c.bases:
            n = b.id if isinstance(b, ast.Name) else (b.attr if isinstance(b, ast.Attribute) else None)
            if n:
                out.append(n)
        return out

    def derives(cname, target, seen=()):
        if cname == target:
            return True
        if cname in seen or cname not in classes:
            return False
        return any(derives(b, target, seen + (cname,)) for b in bases(classes[cname][1]))

    out = []
    for rel, t in trees.items():
        mod = rel[:-3].replace(os.sep, ".")
        par = _parents(t)
        # --- locals
        for fn in [n for n in ast.walk(t) if isinstance(n, (ast.FunctionDef, ast.AsyncFunctionDef))]:
            tracked = {}
            for s in ast.walk(fn):
                if isinstance(s, ast.Assign) and _is_empty_alloc(s.value):
                    for tg in s.targets:
                        if isinstance(tg, ast.Name):
                            tracked.setdefault(tg.id, s.lineno)
            for name, line in tracked.items():
                bad = [n for n in ast.walk(fn) if isinstance(n, ast.Name) and n.id == name and isinstance(n.ctx, ast.Load)
                       and not _use_ok(n, par)]
                rec = dict(module=mod, owner=fn.name, name=name, line=line, rel=rel)
                if bad:
                    rec.update(verdict="failed", detail=f"{rel}:{line}: `{name}` is allocated with arbitrary contents (empty) and "
                               f"consumed without an index at {_describe(bad[0], par, rel)}")
                else:
                    rec.update(verdict="ok", detail=f"{rel}:{line}: every use of `{name}` is indexed / metadata")
                out.append(rec)
        # --- instance attributes
        for c in [n for n in ast.walk(t) if isinstance(n, ast.ClassDef)]:
            tracked = {}
            for s in ast.walk(c):
                if isinstance(s, ast.Assign) and _is_empty_alloc(s.value):
                    for tg in s.targets:
                        if _self_attr(tg):
                            tracked.setdefault(tg.attr, s.lineno)
            for attr, line in tracked.items():
                bad = []
                for rel2, t2 in trees.items():
                    par2 = par if rel2 == rel else _parents(t2)
                    for c2 in [n for n in ast.walk(t2) if isinstance(n, ast.ClassDef)]:
                        if derives(c2.name, c.name):
                            for n in ast.walk(c2):
                                if _self_attr(n, attr) and isinstance(n.ctx, ast.Load) and not _use_ok(n, par2):
                                    bad.append(_describe(n, par2, rel2))
                        # holder fields: self.f = C(...)
                        fields = set()
                        for s in ast.walk(c2):
                            if isinstance(s, ast.Assign) and isinstance(s.value, ast.Call):
                                f = s.value.func
                                fname = f.id if isinstance(f, ast.Name) else (f.attr if isinstance(f, ast.Attribute) else "")
                                if fname and fname in classes and derives(fname, c.name):
                                    fields.update(tg.attr for tg in s.targets if _self_attr(tg))
                        for n in ast.walk(c2):
                            if (isinstance(n, ast.Attribute) and n.attr == attr and _self_attr(n.value) and n.value.attr in fields
                                    and isinstance(n.ctx, ast.Load) and not _use_ok(n, par2)):
                                bad.append(_describe(n, par2, rel2))
                rec = dict(module=mod, owner=c.name, name=attr, line=line, rel=rel)
                if bad:
                    rec.update(verdict="failed", detail=f"{rel}:{line}: `{c.name}.{attr}` is allocated with arbitrary contents (empty) "
                               f"and consumed without an index at {'; '.join(sorted(set(bad))[:3])}")
                else:
                    rec.update(verdict="ok", detail=f"{rel}:{line}: every use of `{c.name}.{attr}` is indexed / metadata")
                out.append(rec)
    return out


def analyse_root(root, package="rl_blox"):
    sources = {}
    base = os.path.join(root, package)
    for d, _dirs, files in os.walk(base):
        for f in files:
            if f.endswith(".py"):
                p = os.path.join(d, f)
                sources[os.path.relpath(p, root)] = open(p).read()
    return analyse_sources(sources)


CANARY_SRC = {
    "canary_pkg/m.py": (
        "import numpy as np\n\nclass Ring:\n    def __init__(self, n):\n        self.w = np.empty(n)\n        self.v = np.empty(n)\n"
        "        self.k = 0\n\n    def put(self, x):\n        self.w[self.k] = x\n        self.v[self.k] = x\n        self.k += 1\n\n"
        "    def top(self):\n        return self.w.max()\n\n    def top_ok(self):\n        return self.v[: self.k].max()\n\n"
        "class Holder:\n    def __init__(self, n):\n        self.ring = Ring(n)\n\n    def total(self):\n        return np.sum(self.ring.v)\n\n"
        "def f(n):\n    a = np.empty(n)\n    b = np.empty(n)\n    a[0] = 1.0\n    return a[:1].sum() + b.sum()\n\n"
        "def head(x, k):\n    return x[:k].sum()\n\ndef whole(x):\n    return x.sum()\n\n"
        "def g(n):\n    c = np.empty(n)\n    d = np.empty(n)\n    c[0] = 1.0\n    return head(c, 1) + whole(d)\n"
    ),
}


def run_canary():
    """`Ring.w` (whole .max()), `Ring.v` (np.sum through Holder.ring), local `b` and `d` (whole(d)) must be flagged; `a`, `c` (head(c, 1)) must not"""
    res = analyse_sources(CANARY_SRC)
    bad = {(r["owner"], r["name"]) for r in res if r["verdict"] == "failed"}
    okk = {(r["owner"], r["name"]) for r in res if r["verdict"] == "ok"}
    return bad == {("Ring", "w"), ("Ring", "v"), ("f", "b"), ("g", "d")} and okk == {("f", "a"), ("g", "c")}


if __name__ == "__main__":
    import sys

    for r in analyse_root(sys.argv[1] if len(sys.argv) > 1 else "/repo"):
        print(r["verdict"], r["module"], r["owner"], r["name"], r["detail"][:260])
    print("canary ok:", run_canary())
