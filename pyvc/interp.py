"""Symbolic executor for the Python subset of DESIGN.md section 4.1.

Interprets the *real* AST of rl_blox functions over the value domain of
core.py.  Path enumeration is by decision replay (state.PathState.branch).
Loops with symbolic bounds are cut at the loop head with an inductive
invariant (sidecar + Houdini candidates); the set of locals / heap locations
havocked at the head is inferred by a discovery pass (phase 'discover').
"""
from __future__ import annotations

import ast
from fractions import Fraction

import z3

from . import core as C
from .core import (
    Anything,
    BOOL,
    INT,
    REAL,
    BoundMethod,
    BreakEx,
    Builtin,
    ClassInfo,
    Closure,
    ContinueEx,
    LibNS,
    NamedTuple,
    NamedTupleType,
    NDArr,
    Obj,
    Opaque,
    Partial,
    PathEnd,
    PyRaise,
    ReturnEx,
    Sym,
    Unsupported,
)
from .loader import PKG, Loader
from .state import PathState

MAX_CONCRETE_ITERS = 4096
MAX_CALL_DEPTH = 60


class Frame:
    def __init__(self, qualname, module, parent=None, closure=None):
        self.vars = {}
        self.qualname = qualname
        self.module = module
        self.parent = parent  # lexically enclosing frame
        self.closure = closure
        self.globals_decl = set()
        self.nonlocals = set()
        self.loop_ord = {}

    def lookup(self, name):
        f = self
        while f is not None:
            if name in f.vars:
                return f.vars[name]
            f = f.parent
        raise KeyError(name)

    def has(self, name):
        f = self
        while f is not None:
            if name in f.vars:
                return True
            f = f.parent
        return False


class Unbound:
    def __repr__(self):
        return "<unbound>"


UNBOUND = Unbound()


class LoopSpec:
    """Sidecar loop contract, keyed by (function qualname, loop ordinal).

    inv(L) -> list[(name, term)]        must hold (obligations)
    cand(L) -> list[(name, term)]       Houdini candidates (dropped if not inductive)
    L is a LoopCtx giving access to current locals, entry values and ghosts.
    unroll: int -> unroll a symbolic loop this many times instead (bounded!)
    """

    def __init__(self, inv=None, cand=None, havoc_extra=None, keep=None, qinv=None):
        self.inv = inv
        self.qinv = qinv  # quantified invariants: qinv(L) -> list[(name, sorts, fn)]  (forall sorts. fn(*vars))
        self.cand = cand
        self.havoc_extra = havoc_extra
        self.keep = keep or ()


class LoopCtx:
    def __init__(self, E, frame, entry, it=None, lo=None, hi=None, key=None):
        self.E = E
        self.frame = frame
        self.entry = entry
        self.it = it
        self.lo = lo
        self.hi = hi
        self.key = key

    def __getitem__(self, name):
        return self.frame.lookup(name)

    def get(self, name, default=None):
        try:
            return self.frame.lookup(name)
        except KeyError:
            return default

    def locals_of_sort(self, sort):
        out = []
        for k, v in self.frame.vars.items():
            if isinstance(v, Sym) and v.z.sort() == sort:
                out.append((k, v))
        return out


def _loop_ordinals(fnode):
    """syntactic ordinal of every loop statement in a function body (nested
    function bodies excluded)"""
    out = {}
    n = 0

    def walk(stmts):
        nonlocal n
        for s in stmts:
            if isinstance(s, (ast.For, ast.While)):
                out[id(s)] = n
                n += 1
            for fld in ("body", "orelse", "finalbody", "handlers"):
                sub = getattr(s, fld, None)
                if sub and not isinstance(s, (ast.FunctionDef, ast.ClassDef, ast.Lambda)):
                    if fld == "handlers":
                        for h in sub:
                            walk(h.body)
                    else:
                        walk(sub)

    body = fnode.body if isinstance(fnode.body, list) else []
    walk(body)
    return out


def _assigned_names(stmts):
    """names (re)bound by a statement list, nested defs excluded"""
    out = set()

    def tgt(t):
        if isinstance(t, ast.Name):
            out.add(t.id)
        elif isinstance(t, (ast.Tuple, ast.List)):
            for e in t.elts:
                tgt(e)
        elif isinstance(t, ast.Starred):
            tgt(t.value)

    def walk(ss):
        for s in ss:
            if isinstance(s, (ast.FunctionDef, ast.ClassDef)):
                out.add(s.name)
                continue
            if isinstance(s, ast.Assign):
                for t in s.targets:
                    tgt(t)
            elif isinstance(s, (ast.AugAssign, ast.AnnAssign)):
                tgt(s.target)
            elif isinstance(s, ast.For):
                tgt(s.target)
            elif isinstance(s, ast.With):
                for it in s.items:
                    if it.optional_vars is not None:
                        tgt(it.optional_vars)
            elif isinstance(s, (ast.Import, ast.ImportFrom)):
                for a in s.names:
                    out.add((a.asname or a.name).split(".")[0])
            for n in ast.walk(s):
                if isinstance(n, ast.NamedExpr):
                    tgt(n.target)
            for fld in ("body", "orelse", "finalbody"):
                sub = getattr(s, fld, None)
                if sub:
                    walk(sub)
            if isinstance(s, ast.Try):
                for h in s.handlers:
                    if h.name:
                        out.add(h.name)
                    walk(h.body)

    walk(stmts)
    return out


class Executor:
    """One Executor per path; shared, path-independent data lives in `shared`."""

    def __init__(self, shared, st: PathState):
        self.shared = shared
        self.st = st
        self.loader: Loader = shared.loader
        self.depth = 0
        self.alloc_counts = {}
        self.heap = {}  # name -> heap object (Obj | NDArr | PyList wrapper)
        self.loop_stack = []
        self.observers = list(shared.observers)
        self.cur_call = None

    # ================================================================== API
    @property
    def phase(self):
        return self.shared.phase

    def int(self, name, lo=None, hi=None):
        s = self.st.fresh_sym(name, INT, is_input=True)
        if lo is not None:
            self.assume(s >= lo)
        if hi is not None:
            self.assume(s <= hi)
        return s

    def real(self, name, lo=None, hi=None):
        s = self.st.fresh_sym(name, REAL, is_input=True)
        if lo is not None:
            self.assume(s >= lo)
        if hi is not None:
            self.assume(s <= hi)
        return s

    def bool(self, name):
        return self.st.fresh_sym(name, BOOL, is_input=True)

    def dim(self, name, lo=2):
        """tensor dimension: a symbolic Int >= lo, or - when the engine re-runs
        a task to confirm a counterexample on concrete sizes (sums unrolled
        exactly) - a small concrete int, distinct per dimension name."""
        cd = self.shared.concrete_dims
        if cd is not None:
            if name not in cd:
                if getattr(self.shared, "dim_scheme", "consecutive") == "powers":
                    cd[name] = max(lo, 2 ** (len(cd) + 1))
                else:
                    cd[name] = lo + len(cd)
            return cd[name]
        self.shared.used_dims.add(name)
        return self.int(name, lo)

    def val(self, name, sort=C.VAL):
        return self.st.fresh_sym(name, sort, is_input=True)

    def assume(self, z, name=None):
        self.st.assume(z, name=name)

    def oblige(self, name, z, **kw):
        self.st.oblige(name, z, **kw)

    def cover(self, name):
        self.st.covered.add(name)

    def branch(self, c):
        return self.st.branch(c)

    def may(self, cond, extra_pool=()):
        """False only when `cond` is impossible under the path condition and
        the quantified facts (used to decide whether an exceptional branch
        needs to be explored at all)."""
        from .state import prove

        z = z3.simplify(C.as_bool(cond))
        if z3.is_false(z):
            return False
        if z3.is_true(z):
            return True
        # cheap first: the path condition alone (plus per-query theory facts)
        v, *_ = prove(self.st.pc, [], z3.Not(z), timeout_ms=2000, quick=True)
        if v == "unsat":
            return False
        if not self.st.qfacts:
            return True
        v, *_ = prove(self.st.pc, self.st.qfacts, z3.Not(z), extra_pool=list(self.st.pool) + list(extra_pool), timeout_ms=4000, quick=True)
        return v != "unsat"

    def note_index(self, idx, dim):
        pass

    def register(self, obj, name=None):
        if name is not None:
            obj.name = name
        self.heap[obj.name] = obj
        return obj

    def alloc_name(self, frame, node, tag=""):
        site = f"{frame.qualname if frame else 'harness'}:{getattr(node, 'lineno', 0)}:{getattr(node, 'col_offset', 0)}{tag}"
        n = self.alloc_counts.get(site, 0)
        self.alloc_counts[site] = n + 1
        return f"{site}#{n}"

    def new_obj(self, cls, name=None, **fields):
        """Create a heap object of a repo class (qualified name) or a library
        class tag without running __init__."""
        ci = cls
        if isinstance(cls, str) and cls.startswith(PKG + "."):
            ci = self.resolve(cls)
        o = Obj(ci, fields, name=name or self.alloc_name(None, None, f":{cls}"))
        self.register(o)
        return o

    def new_arr(self, name, length, elem_sort, data=None):
        if data is None:
            data = self.st.fresh(name, z3.ArraySort(INT, elem_sort), is_input=True)
        a = NDArr(data, C.to_z3(length) if not isinstance(length, int) else length, elem_sort, name)
        self.heap[name] = a
        return a

    def resolve(self, qualname):
        """qualified repo name -> Closure | ClassInfo | value"""
        parts = qualname.split(".")
        # longest module prefix
        for i in range(len(parts), 0, -1):
            mod = ".".join(parts[:i])
            if self.loader.module_path(mod) is not None:
                v = self.module_obj(mod)
                for p in parts[i:]:
                    v = self.getattr(v, p)
                return v
        raise Unsupported(f"cannot resolve {qualname}")

    def call(self, fn, *args, **kwargs):
        if isinstance(fn, str):
            fn = self.resolve(fn)
        return self.call_value(fn, list(args), dict(kwargs))

    def call_catch(self, fn, *args, **kwargs):
        """call; returns ('ok', value) or ('raise', PyRaise)"""
        try:
            return "ok", self.call(fn, *args, **kwargs)
        except PyRaise as e:
            return "raise", e

    # ============================================================ modules
    class ModuleValue:
        def __init__(self, mi):
            self.mi = mi

        def __repr__(self):
            return f"<module {self.mi.name}>"

    def module_obj(self, modname):
        mi = self.loader.load_module(modname)
        self.loader.module_globals(mi)
        return Executor.ModuleValue(mi)

    def module_global(self, mi, name):
        g = self.loader.module_globals(mi)
        cache = self.shared.modcache.setdefault(mi.name, {})
        if name in cache:
            return cache[name]
        if name not in g:
            raise KeyError(name)
        kind = g[name]
        if kind[0] == "closure":
            v = Closure(kind[1], None, mi, f"{mi.name}.{name}")
        elif kind[0] == "class":
            v = self.make_class(mi, kind[1])
        elif kind[0] == "import":
            _, mod, attr = kind
            if attr is None:
                v = self.module_obj(mod)
            else:
                sub = f"{mod}.{attr}"
                if self.loader.module_path(sub) is not None and attr not in self.loader.module_globals(self.loader.load_module(mod)):
                    v = self.module_obj(sub)
                else:
                    v = self.module_global(self.loader.load_module(mod), attr)
        elif kind[0] == "lib":
            v = self.shared.lib.resolve(kind[1])
        elif kind[0] == "assign":
            fr = Frame(f"{mi.name}.<module>", mi)
            v = self.eval(kind[1], fr)
        else:
            raise Unsupported(kind[0])
        # module-level values are path independent only if concrete
        if not isinstance(v, (Sym,)):
            cache[name] = v
        return v

    def make_class(self, mi, node: ast.ClassDef):
        fr = Frame(f"{mi.name}.<module>", mi)
        bases = []
        for b in node.bases:
            try:
                bv = self.eval(b, fr)
            except (Unsupported, KeyError):
                bv = "object"
            if isinstance(bv, LibNS):
                bv = bv.path
            bases.append(bv)
        ci = ClassInfo(f"{mi.name}.{node.name}", node, mi, bases)
        for d in node.decorator_list:
            dn = ast.unparse(d)
            if "dataclass" in dn:
                ci.is_dataclass = True
        for s in node.body:
            if isinstance(s, ast.FunctionDef):
                cl = Closure(s, None, mi, f"{ci.qualname}.{s.name}", cls=ci)
                decs = [ast.unparse(d) for d in s.decorator_list]
                cl.is_property = "property" in decs
                cl.is_static = "staticmethod" in decs
                cl.is_classmethod = "classmethod" in decs
                ci.methods[s.name] = cl
            elif isinstance(s, ast.AnnAssign) and isinstance(s.target, ast.Name):
                if ci.is_dataclass or _is_struct_base(bases):
                    ci.dc_fields.append((s.target.id, s.value))
                if s.value is not None:
                    ci.class_attrs[s.target.id] = ("expr", s.value)
            elif isinstance(s, ast.Assign):
                for t in s.targets:
                    if isinstance(t, ast.Name):
                        ci.class_attrs[t.id] = ("expr", s.value)
        if _is_struct_base(bases):
            ci.is_dataclass = True
        return ci

    # ======================================================== expressions
    def eval(self, node, fr: Frame):
        m = getattr(self, "e_" + type(node).__name__, None)
        if m is None:
            raise Unsupported(f"expression {type(node).__name__} at {fr.qualname}:{getattr(node,'lineno','?')}")
        return m(node, fr)

    def e_Constant(self, n, fr):
        v = n.value
        if isinstance(v, float):
            return C.frac_of(v)
        if v is Ellipsis:
            return Opaque("Ellipsis")
        return v

    def e_Name(self, n, fr):
        try:
            v = fr.lookup(n.id)
            if v is UNBOUND:
                raise PyRaise("UnboundLocalError", n.id)
            return v
        except KeyError:
            pass
        try:
            return self.module_global(fr.module, n.id)
        except KeyError:
            pass
        b = self.shared.lib.builtins.get(n.id)
        if b is not None:
            return b
        import builtins as _py_builtins

        if hasattr(_py_builtins, n.id):
            # a real Python builtin the executor has no model for: outside the supported subset (undecided),
            # NOT a NameError of the program
            raise Unsupported(f"no model for builtin {n.id}")
        raise PyRaise("NameError", n.id)

    def e_JoinedStr(self, n, fr):
        # f"{s}" of a string s (python str or an opaque string payload registered in
        # st.ghost['str_terms'], see lib/ext_logging.py) is s itself; every other
        # f-string is an opaque text
        if len(n.values) == 1 and isinstance(n.values[0], ast.FormattedValue):
            fv = n.values[0]
            if fv.conversion == -1 and fv.format_spec is None and _is_pure(fv.value):
                try:
                    v = self.eval(fv.value, fr)
                except (Unsupported, PyRaise):
                    return "<fstring>"
                if isinstance(v, str) or (isinstance(v, Sym) and v.z.get_id() in self.st.ghost.get("str_terms", ())):
                    return v
        return "<fstring>"

    def e_Tuple(self, n, fr):
        return tuple(self._elts(n.elts, fr))

    def e_List(self, n, fr):
        return list(self._elts(n.elts, fr))

    def e_Set(self, n, fr):
        return set(self._elts(n.elts, fr))

    def _elts(self, elts, fr):
        out = []
        for e in elts:
            if isinstance(e, ast.Starred):
                out.extend(self.iterate(self.eval(e.value, fr)))
            else:
                out.append(self.eval(e, fr))
        return out

    def e_Dict(self, n, fr):
        d = {}
        for k, v in zip(n.keys, n.values):
            if k is None:
                d.update(self.eval(v, fr))
            else:
                d[self.eval(k, fr)] = self.eval(v, fr)
        return d

    def e_BinOp(self, n, fr):
        a = self.eval(n.left, fr)
        b = self.eval(n.right, fr)
        return self.binop(_OPS[type(n.op)], a, b)

    def binop(self, op, a, b):
        from .tensor import Tensor

        if isinstance(a, (NDArr, C.IdxVec)) or isinstance(b, (NDArr, C.IdxVec)):
            return self.shared.lib.ndarr_binop(self, op, a, b)
        if op == "@":
            return self.shared.lib.matmul(self, a, b)
        return C.binop(op, a, b)

    def e_UnaryOp(self, n, fr):
        v = self.eval(n.operand, fr)
        if isinstance(n.op, ast.Not):
            if isinstance(v, Sym):
                return C.unop("not", v)
            from .tensor import Tensor

            if isinstance(v, Tensor):
                return not self.truth(v)
            return not self.truth(v)
        return C.unop(_UOPS[type(n.op)], v)

    def e_BoolOp(self, n, fr):
        is_and = isinstance(n.op, ast.And)
        vals = n.values
        cur = self.eval(vals[0], fr)
        for nxt in vals[1:]:
            if isinstance(cur, Sym) and cur.is_bool() and _is_pure(nxt):
                other = self.eval(nxt, fr)
                if isinstance(other, (Sym, bool)) and (isinstance(other, bool) or other.is_bool()):
                    z = z3.And(C.as_bool(cur), C.as_bool(other)) if is_and else z3.Or(C.as_bool(cur), C.as_bool(other))
                    cur = C.mk(z)
                    continue
                t = self.truth(cur)
                if is_and:
                    cur = other if t else cur
                else:
                    cur = cur if t else other
                continue
            t = self.truth(cur)
            if is_and:
                if not t:
                    return cur
                cur = self.eval(nxt, fr)
            else:
                if t:
                    return cur
                cur = self.eval(nxt, fr)
        return cur

    def e_Compare(self, n, fr):
        left = self.eval(n.left, fr)
        result = None
        for op, rn in zip(n.ops, n.comparators):
            right = self.eval(rn, fr)
            r = self.compare_op(op, left, right)
            if result is None:
                result = r
            else:
                if isinstance(result, bool) and isinstance(r, bool):
                    result = result and r
                else:
                    result = C.mk(z3.And(C.as_bool(result), C.as_bool(r)))
            if result is False:
                return False
            left = right
        return result

    def compare_op(self, op, a, b):
        if isinstance(op, (ast.In, ast.NotIn)):
            r = self.contains(b, a)
            return r if isinstance(op, ast.In) else C.unop("not", r) if isinstance(r, Sym) else (not r)
        name = _CMP[type(op)]
        if isinstance(a, (NDArr, C.IdxVec)) or isinstance(b, (NDArr, C.IdxVec)):
            return self.shared.lib.ndarr_compare(self, name, a, b)
        return C.compare(name, a, b)

    def contains(self, container, item):
        if isinstance(container, dict):
            return item in container
        if isinstance(container, (list, tuple, set, frozenset)):
            if isinstance(item, Sym):
                if not container:
                    return False
                return C.mk(z3.Or(*[C.as_bool(C.compare("==", item, x)) for x in container]))
            for x in container:
                r = C.compare("==", item, x)
                if isinstance(r, Sym):
                    raise Unsupported("symbolic membership")
                if r:
                    return True
            return False
        if isinstance(container, str):
            return item in container
        h = self.shared.lib.contains_hook(self, container, item)
        if h is not NotImplemented:
            return h
        raise Unsupported(f"'in' on {type(container).__name__}")

    def e_IfExp(self, n, fr):
        c = self.eval(n.test, fr)
        if isinstance(c, Sym) and _is_pure(n.body) and _is_pure(n.orelse):
            a = self.eval(n.body, fr)
            b = self.eval(n.orelse, fr)
            try:
                return C.ite(c, a, b)
            except Unsupported:
                pass
            return a if self.truth(c) else b
        return self.eval(n.body, fr) if self.truth(c) else self.eval(n.orelse, fr)

    def e_Lambda(self, n, fr):
        return Closure(n, fr, fr.module, f"{fr.qualname}.<lambda>@{n.lineno}")

    def e_Attribute(self, n, fr):
        v = self.eval(n.value, fr)
        return self.getattr(v, n.attr)

    def e_Subscript(self, n, fr):
        v = self.eval(n.value, fr)
        idx = self.eval_index(n.slice, fr)
        return self.getitem(v, idx)

    def eval_index(self, s, fr):
        if isinstance(s, ast.Slice):
            return slice(
                None if s.lower is None else self.eval(s.lower, fr),
                None if s.upper is None else self.eval(s.upper, fr),
                None if s.step is None else self.eval(s.step, fr),
            )
        if isinstance(s, ast.Tuple):
            return tuple(self.eval_index(e, fr) for e in s.elts)
        return self.eval(s, fr)

    def e_Slice(self, n, fr):
        return self.eval_index(n, fr)

    def e_Starred(self, n, fr):
        raise Unsupported("starred expression outside call/list")

    def e_NamedExpr(self, n, fr):
        v = self.eval(n.value, fr)
        self.assign(n.target, v, fr)
        return v

    def e_ListComp(self, n, fr):
        sc = self._symbolic_comp(n, fr)
        if sc is not None:
            return sc
        return list(self._comp(n, fr, lambda f: self.eval(n.elt, f)))

    def _symbolic_comp(self, n, fr):
        """[elt for t in range(..symbolic..)] with a pure elt and pure range bounds: core.SymComp"""
        if len(n.generators) != 1:
            return None
        g = n.generators[0]
        if not isinstance(g.target, ast.Name) or not _comp_elt_ok(n.elt):
            return None
        # `... if cond` filters: only through a library hook (lib/ext_sched.py: the filtered list
        # is consumed by np.sum as a fold); without the hook the comprehension is iterated concretely
        fhook = getattr(self.shared.lib, "filtered_comp_hook", None) if g.ifs else None
        if g.ifs and (fhook is None or not _is_pure(n.elt) or not all(_is_pure(c) for c in g.ifs)):
            return None
        it = g.iter
        if not (isinstance(it, ast.Call) and isinstance(it.func, ast.Name) and it.func.id == "range"
                and not it.keywords and all(_is_pure(a) or (fhook is not None and _is_pure_minmax(a)) for a in it.args)):
            # any other iterable expression (e.g. a helper that RETURNS range(lo, hi)): evaluated exactly once; a
            # symbolic range is handled like the inline range(...), anything else is handed to the concrete path
            val = self.eval(it, fr)
            # [elt for x in <list of symbolic length>] without filter: the element-wise image, like list(map(...))
            from .lib.ext_symlist import SymList, symlist_map

            if isinstance(val, SymList) and C.concrete_of(z3.simplify(val.len_z())) is None:
                if not g.ifs and _is_pure(n.elt):
                    def elt_of(E, x, _n=n, _g=g, _fr=fr):
                        f = Frame(_fr.qualname, _fr.module, parent=_fr)
                        f.vars[_g.target.id] = x
                        return E.eval(_n.elt, f)
                    return symlist_map(self, Builtin("comprehension.elt", elt_of), val)
                self._pre_iter = (id(it), val)
                return None
            rng = self.shared.lib.as_symbolic_range(self, val)
            if rng is None or len(rng) != 2:
                self._pre_iter = (id(it), val)
                return None
        else:
            rng = self.shared.lib.as_symbolic_range(self, self.eval(it, fr))
        if rng is None:
            return None
        lo, hi = rng
        iv = self.st.fresh("lc", INT)
        if fhook is not None:
            return fhook(self, n, g, fr, lo, hi, iv)
        f = Frame(fr.qualname, fr.module, parent=fr)
        f.vars[g.target.id] = Sym(iv)
        return C.SymComp(lo, hi, iv, self.eval(n.elt, f))

    def e_GeneratorExp(self, n, fr):
        return list(self._comp(n, fr, lambda f: self.eval(n.elt, f)))

    def e_SetComp(self, n, fr):
        return set(self._comp(n, fr, lambda f: self.eval(n.elt, f)))

    def e_DictComp(self, n, fr):
        return dict(self._comp(n, fr, lambda f: (self.eval(n.key, f), self.eval(n.value, f))))

    def _comp(self, n, fr, mk):
        f = Frame(fr.qualname, fr.module, parent=fr)
        out = []

        def rec(i):
            if i == len(n.generators):
                out.append(mk(f))
                return
            g = n.generators[i]
            pre = getattr(self, "_pre_iter", None)
            if i == 0 and pre is not None and pre[0] == id(g.iter):
                self._pre_iter = None
                itv = pre[1]  # already evaluated by _symbolic_comp (never twice: side effects)
            else:
                itv = self.eval(g.iter, f)
            for x in self.iterate(itv):
                self.assign(g.target, x, f)
                if all(self.truth(self.eval(c, f)) for c in g.ifs):
                    rec(i + 1)

        rec(0)
        return out

    def e_Call(self, n, fr):
        # super()
        if isinstance(n.func, ast.Name) and n.func.id == "super" and not n.args:
            return self._super(fr)
        fn = self.eval(n.func, fr)
        args = []
        for a in n.args:
            if isinstance(a, ast.Starred):
                args.extend(self.iterate(self.eval(a.value, fr)))
            else:
                args.append(self.eval(a, fr))
        kwargs = {}
        for k in n.keywords:
            if k.arg is None:
                d = self.eval(k.value, fr)
                if isinstance(d, NamedTuple):
                    d = dict(zip(d.typ.fields, d.values))
                kwargs.update(d)
            else:
                kwargs[k.arg] = self.eval(k.value, fr)
        prev = self.cur_call
        self.cur_call = (n, fr)
        try:
            return self.call_value(fn, args, kwargs)
        finally:
            self.cur_call = prev

    class SuperProxy:
        def __init__(self, obj, cls):
            self.obj = obj
            self.cls = cls

    def _super(self, fr):
        f = fr
        while f is not None and (f.closure is None or f.closure.cls is None):
            f = f.parent
        if f is None:
            raise Unsupported("super() outside method")
        slf = f.vars.get(f.closure.node.args.args[0].arg)
        return Executor.SuperProxy(slf, f.closure.cls)

    # ============================================================= truth
    def truth(self, v) -> bool:
        from .tensor import Tensor

        if isinstance(v, bool):
            return v
        if isinstance(v, Anything):
            raise Unsupported(f"branch on the result of a stubbed callee: {v.tag}")
        if isinstance(v, Sym):
            return self.st.branch(C.as_bool(v))
        if v is None:
            return False
        if isinstance(v, (int, Fraction, float)):
            return v != 0
        if isinstance(v, (list, tuple, dict, set, str, frozenset)):
            return len(v) > 0
        if isinstance(v, Tensor):
            if v.size_is_one():
                return self.truth(v.item())
            raise PyRaise("ValueError", "truth value of an array with more than one element is ambiguous")
        if isinstance(v, Obj):
            ln = self.shared.lib.len_hook(self, v)
            if ln is not NotImplemented:
                return self.truth(C.compare("!=", ln, 0))
            return True
        return True

    # ========================================================= attributes
    def getattr(self, v, name):
        from .tensor import Tensor

        if isinstance(v, Anything):
            return Anything(f"{v.tag}.{name}")
        if isinstance(v, Obj):
            if name in v.fields:
                return v.fields[name]
            if name == "__dict__":
                return v.fields
            if name == "__class__":
                return v.cls
            if isinstance(v.cls, ClassInfo):
                m = v.cls.lookup(name)
                if m is not None:
                    return self._bind(v, m, v.cls)
                # library base class behaviour
                for c in v.cls.mro():
                    for b in c.bases:
                        if isinstance(b, str):
                            h = self.shared.lib.class_attr(self, b, v, name)
                            if h is not NotImplemented:
                                return h
            else:
                h = self.shared.lib.class_attr(self, v.cls, v, name)
                if h is not NotImplemented:
                    return h
            raise PyRaise("AttributeError", f"{v!r} has no attribute {name}")
        if isinstance(v, Executor.SuperProxy):
            mro = v.obj.cls.mro()
            i = mro.index(v.cls)
            for c in mro[i + 1 :]:
                if name in c.methods:
                    return BoundMethod(v.obj, c.methods[name])
            for b in v.cls.bases:
                if isinstance(b, str):
                    h = self.shared.lib.class_attr(self, b, v.obj, name)
                    if h is not NotImplemented:
                        return h
            raise PyRaise("AttributeError", f"super has no {name}")
        if isinstance(v, Executor.ModuleValue):
            try:
                return self.module_global(v.mi, name)
            except KeyError:
                sub = f"{v.mi.name}.{name}"
                if self.loader.module_path(sub) is not None:
                    return self.module_obj(sub)
                raise PyRaise("AttributeError", f"module {v.mi.name} has no {name}")
        if isinstance(v, LibNS):
            return self.shared.lib.resolve(f"{v.path}.{name}")
        if isinstance(v, ClassInfo):
            m = v.lookup(name)
            if m is None:
                if name == "__name__":
                    return v.qualname.split(".")[-1]
                raise PyRaise("AttributeError", f"{v} has no {name}")
            if isinstance(m, Closure):
                if getattr(m, "is_classmethod", False):
                    return BoundMethod(v, m)
                return m
            if isinstance(m, tuple) and m[0] == "expr":
                return self.eval(m[1], Frame(v.qualname, v.module))
            return m
        if isinstance(v, NamedTuple):
            if name in v.typ.fields:
                return v.get(name)
            if name == "_fields":
                return tuple(v.typ.fields)
            if name == "_asdict":
                return Builtin("_asdict", lambda E: dict(zip(v.typ.fields, v.values)))
            if name == "_replace":
                def _rep(E, **kw):
                    vals = list(v.values)
                    for k, x in kw.items():
                        vals[v.typ.fields.index(k)] = x
                    return NamedTuple(v.typ, vals)
                return Builtin("_replace", _rep)
            raise PyRaise("AttributeError", name)
        h = self.shared.lib.value_attr(self, v, name)
        if h is not NotImplemented:
            return h
        raise Unsupported(f"attribute {name} of {type(v).__name__}")

    def _bind(self, obj, m, cls):
        if isinstance(m, Closure):
            if getattr(m, "is_property", False):
                return self.call_value(m, [obj], {})
            if getattr(m, "is_static", False):
                return m
            if getattr(m, "is_classmethod", False):
                return BoundMethod(cls, m)
            return BoundMethod(obj, m)
        if isinstance(m, tuple) and m[0] == "expr":
            return self.eval(m[1], Frame(cls.qualname, cls.module))
        return m

    def setfield(self, obj, name, value):
        if self.st.write_log is not None:
            self.log_write(obj.name, name, value)
        obj.fields[name] = value

    def log_write(self, objname, field, value=None):
        if self.st.write_log is None:
            return
        for lid in self.loop_stack:
            self.st.write_log.setdefault(lid, set()).add((objname, field))

    def setattr(self, v, name, value):
        if isinstance(v, Obj):
            if isinstance(v.cls, str):
                h = self.shared.lib.class_setattr(self, v.cls, v, name, value)
                if h is not NotImplemented:
                    return
            self.setfield(v, name, value)
            return
        raise Unsupported(f"attribute assignment on {type(v).__name__}")

    # ============================================================= items
    def getitem(self, v, idx):
        from .tensor import Tensor

        if isinstance(v, Anything):
            return Anything(f"{v.tag}[]")
        if isinstance(v, C.OpaqueList):
            raise Unsupported("subscript on a list with unknown contents (appended to inside a cut loop)")
        if isinstance(v, (list, tuple)):
            if isinstance(idx, slice):
                return v[self._cslice(idx)]
            if isinstance(idx, Sym):
                c = C.concrete_of(z3.simplify(idx.z))
                if c is None:
                    return self._sym_list_index(v, idx)
                idx = c
            if isinstance(idx, Fraction):
                raise PyRaise("TypeError", "list indices must be integers")
            try:
                return v[idx]
            except IndexError:
                raise PyRaise("IndexError", "list index out of range")
        if isinstance(v, dict):
            if type(v).__name__ == "InfoDict":
                return Anything("info[]")
            if isinstance(idx, Sym):
                raise Unsupported("symbolic dict key")
            try:
                return v[idx]
            except KeyError:
                raise PyRaise("KeyError", repr(idx))
        if isinstance(v, str):
            return v[idx]
        if isinstance(v, NamedTuple):
            if isinstance(idx, slice):
                return tuple(v.values[self._cslice(idx)])
            return v.values[idx]
        h = self.shared.lib.getitem(self, v, idx)
        if h is not NotImplemented:
            return h
        raise Unsupported(f"subscript on {type(v).__name__}")

    def _sym_list_index(self, lst, idx):
        """lst[idx] for a concrete-length list with symbolic index"""
        n = len(lst)
        if n == 0:
            raise PyRaise("IndexError", "list index out of range")
        iz = C.as_int(idx)
        inb = z3.And(iz >= -n, iz < n)
        if not self.st.branch(inb):
            raise PyRaise("IndexError", "list index out of range")
        # scalars -> ite chain; objects -> fork
        if all(isinstance(x, (Sym, int, Fraction, bool)) and not isinstance(x, Obj) for x in lst):
            r = lst[n - 1]
            for k in range(n - 2, -1, -1):
                r = C.ite(Sym(z3.Or(iz == k, iz == k - n)), lst[k], r)
            return r
        for k in range(n):
            if self.st.branch(z3.Or(iz == k, iz == k - n)):
                return lst[k]
        raise PathEnd("index")

    def _cslice(self, s):
        def c(x):
            if isinstance(x, Sym):
                v = C.concrete_of(z3.simplify(x.z))
                if v is None:
                    raise Unsupported("symbolic slice bound on python sequence")
                return v
            return x

        return slice(c(s.start), c(s.stop), c(s.step))

    def setitem(self, v, idx, value):
        if isinstance(v, list):
            if isinstance(idx, Sym):
                c = C.concrete_of(z3.simplify(idx.z))
                if c is None:
                    n = len(v)
                    iz = C.as_int(idx)
                    if not self.st.branch(z3.And(iz >= -n, iz < n)):
                        raise PyRaise("IndexError", "list assignment index out of range")
                    for k in range(n):
                        if self.st.branch(z3.Or(iz == k, iz == k - n)):
                            self.log_write(f"list@{id(v)}", "*")
                            v[k] = value
                            return
                    raise PathEnd("index")
                idx = c
            self.log_write(f"list@{id(v)}", "*")
            try:
                v[idx] = value
            except IndexError:
                raise PyRaise("IndexError", "list assignment index out of range")
            return
        if isinstance(v, dict):
            if isinstance(idx, Sym):
                raise Unsupported("symbolic dict key")
            v[idx] = value
            return
        h = self.shared.lib.setitem(self, v, idx, value)
        if h is not NotImplemented:
            return
        raise Unsupported(f"item assignment on {type(v).__name__}")

    # ============================================================ iterate
    def iterate(self, v):
        from .tensor import Tensor

        if isinstance(v, C.OpaqueList):
            raise Unsupported("iteration over a list with unknown contents (appended to inside a cut loop)")
        if isinstance(v, (list, tuple, set, frozenset)):
            return list(v)
        if isinstance(v, dict):
            return list(v.keys())
        if isinstance(v, range):
            return list(v)
        if isinstance(v, str):
            return list(v)
        if isinstance(v, NamedTuple):
            return list(v.values)
        h = self.shared.lib.iterate(self, v)
        if h is not NotImplemented:
            return h
        raise Unsupported(f"iteration over {type(v).__name__}")

    # ============================================================== calls
    def call_value(self, fn, args, kwargs):
        self.depth += 1
        if self.depth > MAX_CALL_DEPTH:
            self.depth -= 1
            raise Unsupported("call depth exceeded")
        try:
            return self._call(fn, args, kwargs)
        finally:
            self.depth -= 1

    def _call(self, fn, args, kwargs):
        for ob in self.observers:
            r = ob(self, fn, args, kwargs)
            if r is not None:
                return r[0]
        if isinstance(fn, Builtin):
            return fn.fn(self, *args, **kwargs)
        if isinstance(fn, Anything):
            return Anything(f"{fn.tag}()")
        if isinstance(fn, Closure):
            stub = self.shared.stubs.get(fn.qualname)
            if stub is not None:
                # a contract stub stands for the REAL function: keyword arguments are bound by the real parameter names
                # (the stub's own parameter names are irrelevant), so f(a, b) and f(x=a, y=b) reach the stub alike
                args, kwargs = list(args), dict(kwargs)
                try:
                    a_ = fn.node.args
                    names = [p_.arg for p_ in a_.posonlyargs + a_.args]
                    if names and names[0] in ("self", "cls") and getattr(fn, "bound", None) is not None:
                        names = names[1:]
                    while len(args) < len(names) and names[len(args)] in kwargs:
                        args.append(kwargs.pop(names[len(args)]))
                except AttributeError:
                    pass
                return stub(self, *args, **kwargs)
            return self.call_closure(fn, args, kwargs)
        if isinstance(fn, BoundMethod):
            return self._call(fn.func, [fn.obj] + list(args), kwargs)
        if isinstance(fn, Partial):
            kw = dict(fn.kwargs)
            kw.update(kwargs)
            return self._call(fn.func, list(fn.args) + list(args), kw)
        if isinstance(fn, ClassInfo):
            stub = self.shared.stubs.get(fn.qualname)
            if stub is not None:
                return stub(self, *args, **kwargs)
            return self.instantiate(fn, args, kwargs)
        if isinstance(fn, NamedTupleType):
            vals = list(args)
            for f in fn.fields[len(args):]:
                if f not in kwargs:
                    raise PyRaise("TypeError", f"missing field {f}")
                vals.append(kwargs[f])
            if len(vals) != len(fn.fields) or any(k not in fn.fields for k in kwargs):
                raise PyRaise("TypeError", "namedtuple arity")
            return NamedTuple(fn, vals)
        if isinstance(fn, Obj):
            if isinstance(fn.cls, ClassInfo):
                m = fn.cls.lookup("__call__")
                if m is not None:
                    return self._call(BoundMethod(fn, m), args, kwargs)
                for c in fn.cls.mro():
                    for b in c.bases:
                        if isinstance(b, str):
                            h = self.shared.lib.class_attr(self, b, fn, "__call__")
                            if h is not NotImplemented:
                                return self._call(h, args, kwargs)
            else:
                h = self.shared.lib.class_attr(self, fn.cls, fn, "__call__")
                if h is not NotImplemented:
                    return self._call(h, args, kwargs)
            raise PyRaise("TypeError", f"{fn!r} is not callable")
        if isinstance(fn, LibNS):
            from .lib import _has_anything

            if _has_anything(args) or _has_anything(tuple(kwargs.values())):
                return Anything(fn.path)
            raise Unsupported(f"no model for library function {fn.path}")
        if isinstance(fn, Opaque) and fn.tag == "exception_class":
            return Opaque("exception", (fn.payload, args))
        raise Unsupported(f"call of {type(fn).__name__} {fn!r}")

    def bind_args(self, cl: Closure, args, kwargs, fr: Frame):
        a = cl.node.args
        params = [p.arg for p in a.posonlyargs + a.args]
        defaults = a.defaults
        nreq = len(params) - len(defaults)
        kwargs = dict(kwargs)
        args = list(args)
        for i, p in enumerate(params):
            if i < len(args):
                if p in kwargs:
                    raise PyRaise("TypeError", f"multiple values for {p}")
                fr.vars[p] = args[i]
            elif p in kwargs:
                fr.vars[p] = kwargs.pop(p)
            elif i >= nreq:
                fr.vars[p] = self.eval(defaults[i - nreq], self._def_frame(cl))
            else:
                raise PyRaise("TypeError", f"{cl.qualname} missing argument {p}")
        extra = args[len(params):]
        if a.vararg:
            fr.vars[a.vararg.arg] = tuple(extra)
        elif extra:
            raise PyRaise("TypeError", f"{cl.qualname} takes {len(params)} positional arguments")
        for p, d in zip(a.kwonlyargs, a.kw_defaults):
            if p.arg in kwargs:
                fr.vars[p.arg] = kwargs.pop(p.arg)
            elif d is not None:
                fr.vars[p.arg] = self.eval(d, self._def_frame(cl))
            else:
                raise PyRaise("TypeError", f"missing keyword-only argument {p.arg}")
        if a.kwarg:
            fr.vars[a.kwarg.arg] = kwargs
        elif kwargs:
            raise PyRaise("TypeError", f"{cl.qualname} got unexpected keyword {list(kwargs)}")

    def _def_frame(self, cl):
        return cl.env if cl.env is not None else Frame(cl.qualname, cl.module)

    def call_closure(self, cl: Closure, args, kwargs):
        self.loader.note_entered(cl) if not isinstance(cl.node, ast.Lambda) else None
        fr = Frame(cl.qualname, cl.module, parent=cl.env, closure=cl)
        self.bind_args(cl, args, kwargs, fr)
        if isinstance(cl.node, ast.Lambda):
            return self.eval(cl.node.body, fr)
        fr.loop_ord = _loop_ordinals(cl.node)
        self.shared.trace_enter(cl.qualname)
        try:
            self.exec_block(cl.node.body, fr)
        except ReturnEx as r:
            return r.value
        return None

    def instantiate(self, ci: ClassInfo, args, kwargs):
        node, fr = self.cur_call if self.cur_call else (None, None)
        o = Obj(ci, {}, name=self.alloc_name(fr, node, f":{ci.qualname}"))
        self.register(o)
        init = ci.lookup("__init__")
        if init is not None and isinstance(init, Closure):
            self._call(BoundMethod(o, init), args, kwargs)
        elif ci.is_dataclass:
            self._dataclass_init(ci, o, args, kwargs)
        else:
            for c in ci.mro():
                for b in c.bases:
                    if isinstance(b, str):
                        h = self.shared.lib.class_attr(self, b, o, "__init__")
                        if h is not NotImplemented:
                            self._call(h, args, kwargs)
                            return o
            if args or kwargs:
                raise PyRaise("TypeError", f"{ci.qualname}() takes no arguments")
        return o

    def _dataclass_init(self, ci, o, args, kwargs):
        fields = []
        for c in reversed(ci.mro()):
            for (n, d) in c.dc_fields:
                fields = [(a, b) for (a, b) in fields if a != n] + [(n, (d, c))]
        kwargs = dict(kwargs)
        for i, (n, (d, c)) in enumerate(fields):
            if i < len(args):
                o.fields[n] = args[i]
            elif n in kwargs:
                o.fields[n] = kwargs.pop(n)
            elif d is not None:
                o.fields[n] = self.eval(d, Frame(c.qualname, c.module))
            else:
                raise PyRaise("TypeError", f"missing field {n}")
        if kwargs:
            raise PyRaise("TypeError", f"unexpected {list(kwargs)}")

    # ========================================================= statements
    def exec_block(self, stmts, fr):
        for s in stmts:
            self.exec(s, fr)

    def exec(self, s, fr):
        m = getattr(self, "s_" + type(s).__name__, None)
        if m is None:
            raise Unsupported(f"statement {type(s).__name__} at {fr.qualname}:{s.lineno}")
        self.shared.cover_line(fr, s)
        return m(s, fr)

    def s_Expr(self, s, fr):
        if isinstance(s.value, ast.Constant):
            return
        self.eval(s.value, fr)

    def s_Pass(self, s, fr):
        pass

    def s_Import(self, s, fr):
        g = {}
        self.loader._collect(fr.module, s, g)
        for k, kind in g.items():
            if kind[0] == "lib":
                fr.vars[k] = self.shared.lib.resolve(kind[1])
            else:
                _, mod, attr = kind
                fr.vars[k] = self.module_obj(mod) if attr is None else self.module_global(self.loader.load_module(mod), attr)

    s_ImportFrom = s_Import

    def s_Global(self, s, fr):
        fr.globals_decl.update(s.names)

    def s_Nonlocal(self, s, fr):
        fr.nonlocals.update(s.names)

    def s_FunctionDef(self, s, fr):
        cl = Closure(s, fr, fr.module, f"{fr.qualname}.<locals>.{s.name}")
        fr.vars[s.name] = cl
        decs = [ast.unparse(d) for d in s.decorator_list]
        # decorators that change calling convention are modelled by the lib
        for d in reversed(s.decorator_list):
            dv = None
            txt = ast.unparse(d)
            if any(k in txt for k in ("jit", "cached_partial")):
                continue
            try:
                dv = self.eval(d, fr)
            except (Unsupported, PyRaise):
                continue
            if isinstance(dv, (Builtin, Partial)):
                fr.vars[s.name] = self.call_value(dv, [fr.vars[s.name]], {})

    def s_ClassDef(self, s, fr):
        fr.vars[s.name] = self.make_class(fr.module, s)

    def s_Return(self, s, fr):
        raise ReturnEx(None if s.value is None else self.eval(s.value, fr))

    def s_Delete(self, s, fr):
        for t in s.targets:
            if isinstance(t, ast.Subscript):
                v = self.eval(t.value, fr)
                idx = self.eval_index(t.slice, fr)
                if isinstance(v, (dict, list)):
                    if isinstance(idx, Sym):
                        raise Unsupported("symbolic del index")
                    try:
                        del v[idx]
                    except (KeyError, IndexError):
                        raise PyRaise("KeyError", repr(idx))
                else:
                    raise Unsupported("del on non-container")
            elif isinstance(t, ast.Name):
                fr.vars.pop(t.id, None)
            else:
                raise Unsupported("del target")

    def s_Assign(self, s, fr):
        v = self.eval(s.value, fr)
        for t in s.targets:
            self.assign(t, v, fr)

    def s_AnnAssign(self, s, fr):
        if s.value is not None:
            self.assign(s.target, self.eval(s.value, fr), fr)

    def s_AugAssign(self, s, fr):
        op = _OPS[type(s.op)]
        t = s.target
        if isinstance(t, ast.Name):
            cur = self.e_Name(ast.Name(id=t.id, ctx=ast.Load()), fr)
            rhs = self.eval(s.value, fr)
            if isinstance(cur, list) and op == "+":
                cur.extend(self.iterate(rhs))
                self.log_write(f"list@{id(cur)}", "*")
                return
            self.assign(t, self.binop(op, cur, rhs), fr)
        elif isinstance(t, ast.Attribute):
            o = self.eval(t.value, fr)
            cur = self.getattr(o, t.attr)
            rhs = self.eval(s.value, fr)
            if isinstance(cur, list) and op == "+":
                cur.extend(self.iterate(rhs))
                return
            self.setattr(o, t.attr, self.binop(op, cur, rhs))
        elif isinstance(t, ast.Subscript):
            o = self.eval(t.value, fr)
            idx = self.eval_index(t.slice, fr)
            cur = self.getitem(o, idx)
            rhs = self.eval(s.value, fr)
            self.setitem(o, idx, self.binop(op, cur, rhs))
        else:
            raise Unsupported("augmented assignment target")

    def assign(self, t, v, fr):
        if isinstance(t, ast.Name):
            if t.id in fr.nonlocals:
                f = fr.parent
                while f is not None:
                    if t.id in f.vars:
                        f.vars[t.id] = v
                        return
                    f = f.parent
                raise Unsupported("nonlocal not found")
            fr.vars[t.id] = v
        elif isinstance(t, (ast.Tuple, ast.List)):
            vals = self.unpack(v, len(t.elts), any(isinstance(e, ast.Starred) for e in t.elts))
            if any(isinstance(e, ast.Starred) for e in t.elts):
                i = [isinstance(e, ast.Starred) for e in t.elts].index(True)
                n_after = len(t.elts) - i - 1
                head = vals[:i]
                tail = vals[len(vals) - n_after:] if n_after else []
                mid = vals[i: len(vals) - n_after]
                for e, x in zip(t.elts[:i], head):
                    self.assign(e, x, fr)
                self.assign(t.elts[i].value, list(mid), fr)
                for e, x in zip(t.elts[i + 1:], tail):
                    self.assign(e, x, fr)
                return
            for e, x in zip(t.elts, vals):
                self.assign(e, x, fr)
        elif isinstance(t, ast.Attribute):
            self.setattr(self.eval(t.value, fr), t.attr, v)
        elif isinstance(t, ast.Subscript):
            o = self.eval(t.value, fr)
            self.setitem(o, self.eval_index(t.slice, fr), v)
        else:
            raise Unsupported(f"assignment target {type(t).__name__}")

    def unpack(self, v, n, starred=False):
        from .tensor import Tensor

        if isinstance(v, Anything):
            return [Anything(f"{v.tag}[{k}]") for k in range(n)]
        if isinstance(v, Tensor):
            vals = v.unpack_axis0()
        else:
            vals = self.iterate(v)
        if starred:
            if len(vals) < n - 1:
                raise PyRaise("ValueError", "not enough values to unpack")
            return vals
        if len(vals) != n:
            raise PyRaise("ValueError", f"expected {n} values to unpack, got {len(vals)}")
        return vals

    def s_If(self, s, fr):
        c = self.eval(s.test, fr)
        if self.truth(c):
            self.exec_block(s.body, fr)
        else:
            self.exec_block(s.orelse, fr)

    def s_Assert(self, s, fr):
        c = self.eval(s.test, fr)
        if not self.truth(c):
            raise PyRaise("AssertionError", ast.unparse(s.test)[:80])

    def s_Raise(self, s, fr):
        if s.exc is None:
            raise PyRaise("Exception", "re-raise")
        name = "Exception"
        f = s.exc.func if isinstance(s.exc, ast.Call) else s.exc
        if isinstance(f, ast.Name):
            name = f.id
        elif isinstance(f, ast.Attribute):
            name = f.attr
        raise PyRaise(name, ast.unparse(s.exc)[:80])

    def s_With(self, s, fr):
        for it in s.items:
            v = self.eval(it.context_expr, fr)
            if it.optional_vars is not None:
                self.assign(it.optional_vars, v, fr)
        self.exec_block(s.body, fr)

    def s_Try(self, s, fr):
        if s.finalbody:
            raise Unsupported("try/finally")
        try:
            self.exec_block(s.body, fr)
        except PyRaise as e:
            for h in s.handlers:
                if h.type is None or _handler_matches(h.type, e.exc_type):
                    if h.name:
                        fr.vars[h.name] = Opaque("exception", e)
                    self.exec_block(h.body, fr)
                    return
            raise
        else:
            self.exec_block(s.orelse, fr)

    def s_Break(self, s, fr):
        raise BreakEx()

    def s_Continue(self, s, fr):
        raise ContinueEx()

    # ------------------------------------------------------------- loops
    def s_For(self, s, fr):
        it = self.eval(s.iter, fr)
        rng = self.shared.lib.as_symbolic_range(self, it)
        if rng is not None:
            # (lo, hi) or (lo, hi, elem): elem(k) is the loop target's value at position k
            return self.cut_loop(s, fr, ("range",) + tuple(rng))
        items = self.iterate(it)
        broke = False
        for x in items:
            self.assign(s.target, x, fr)
            try:
                self.exec_block(s.body, fr)
            except BreakEx:
                broke = True
                break
            except ContinueEx:
                continue
        if not broke:
            self.exec_block(s.orelse, fr)

    def s_While(self, s, fr):
        key = (fr.qualname, fr.loop_ord.get(id(s), -1))
        if key in self.shared.force_cut or self._test_is_symbolic(s, fr):
            return self.cut_loop(s, fr, ("while",))
        n = 0
        while True:
            c = self.eval(s.test, fr)
            if isinstance(c, Sym):
                return self.cut_loop(s, fr, ("while",), first_cond=c)
            if not self.truth(c):
                break
            n += 1
            if n > MAX_CONCRETE_ITERS:
                raise Unsupported("concrete loop too long")
            try:
                self.exec_block(s.body, fr)
            except BreakEx:
                return
            except ContinueEx:
                continue
        self.exec_block(s.orelse, fr)

    def _test_is_symbolic(self, s, fr):
        return False

    def cut_loop(self, s, fr, kind, first_cond=None):
        st = self.st
        if self.phase != "discover" and not getattr(self.shared, "discovered", True):
            from .engine import NeedDiscovery

            raise NeedDiscovery()
        ordinal = fr.loop_ord.get(id(s), -1)
        key = (fr.qualname, ordinal)
        spec: LoopSpec = self.shared.loop_specs.get(key) or LoopSpec()
        self.shared.loops_seen.add(key)
        assigned = _assigned_names(s.body)
        if kind[0] == "range":
            assigned |= _assigned_names([ast.Assign(targets=[s.target], value=ast.Constant(0))])
        entry = dict(fr.vars)
        it = None
        lo = hi = None
        if kind[0] == "range":
            lo, hi = kind[1], kind[2]
            it = lo
        discover = self.phase == "discover"
        L = LoopCtx(self, fr, entry, it=it, lo=lo, hi=hi, key=key)
        L.heap_entry = {n: dict(o.fields) for n, o in self.heap.items() if isinstance(o, Obj)}
        tag = f"{_short(fr.qualname)}.loop{ordinal}"
        # (i) invariant on entry
        if not discover:
            self._check_inv(spec, L, tag, "entry")
        # (ii) havoc
        self._havoc_for_loop(key, fr, assigned, spec, discover)
        if kind[0] == "range":
            it = st.fresh_sym("it", INT)
            st.assume(C.compare(">=", it, lo))
            # it <= max(lo, hi)
            st.assume(z3.Or(C.as_bool(C.compare("<=", it, hi)), C.as_bool(C.compare("==", it, lo))))
            L.it = it
            # Python: after k >= 1 iterations the loop variable holds the last
            # value it was given (it - 1); with zero iterations it keeps its
            # previous binding.  Exact when the body does not rebind it.
            if isinstance(s.target, ast.Name) and s.target.id not in _assigned_names(s.body):
                t = s.target.id
                prev = entry.get(t, UNBOUND)
                last = C.binop("-", it, 1)
                if prev is UNBOUND or prev is None or not isinstance(prev, (int, Sym)) or isinstance(prev, bool):
                    fr.vars[t] = last
                else:
                    fr.vars[t] = C.ite(C.compare(">", it, lo), last, prev)
        if getattr(spec, "opaque_lists", False):
            # python lists the body appends to: contents unknown at an arbitrary iteration (and after the loop)
            for name in sorted(_appended_names(s.body)):
                if isinstance(fr.vars.get(name), list) and not isinstance(fr.vars[name], C.OpaqueList):
                    fr.vars[name] = C.OpaqueList()
        if not discover:
            self._assume_inv(spec, L, tag)
        # (iii) condition
        self.loop_stack.append(key)
        try:
            if kind[0] == "range":
                go = st.branch(C.as_bool(C.compare("<", it, hi)))
            else:
                go = self.truth(self.eval(s.test, fr))
            if go:
                if kind[0] == "range":
                    self.assign(s.target, kind[3](it) if len(kind) > 3 else it, fr)
                broke = False
                try:
                    self.exec_block(s.body, fr)
                except BreakEx:
                    broke = True
                except ContinueEx:
                    pass
                if broke:
                    return
                if kind[0] == "range":
                    L.it = C.binop("+", it, 1)
                if not discover:
                    self._check_inv(spec, L, tag, "preserved")
                    raise PathEnd("loop back edge")
                else:
                    # discovery: everything may change again, then leave
                    self._havoc_for_loop(key, fr, assigned, spec, True)
                    if kind[0] != "range":
                        c2 = self.eval(s.test, fr)
                        if self.truth(c2):
                            raise PathEnd("discover: still looping")
            self.exec_block(s.orelse, fr)
        finally:
            self.loop_stack.pop()

    def _check_inv(self, spec, L, tag, when):
        if spec.inv is not None:
            for name, z in spec.inv(L):
                self.st.oblige(f"{tag}.inv.{when}.{name}", z, assume_after=False)
        if getattr(spec, "qinv", None) is not None:
            # Skolemised goal over the CURRENT values; assuming it afterwards is sound (same values)
            for name, sorts, fn in spec.qinv(L):
                self.st.oblige_forall(f"{tag}.inv.{when}.{name}", sorts, fn, hint="q")
        if spec.cand is not None:
            alive = self.shared.houdini.setdefault(L.key, None)
            if when == "entry":
                L.checked_at_entry = set()
            for name, z in spec.cand(L):
                self.shared.all_cands.setdefault(L.key, set()).add(name)
                if alive is not None and name not in alive:
                    continue
                if when == "entry":
                    L.checked_at_entry.add(name)
                elif name not in getattr(L, "checked_at_entry", ()):
                    continue
                from .state import prove

                zz = z3.simplify(C.as_bool(z))
                if z3.is_true(zz):
                    continue
                # spec.cand_qfacts = False: scalar candidates are checked without the quantified
                # hypotheses (fewer hypotheses: sound, and much cheaper when array invariants are around)
                qf = self.st.qfacts if getattr(spec, "cand_qfacts", True) else []
                v, *_ = prove(self.st.pc, qf, zz, extra_pool=self.st.pool, timeout_ms=5000)
                if v != "unsat":
                    self.shared.houdini_dead.setdefault(L.key, set()).add(name)

    def _assume_inv(self, spec, L, tag):
        if spec.inv is not None:
            for name, z in spec.inv(L):
                self.st.assume(z)
        if getattr(spec, "qinv", None) is not None:
            for name, sorts, fn in spec.qinv(L):
                self.st.assume_forall(sorts, fn, f"{tag}.inv.{name}")
        if spec.cand is not None:
            alive = self.shared.houdini.get(L.key)
            for name, z in spec.cand(L):
                if alive is not None and name not in alive:
                    continue
                if name in self.shared.houdini_dead.get(L.key, ()):
                    continue
                if name not in getattr(L, "checked_at_entry", ()):
                    # a candidate that was not checked on entry must not be assumed
                    self.shared.houdini_dead.setdefault(L.key, set()).add(name)
                    continue
                self.st.assume(z)

    def _havoc_for_loop(self, key, fr, assigned, spec, discover):
        st = self.st
        for name in sorted(assigned):
            if name in fr.vars and name not in spec.keep:
                fr.vars[name] = self.havoc_value(fr.vars[name], name)
        if discover:
            targets = [(o, None) for o in list(self.heap.values())]
        else:
            ws = self.shared.writesets.get(key, set())
            targets = []
            for (oname, field) in sorted(ws, key=str):
                o = self.heap.get(oname)
                if o is not None:
                    targets.append((o, field))
        for o, field in targets:
            self.havoc_heap(o, field)
        if spec.havoc_extra:
            spec.havoc_extra(self, fr)

    def havoc_heap(self, o, field):
        if isinstance(o, NDArr):
            if field in (None, "data"):
                o.data = self.st.fresh(f"{_short(o.name)}.data", o.data.sort())
            return
        if isinstance(o, Obj):
            h = self.shared.lib.havoc_hook(self, o, field)
            if h is not NotImplemented:
                return
            names = list(o.fields) if field is None else [field]
            for f in names:
                if f in o.fields:
                    o.fields[f] = self.havoc_value(o.fields[f], f"{_short(o.name)}.{f}")

    def havoc_value(self, v, name):
        from .tensor import Tensor

        st = self.st
        if isinstance(v, bool):
            return st.fresh_sym(name, BOOL)
        if isinstance(v, int):
            return st.fresh_sym(name, INT)
        if isinstance(v, (Fraction, float)):
            return st.fresh_sym(name, REAL)
        if isinstance(v, Sym):
            return st.fresh_sym(name, v.z.sort(), gdeps=v.gdeps)
        if isinstance(v, Tensor):
            return v.havoc(st, name)
        h = self.shared.lib.havoc_value_hook(self, v, name)
        if h is not NotImplemented:
            return h
        # references, None, containers: kept (see DESIGN 3.4 assumptions)
        return v


def _short(q):
    return q.replace("rl_blox.", "")


def _is_struct_base(bases):
    return any(isinstance(b, str) and b.endswith(("struct.PyTreeNode", "NamedTuple")) for b in bases)


def _handler_matches(tnode, exc_type):
    names = []
    if isinstance(tnode, ast.Tuple):
        for e in tnode.elts:
            names.append(e.attr if isinstance(e, ast.Attribute) else getattr(e, "id", "?"))
    else:
        names.append(tnode.attr if isinstance(tnode, ast.Attribute) else getattr(tnode, "id", "?"))
    if "Exception" in names or "BaseException" in names:
        return True
    return exc_type in names


def _appended_names(stmts):
    """names X with a call `X.append(...)` in a statement list (nested defs excluded)"""
    out = set()
    for s in stmts:
        for n in ast.walk(s):
            if isinstance(n, ast.Call) and isinstance(n.func, ast.Attribute) and n.func.attr == "append" and isinstance(n.func.value, ast.Name):
                out.add(n.func.value.id)
    return out


def _comp_elt_ok(node):
    """element expression of a comprehension over a symbolic range: pure, or itself a
    comprehension `[elt for x in range(pure...)]` of such an element (nested tables)"""
    if _is_pure(node):
        return True
    if isinstance(node, ast.ListComp) and len(node.generators) == 1:
        g = node.generators[0]
        it = g.iter
        return (not g.ifs and isinstance(g.target, ast.Name) and isinstance(it, ast.Call) and isinstance(it.func, ast.Name)
                and it.func.id == "range" and not it.keywords and all(_is_pure(a) for a in it.args) and _comp_elt_ok(node.elt))
    return False


def _is_pure_minmax(node):
    """pure except for calls of the builtins max / min on pure arguments"""
    for n in ast.walk(node):
        if isinstance(n, ast.Call):
            if not (isinstance(n.func, ast.Name) and n.func.id in ("max", "min") and not n.keywords):
                return False
        elif isinstance(n, (ast.NamedExpr, ast.Await, ast.Yield, ast.YieldFrom)):
            return False
    return True


def _is_pure(node):
    for n in ast.walk(node):
        if isinstance(n, (ast.Call, ast.NamedExpr, ast.Await, ast.Yield, ast.YieldFrom)):
            return False
    return True


_OPS = {
    ast.Add: "+", ast.Sub: "-", ast.Mult: "*", ast.Div: "/", ast.FloorDiv: "//",
    ast.Mod: "%", ast.Pow: "**", ast.BitAnd: "&", ast.BitOr: "|", ast.MatMult: "@",
}
_UOPS = {ast.USub: "-", ast.UAdd: "+", ast.Invert: "~"}
_CMP = {
    ast.Lt: "<", ast.LtE: "<=", ast.Gt: ">", ast.GtE: ">=", ast.Eq: "==",
    ast.NotEq: "!=", ast.Is: "is", ast.IsNot: "is not",
}
