"""Effect clause `no_shared_mutable_state` for C09 (hidden process-global state).

"No result depends on ... " anything but seed, initial state and environment: a
mutable object created ONCE per process (a class-level attribute, a module-level
global) and mutated by the training code makes the second run in the same
process start from the first run's leftovers.  Two syntactic rules over the
real AST (no execution, same style as pyvc/effects.py):

  (S1) class attribute  `a = V`  at class level, V not provably immutable
       (constant / None / tuple of constants / `field(...)` are immutable;
       list / dict / set displays and comprehensions, calls of list, dict, set,
       deque, OrderedDict, defaultdict, Counter, bytearray, numpy constructors
       and any other call are not), is a violation iff
         - the class's own `__init__` does not unconditionally rebind `self.a`
           (so instances share the class-level object), AND
         - some function of the package mutates an attribute of that name in
           place (`x.a.append/extend/insert/pop/remove/clear/update/add/discard/
           setdefault/popitem/sort/reverse/appendleft/popleft(...)`,
           `x.a[...] = ...`, `x.a[...] op= ...`, `x.a op= ...`, `del x.a[...]`).
  (S2) module-level name `g = V` (same immutability test) is a violation iff a
       function of that module declares `global g` and assigns it, or mutates
       `g` / `g[...]` in place while `g` is not a local of that function.

Every class-level attribute with a value and every module-level assignment
produces one obligation (ok / failed with file:line), so the count is never
zero on a tree that has such state.
"""
import ast
import os

MUTATORS = {"append", "extend", "insert", "pop", "remove", "clear", "update", "add", "discard", "setdefault", "popitem", "sort",
            "reverse", "appendleft", "popleft", "extendleft", "rotate", "fill", "put", "resize", "itemset"}
IMMUTABLE_CALLS = {"field", "frozenset", "tuple", "int", "float", "str", "bool", "bytes", "complex", "namedtuple", "TypeVar",
                   "variance_scaling", "normal", "uniform", "constant", "zeros_init", "ones_init", "orthogonal", "lecun_normal",
                   "he_normal", "glorot_uniform", "xavier_uniform", "getLogger", "compile"}


def _immutable(v):
    if v is None or isinstance(v, ast.Constant):
        return True
    if isinstance(v, ast.UnaryOp):
        return _immutable(v.operand)
    if isinstance(v, ast.BinOp):
        return _immutable(v.left) and _immutable(v.right)
    if isinstance(v, ast.Tuple):
        return all(_immutable(e) for e in v.elts)
    if isinstance(v, (ast.Name, ast.Attribute, ast.Lambda)):
        return True  # an alias of something defined elsewhere (functions, classes, constants); judged where it is defined
    if isinstance(v, ast.Call):
        f = v.func
        name = f.attr if isinstance(f, ast.Attribute) else (f.id if isinstance(f, ast.Name) else "")
        return name in IMMUTABLE_CALLS
    return False


def _attr_chain_root(e):
    """x.a[...][...] / x.a  ->  ('attr', 'a') ; g[...]/g -> ('name', 'g')"""
    while isinstance(e, ast.Subscript):
        e = e.value
    if isinstance(e, ast.Attribute):
        return ("attr", e.attr)
    if isinstance(e, ast.Name):
        return ("name", e.id)
    return None


def _mutations(fn):
    """(kind, name, lineno) of every in-place mutation inside a function body"""
    out = []
    for n in ast.walk(fn):
        if isinstance(n, ast.Call) and isinstance(n.func, ast.Attribute) and n.func.attr in MUTATORS:
            r = _attr_chain_root(n.func.value)
            if r:
                out.append((r[0], r[1], n.lineno))
        elif isinstance(n, (ast.Assign, ast.AugAssign, ast.AnnAssign)):
            targets = n.targets if isinstance(n, ast.Assign) else [n.target]
            for t in targets:
                for tt in (t.elts if isinstance(t, (ast.Tuple, ast.List)) else [t]):
                    if isinstance(tt, ast.Subscript):
                        r = _attr_chain_root(tt)
                        if r:
                            out.append((r[0], r[1], n.lineno))
                    elif isinstance(n, ast.AugAssign) and isinstance(tt, ast.Attribute):
                        out.append(("attr", tt.attr, n.lineno))
        elif isinstance(n, ast.Delete):
            for t in n.targets:
                if isinstance(t, ast.Subscript):
                    r = _attr_chain_root(t)
                    if r:
                        out.append((r[0], r[1], n.lineno))
    return out


def _locals_of(fn):
    names = {a.arg for a in fn.args.args + fn.args.kwonlyargs + fn.args.posonlyargs}
    if fn.args.vararg:
        names.add(fn.args.vararg.arg)
    if fn.args.kwarg:
        names.add(fn.args.kwarg.arg)
    globs = set()
    for n in ast.walk(fn):
        if isinstance(n, ast.Global):
            globs |= set(n.names)
        elif isinstance(n, ast.Name) and isinstance(n.ctx, ast.Store):
            names.add(n.id)
    return names - globs, globs


def analyse_sources(sources):
    """sources: {relpath: text}.  Returns list of dict(module, owner, name, line, verdict, detail)"""
    trees = {}
    for rel, src in sources.items():
        try:
            trees[rel] = ast.parse(src)
        except SyntaxError:
            continue
    # every in-place mutation of an attribute name anywhere in the package
    attr_mut = {}
    for rel, t in trees.items():
        for fn in [n for n in ast.walk(t) if isinstance(n, (ast.FunctionDef, ast.AsyncFunctionDef))]:
            for kind, name, line in _mutations(fn):
                if kind == "attr":
                    attr_mut.setdefault(name, []).append(f"{rel}:{line}")
    out = []
    for rel, t in trees.items():
        mod = rel[:-3].replace("/", ".")
        # (S1)
        for cls in [n for n in ast.walk(t) if isinstance(n, ast.ClassDef)]:
            init = next((s for s in cls.body if isinstance(s, ast.FunctionDef) and s.name == "__init__"), None)
            rebound = set()
            if init is not None:
                for s in init.body:  # unconditional top-level statements only
                    if isinstance(s, (ast.Assign, ast.AnnAssign)):
                        for tg in (s.targets if isinstance(s, ast.Assign) else [s.target]):
                            if isinstance(tg, ast.Attribute) and isinstance(tg.value, ast.Name) and tg.value.id == "self" and getattr(s, "value", 1) is not None:
                                rebound.add(tg.attr)
            for s in cls.body:
                if isinstance(s, (ast.Assign, ast.AnnAssign)) and getattr(s, "value", None) is not None:
                    for tg in (s.targets if isinstance(s, ast.Assign) else [s.target]):
                        if not isinstance(tg, ast.Name):
                            continue
                        a = tg.id
                        rec = dict(module=mod, owner=cls.name, name=a, line=s.lineno, rel=rel)
                        if _immutable(s.value) or a in rebound or a not in attr_mut:
                            rec.update(verdict="ok", detail="")
                        else:
                            rec.update(verdict="failed", detail=f"{rel}:{s.lineno}: class attribute `{cls.name}.{a} = {ast.unparse(s.value)[:60]}` is ONE mutable object "
                                                                 f"shared by every instance (not rebound in __init__) and mutated in place at {', '.join(attr_mut[a][:3])}: "
                                                                 "hidden process-global state - a second run in the same process starts from the first run's contents")
                        out.append(rec)
        # (S2)
        mod_names = {}
        for s in t.body:
            if isinstance(s, (ast.Assign, ast.AnnAssign)) and getattr(s, "value", None) is not None:
                for tg in (s.targets if isinstance(s, ast.Assign) else [s.target]):
                    if isinstance(tg, ast.Name):
                        mod_names[tg.id] = s
        hits = {}
        for fn in [n for n in ast.walk(t) if isinstance(n, (ast.FunctionDef, ast.AsyncFunctionDef))]:
            loc, globs = _locals_of(fn)
            for g in globs:
                if any(isinstance(n, ast.Name) and n.id == g and isinstance(n.ctx, ast.Store) for n in ast.walk(fn)):
                    hits.setdefault(g, []).append(f"{rel}:{fn.lineno} (`global {g}` assigned in {fn.name})")
            for kind, name, line in _mutations(fn):
                if kind == "name" and name in mod_names and name not in loc:
                    hits.setdefault(name, []).append(f"{rel}:{line} (mutated in {fn.name})")
        for g, s in mod_names.items():
            rec = dict(module=mod, owner="<module>", name=g, line=s.lineno, rel=rel)
            if g in hits and (not _immutable(s.value) or any("global" in h for h in hits[g])):
                rec.update(verdict="failed", detail=f"{rel}:{s.lineno}: module-level `{g}` is process-global state changed at {', '.join(hits[g][:3])}")
            else:
                rec.update(verdict="ok", detail="")
            out.append(rec)
    return out


def analyse_root(root, package="rl_blox"):
    sources = {}
    base = os.path.join(root, package)
    for d, _dirs, files in os.walk(base):
        for f in files:
            if f.endswith(".py"):
                p = os.path.join(d, f)
                sources[os.path.relpath(p, root)] = open(p).read()
    return analyse_sources(sources)


CANARY_SRC = {
    "canary_pkg/m.py": "class Bandit:\n    history: list = []\n    total: float = 0.0\n\n    def __init__(self, n):\n        self.n = n\n\n"
                       "    def tell(self, r):\n        self.history.append(r)\n\n_cache = {}\n\ndef remember(k, v):\n    _cache[k] = v\n",
}


def run_canary():
    """the synthetic module above must be flagged twice (class attribute `history`, module global `_cache`) and `total` must not"""
    res = analyse_sources(CANARY_SRC)
    bad = {(r["owner"], r["name"]) for r in res if r["verdict"] == "failed"}
    return bad == {("Bandit", "history"), ("<module>", "_cache")}


if __name__ == "__main__":
    import sys

    for r in analyse_root(sys.argv[1] if len(sys.argv) > 1 else "/repo"):
        print(r["verdict"], r["module"], r["owner"], r["name"], r["detail"][:200])
    print("canary ok:", run_canary())
