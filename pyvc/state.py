"""Per-path state, obligations and their discharge (z3 primary, cvc5 second)."""
from __future__ import annotations

import os
import subprocess
import tempfile
import time

import z3

from .core import (
    BOOL,
    INT,
    REAL,
    PathEnd,
    Sym,
    Unsupported,
    as_bool,
    to_z3,
)

Z3_TIMEOUT_MS = int(os.environ.get("PYVC_Z3_TIMEOUT_MS", "40000"))
BRANCH_TIMEOUT_MS = int(os.environ.get("PYVC_BRANCH_TIMEOUT_MS", "2000"))
CVC5_TIMEOUT_S = int(os.environ.get("PYVC_CVC5_TIMEOUT_S", "45"))
CVC5_BIN = "/usr/bin/cvc5"


class QFact:
    """Universally quantified hypothesis  forall vars. fn(*vars)  given as a
    python function from z3 terms to a z3 Bool; ground-instantiated over the
    term pool at discharge time (DESIGN 3.5)."""

    def __init__(self, sorts, fn, name="", guard_int_range=None, triggers=None):
        self.sorts = list(sorts)
        self.fn = fn
        self.name = name
        # triggers: per variable, the name of an uninterpreted function whose
        # argument terms (plus Skolem constants) are the only instantiation
        # candidates for that variable (E-matching style; None = whole pool)
        self.triggers = triggers

    def instantiate(self, *terms):
        return as_bool(self.fn(*terms))

    def as_forall(self, tag):
        vs = [z3.Const(f"q!{tag}!{i}", s) for i, s in enumerate(self.sorts)]
        return z3.ForAll(vs, self.instantiate(*vs))


class ObligationResult:
    def __init__(self, name, verdict, backend, seconds, detail=None, model=None,
                 smt2=None, path=None):
        self.name = name
        self.verdict = verdict  # 'discharged' | 'failed' | 'undecided'
        self.backend = backend
        self.seconds = seconds
        self.detail = detail
        self.model = model  # dict name -> str for failed
        self.smt2 = smt2
        self.path = path

    def to_json(self):
        d = dict(name=self.name, verdict=self.verdict, backend=self.backend,
                 seconds=round(self.seconds, 4))
        if self.detail:
            d["detail"] = self.detail
        if self.model is not None:
            d["model"] = self.model
        return d


class Stats:
    def __init__(self):
        self.solver_time = 0.0
        self.queries = 0
        self.branch_queries = 0
        self.cvc5_queries = 0


STATS = Stats()


def _index_terms(exprs, limit=400, want=("Int",)):
    """Collect Int-sorted terms that occur as arguments of uninterpreted
    functions or as array indices: the ground-instantiation pool."""
    seen = set()
    pool = []
    pool_ids = set()

    def add(t):
        if str(t.sort()) not in want:
            return
        k = t.get_id()
        if k in pool_ids:
            return
        pool_ids.add(k)
        pool.append(t)

    stack = list(exprs)
    while stack and len(seen) < 200000:
        e = stack.pop()
        k = e.get_id()
        if k in seen:
            continue
        seen.add(k)
        if z3.is_quantifier(e):
            continue
        if z3.is_app(e):
            dk = e.decl().kind()
            ch = e.children()
            if dk == z3.Z3_OP_UNINTERPRETED and ch:
                for c in ch:
                    add(c)
            elif dk == z3.Z3_OP_SELECT:
                add(ch[1])
            elif dk == z3.Z3_OP_STORE:
                add(ch[1])
            stack.extend(ch)
    return pool[:limit]


_THEORY_APPS = {}


def _theory_apps(top, AXIOMS):
    """(name, application) of every axiomatised function application inside `top`"""
    hit = _THEORY_APPS.get(top.get_id())
    if hit is not None:
        return hit[1]
    # cheap pre-filter on the printed term (C level): most ground instances mention no axiomatised function
    txt = top.sexpr()
    if "(pow " not in txt and not any(("(" + nm + " ") in txt for nm in AXIOMS):
        return ()
    found = []
    seen = set()
    stack = [top]
    while stack:
        e = stack.pop()
        k = e.get_id()
        if k in seen:
            continue
        seen.add(k)
        if z3.is_quantifier(e):
            stack.append(e.body())
            continue
        if z3.is_app(e):
            if e.decl().kind() == z3.Z3_OP_UNINTERPRETED and e.num_args() > 0:
                nm = e.decl().name()
                if nm in AXIOMS or nm == "pow":
                    found.append((nm, e))
            stack.extend(e.children())
    if len(_THEORY_APPS) > 200000:
        _THEORY_APPS.clear()
    _THEORY_APPS[top.get_id()] = (top, found)
    return found


def theory_axioms(exprs, max_pairs=60):
    """Point axioms for the uninterpreted real functions (exp, log, sqrt, tanh,
    ... : tensor.AXIOMS) and the real power function, generated for exactly
    the applications that occur in the query (assumed library contracts)."""
    from .tensor import AXIOMS

    # the applications found in one top-level formula are memoised (the formula is
    # pinned in the cache, so its id stays unique): path conditions are re-traversed
    # at every branch otherwise
    seen = set()
    apps = {}
    for top in exprs:
        for nm, e in _theory_apps(top, AXIOMS):
            k = e.get_id()
            if k not in seen:
                seen.add(k)
                apps.setdefault(nm, []).append(e)
    out = []
    for nm, lst in apps.items():
        if nm == "pow":
            for y in lst:
                x, a = y.arg(0), y.arg(1)
                if any(z3.is_var(c) for c in (x, a)) or _has_var(y):
                    continue
                out += [z3.Implies(x > 0, y > 0), z3.Implies(z3.And(x == 0, a > 0), y == 0),
                        z3.Implies(z3.And(x >= 0, a > 0), y >= 0), z3.Implies(a == 0, y == 1),
                        z3.Implies(a == 1, y == x), z3.Implies(x == 1, y == 1)]
            ground = [y for y in lst if not _has_var(y)]
            if len(ground) <= max_pairs:
                for i in range(len(ground)):
                    for j in range(i + 1, len(ground)):
                        y1, y2 = ground[i], ground[j]
                        if not z3.eq(y1.arg(1), y2.arg(1)):
                            continue
                        x1, x2, a = y1.arg(0), y2.arg(0), y1.arg(1)
                        out += [z3.Implies(z3.And(x1 >= 0, x2 >= 0, a >= 0, x1 <= x2), y1 <= y2),
                                z3.Implies(z3.And(x1 >= 0, x2 >= 0, a >= 0, x2 <= x1), y2 <= y1),
                                z3.Implies(z3.And(x1 > 0, x2 > 0, a <= 0, x1 <= x2), y1 >= y2),
                                z3.Implies(z3.And(x1 > 0, x2 > 0, a <= 0, x2 <= x1), y2 >= y1)]
            continue
        ax = AXIOMS[nm]
        ground = [y for y in lst if not _has_var(y)]
        for y in ground:
            out += list(ax(y.arg(0), y))
        mono = MONOTONE.get(nm)
        if mono and len(ground) <= max_pairs:
            for i in range(len(ground)):
                for j in range(i + 1, len(ground)):
                    y1, y2 = ground[i], ground[j]
                    x1, x2 = y1.arg(0), y2.arg(0)
                    if mono == "strict_pos":
                        # strictly increasing on the positive axis only (log): guarded by 0 < x
                        out += [z3.Implies(z3.And(x1 > 0, x1 <= x2), y1 <= y2), z3.Implies(z3.And(x2 > 0, x2 <= x1), y2 <= y1),
                                z3.Implies(z3.And(x1 > 0, x1 < x2), y1 < y2), z3.Implies(z3.And(x2 > 0, x2 < x1), y2 < y1)]
                        continue
                    out += [z3.Implies(x1 <= x2, y1 <= y2), z3.Implies(x2 <= x1, y2 <= y1)]
                    if mono == "strict":
                        out += [z3.Implies(x1 < x2, y1 < y2), z3.Implies(x2 < x1, y2 < y1)]
    return out


MONOTONE = {"exp": "strict", "log": "strict_pos", "tanh": "strict", "sigmoid": "strict", "softplus": "strict", "sqrt": None}


def _has_var(e):
    seen = set()
    stack = [e]
    while stack:
        x = stack.pop()
        if x.get_id() in seen:
            continue
        seen.add(x.get_id())
        if z3.is_var(x):
            return True
        if z3.is_app(x):
            stack.extend(x.children())
    return False


SLOT = z3.Function("slot", INT, INT)


def slot_rewrite(formulas, N):
    """replace every normalisable  X mod N  by slot(a + c) (so that the solver
    never has to reason about `mod` with a symbolic modulus) and return the
    rewritten formulas plus the range facts of the slot applications"""
    facts_all = []
    for _ in range(4):
        facts, subs = slot_axioms(formulas, N, want_subs=True)
        subs = [(a, b) for a, b in subs if not z3.eq(a, b)]
        if not subs:
            facts_all = [f for f in facts if not (z3.is_eq(f) and f.arg(0).decl().kind() == z3.Z3_OP_MOD)]
            break
        formulas = [z3.substitute(f, *subs) for f in formulas]
    facts, _ = slot_axioms(formulas, N, want_subs=True)
    return formulas, [f for f in facts if not _mentions_mod(f, N)]


def _mentions_mod(f, N):
    seen = set()
    stack = [f]
    while stack:
        e = stack.pop()
        if e.get_id() in seen:
            continue
        seen.add(e.get_id())
        if z3.is_app(e):
            if e.decl().kind() == z3.Z3_OP_MOD and z3.eq(e.arg(1), N):
                return True
            stack.extend(e.children())
    return False


def slot_axioms(exprs, N, want_subs=False):
    """Ring-buffer index normalisation (DESIGN 3.5 item 3).  slot(a) stands for
    a mod N; every term  X mod N  in the query whose X is  slot(a) + c  (or
    such a mod term again) is equated with slot(a + c), and every slot
    application gets its range fact.  Justified by the three lemmas
    range / shift / (injectivity is a quantified fact of the contract), which
    are proved on raw `mod` for symbolic N >= 1 in the property's lemma tasks."""
    out = []
    seen = set()
    mods = []
    slots = []
    stack = list(exprs)
    while stack:
        e = stack.pop()
        k = e.get_id()
        if k in seen:
            continue
        seen.add(k)
        if z3.is_quantifier(e):
            continue
        if z3.is_app(e):
            if e.decl().kind() == z3.Z3_OP_MOD and z3.eq(e.arg(1), N):
                mods.append(e)
            elif e.decl().kind() == z3.Z3_OP_UNINTERPRETED and e.decl().name() == "slot":
                slots.append(e)
            stack.extend(e.children())
    memo = {}

    def row_of(t):
        """row expression r with t == slot(r), for t a slot application or a normalisable mod term"""
        if t.get_id() in memo:
            return memo[t.get_id()]
        r = None
        if z3.is_app(t) and t.decl().kind() == z3.Z3_OP_UNINTERPRETED and t.decl().name() == "slot":
            r = t.arg(0)
        elif z3.is_app(t) and t.decl().kind() == z3.Z3_OP_MOD and z3.eq(t.arg(1), N):
            X = t.arg(0)
            parts = _addends(X)
            hit = None
            for i, (coef, term) in enumerate(parts):
                if coef == 1 and row_of(term) is not None:
                    hit = i
                    break
            if hit is not None:
                base = row_of(parts[hit][1])
                rest = [c * x if c != 1 else x for j, (c, x) in enumerate(parts) if j != hit]
                r = z3.simplify(base + sum(rest)) if rest else base
                out.append(t == SLOT(r))
                out.append(z3.And(SLOT(r) >= 0, SLOT(r) < N))
        memo[t.get_id()] = r
        return r

    subs = []
    for m in mods:
        r = row_of(m)
        if r is not None:
            subs.append((m, SLOT(r)))
    for sl in slots:
        out.append(z3.And(sl >= 0, sl < N))
    if want_subs:
        return out, subs
    return out


def _addends(X):
    """X as a list of (integer coefficient, term)"""
    if z3.is_app(X) and X.decl().kind() == z3.Z3_OP_ADD:
        out = []
        for c in X.children():
            out.extend(_addends(c))
        return out
    if z3.is_app(X) and X.decl().kind() == z3.Z3_OP_SUB:
        ch = X.children()
        out = _addends(ch[0])
        for c in ch[1:]:
            out.extend([(-k, t) for k, t in _addends(c)])
        return out
    if z3.is_app(X) and X.decl().kind() == z3.Z3_OP_UMINUS:
        return [(-k, t) for k, t in _addends(X.arg(0))]
    if z3.is_app(X) and X.decl().kind() == z3.Z3_OP_MUL and X.num_args() == 2 and z3.is_int_value(X.arg(0)):
        return [(X.arg(0).as_long() * k, t) for k, t in _addends(X.arg(1))]
    if z3.is_int_value(X):
        return [(X.as_long(), z3.IntVal(1))]
    return [(1, X)]


SLOT_N = {"N": None}


def _trigger_args(exprs, names):
    out = {n: [] for n in names}
    ids = {n: set() for n in names}
    seen = set()
    stack = list(exprs)
    while stack:
        e = stack.pop()
        if e.get_id() in seen:
            continue
        seen.add(e.get_id())
        if z3.is_quantifier(e):
            continue
        if z3.is_app(e):
            if e.decl().kind() == z3.Z3_OP_UNINTERPRETED and e.num_args() > 0 and e.decl().name() in out:
                for c in e.children():
                    if c.get_id() not in ids[e.decl().name()]:
                        ids[e.decl().name()].add(c.get_id())
                        out[e.decl().name()].append(c)
            stack.extend(e.children())
    return out


def _instantiate(qfacts, pool_by_sort, cap=4000, trig_args=None, skolems=()):
    out = []
    for q in qfacts:
        lists = []
        ok = True
        for vi, s in enumerate(q.sorts):
            lst = pool_by_sort.get(str(s), [])
            if q.triggers and trig_args is not None and q.triggers[vi]:
                lst = list(skolems) + trig_args.get(q.triggers[vi], [])
                seen_ids = set()
                lst = [t for t in lst if str(t.sort()) == str(s) and not (t.get_id() in seen_ids or seen_ids.add(t.get_id()))]
            if not lst:
                ok = False
                break
            lists.append(lst)
        if not ok:
            continue
        import itertools

        n = 1
        for lst in lists:
            n *= len(lst)
        if n > cap:
            # trim pools evenly
            k = max(1, int(cap ** (1.0 / len(lists))))
            lists = [lst[:k] for lst in lists]
        for combo in itertools.product(*lists):
            try:
                out.append(q.instantiate(*combo))
            except z3.Z3Exception:
                pass
    return out


def run_cvc5(smt2_text, timeout_s=CVC5_TIMEOUT_S):
    with tempfile.NamedTemporaryFile("w", suffix=".smt2", delete=False) as f:
        f.write("(set-logic ALL)\n")
        f.write(smt2_text)
        f.write("\n(check-sat)\n")
        path = f.name
    try:
        t0 = time.time()
        p = subprocess.run(
            [CVC5_BIN, f"--tlimit={timeout_s * 1000}", path],
            capture_output=True, text=True, timeout=timeout_s + 5,
        )
        out = p.stdout.strip().splitlines()
        STATS.cvc5_queries += 1
        STATS.solver_time += time.time() - t0
        if out and out[0] in ("sat", "unsat", "unknown"):
            return out[0]
        return "unknown"
    except Exception:
        return "unknown"
    finally:
        os.unlink(path)


def _ground_solve(hyps, qfacts, goal, extra_pool, timeout_ms, pool_limit, max_rounds):
    """ground instantiation with `max_rounds` closure rounds, then one solver call"""
    neg = z3.Not(goal)
    base = list(hyps) + [neg]
    ground = []
    slotN = SLOT_N["N"]
    slot_facts = []
    if slotN is not None:
        base, slot_facts = slot_rewrite(base, slotN)
    if qfacts:
        want = {"Int"}
        for q in qfacts:
            for srt in q.sorts:
                want.add(str(srt))
        want = tuple(sorted(want))
        # goal-directed order: Skolem constants and the goal's own index terms
        # first (they survive the per-fact instantiation caps)
        pool = [t for t in extra_pool] + _index_terms([base[-1]], want=want) + [z3.IntVal(0)] + _index_terms(base, want=want)
        if pool_limit:
            pool = pool[:pool_limit]
        by_sort = {}
        ids = set()
        for t in pool:
            if t.get_id() in ids:
                continue
            ids.add(t.get_id())
            by_sort.setdefault(str(t.sort()), []).append(t)
        need_trig = {t for q in qfacts if q.triggers for t in q.triggers if t}
        sk = [t for t in extra_pool]
        trig_args = _trigger_args(base, need_trig) if need_trig else None
        ground = _instantiate(qfacts, by_sort, trig_args=trig_args, skolems=sk)
        if slotN is not None:
            ground, _f = slot_rewrite(ground, slotN)
        # closure rounds: instances may mention new index terms (e.g. Skolem
        # witness functions applied to pool terms); bounded so queries stay small
        for _round in range(max_rounds):
            pool2 = _index_terms(ground, want=want)
            grew = False
            for t in pool2:
                if pool_limit:
                    break
                if t.get_id() not in ids and len(ids) < (120 if _round == 0 else 150):
                    ids.add(t.get_id())
                    by_sort.setdefault(str(t.sort()), []).append(t)
                    grew = True
            if not grew:
                break
            if need_trig:
                trig_args = _trigger_args(base + ground, need_trig)
            ground = _instantiate(qfacts, by_sort, trig_args=trig_args, skolems=sk)
            if slotN is not None:
                ground, _f = slot_rewrite(ground, slotN)
    theory = theory_axioms(base + ground)
    ground = ground + theory
    if slotN is not None:
        allf, facts = slot_rewrite(base + ground, slotN)
        base, ground = allf[: len(base)], allf[len(base):] + facts
    s = z3.Solver()
    s.set("timeout", timeout_ms)
    for h in base:
        s.add(h)
    for g in ground:
        s.add(g)
    STATS.queries += 1
    r = s.check()
    return r, s, base, ground


def prove(hyps, qfacts, goal, extra_pool=(), timeout_ms=None, want_model=True,
          both=False, quick=False, pool_limit=None):
    """Decide  hyps /\\ qfacts |- goal.

    Returns (verdict, backend, seconds, model|None, smt2).  verdict:
      'unsat'   : discharged
      'sat'     : refuted, with a model that satisfies every quantified
                  hypothesis as far as z3 can tell (full quantifiers, MBQI)
      'unknown' : undecided
    Ground instantiation is tried first (fast path); a `sat` there is only a
    candidate (instances may be missing) and is re-checked with the
    quantified hypotheses handed to z3 as they are.
    """
    timeout_ms = timeout_ms or Z3_TIMEOUT_MS
    t0 = time.time()
    for max_rounds in ((1,) if (quick or pool_limit or not qfacts) else (1, 3)):
        r, s, base, ground = _ground_solve(hyps, qfacts, goal, extra_pool, timeout_ms, pool_limit, max_rounds)
        if r == z3.unsat:
            break
    smt2 = None
    backend = "z3"
    if r == z3.unsat:
        dt = time.time() - t0
        STATS.solver_time += dt
        if both:
            r2 = run_cvc5(s.to_smt2().replace("(check-sat)", ""))
            if r2 == "sat":
                return "unknown", "z3/cvc5-disagree", dt, None, s.to_smt2()
            backend = "z3+cvc5" if r2 == "unsat" else "z3"
        return "unsat", backend, dt, None, None
    if quick:
        dt = time.time() - t0
        STATS.solver_time += dt
        return ("sat" if r == z3.sat else "unknown"), "z3", dt, None, None
    if r == z3.unknown:
        # second back end on the same text
        smt2 = s.to_smt2()
        r2 = run_cvc5(smt2.replace("(check-sat)", ""))
        if r2 == "unsat":
            dt = time.time() - t0
            STATS.solver_time += dt
            return "unsat", "cvc5", dt, None, None
        # neither solver decided it: look for a counter-model by sampling (refutes e.g. a false equality
        # between large nonlinear terms, where the solvers' model search gives up)
        m = sample_refute(base, ground, min(timeout_ms, 6000))
        dt = time.time() - t0
        STATS.solver_time += dt
        if m is not None:
            if not qfacts or _model_satisfies(m, qfacts):
                return "sat", "z3-sampled", dt, m, smt2
            return "unknown", "z3-sampled-candidate", dt, m, smt2
        return "unknown", "z3+cvc5", dt, None, smt2
    # sat
    if not qfacts:
        m = s.model()
        dt = time.time() - t0
        STATS.solver_time += dt
        return "sat", "z3", dt, m, s.to_smt2()
    # candidate model under incomplete instantiation: hand z3 the quantifiers
    s2 = z3.Solver()
    s2.set("timeout", timeout_ms)
    for h in base:
        s2.add(h)
    for g in ground:
        s2.add(g)
    for i, q in enumerate(qfacts):
        s2.add(q.as_forall(i))
    r = s2.check()
    dt = time.time() - t0
    STATS.solver_time += dt
    if r == z3.unsat:
        return "unsat", "z3-quant", dt, None, None
    if r == z3.sat:
        return "sat", "z3-quant", dt, s2.model(), s2.to_smt2()
    # MBQI gave up: accept the ground model if every quantified hypothesis evaluates to true in it
    try:
        gm = s.model()
        if _model_satisfies(gm, qfacts):
            return "sat", "z3-ground-validated", dt, gm, s.to_smt2()
    except z3.Z3Exception:
        gm = None
    return "unknown", "z3-quant", dt, gm, s.to_smt2()


def _model_satisfies(m, qfacts):
    """does the (completed) model make every quantified hypothesis true?  Only a definite `true`
    from the evaluator counts."""
    for i, q in enumerate(qfacts):
        try:
            v = m.eval(q.as_forall(f"ms{i}"), model_completion=True)
        except z3.Z3Exception:
            return False
        if not z3.is_true(v):
            return False
    return True


def sample_refute(base, ground, timeout_ms=8000, tries=2):
    """Counter-model search by sampling: fix random values for the uninterpreted leaf terms of the
    (negated) goal as SOFT constraints, keep every hypothesis hard, and let the solver complete the
    rest.  Returns a model of base+ground (so of hyps /\ not goal, at ground level) or None."""
    import random

    rnd = random.Random(12345)
    goal_neg = base[-1]
    leaves = []
    seen = set()
    stack = [goal_neg]
    while stack and len(leaves) < 400:
        e = stack.pop()
        if e.get_id() in seen:
            continue
        seen.add(e.get_id())
        if z3.is_quantifier(e):
            continue
        if z3.is_app(e):
            k = e.decl().kind()
            if k == z3.Z3_OP_UNINTERPRETED and str(e.sort()) in ("Real", "Int", "Bool"):
                leaves.append(e)
                continue  # maximal leaves only
            stack.extend(e.children())
    if not leaves:
        return None
    for _t in range(tries):
        opt = z3.Optimize()
        opt.set("timeout", int(timeout_ms))
        for h in base:
            opt.add(h)
        for g in ground:
            opt.add(g)
        for lf in leaves:
            srt = str(lf.sort())
            if srt == "Real":
                v = z3.RealVal(f"{rnd.randint(-12, 12)}/{rnd.choice((1, 2, 3, 4))}")
                opt.add_soft(lf == v)
            elif srt == "Int":
                opt.add_soft(lf == z3.IntVal(rnd.randint(0, 3)))
            else:
                opt.add_soft(lf if rnd.random() < 0.5 else z3.Not(lf))
        try:
            r = opt.check()
        except z3.Z3Exception:
            return None
        if r == z3.sat:
            return opt.model()
    return None


def feasible(hyps, timeout_ms=None):
    s = z3.Solver()
    s.set("timeout", timeout_ms or BRANCH_TIMEOUT_MS)
    for h in hyps:
        s.add(h)
    for h in theory_axioms(hyps):
        s.add(h)
    if SLOT_N["N"] is not None:
        hyps2, facts = slot_rewrite(list(hyps), SLOT_N["N"])
        s = z3.Solver()
        s.set("timeout", timeout_ms or BRANCH_TIMEOUT_MS)
        for h in hyps2 + facts + theory_axioms(hyps2):
            s.add(h)
    STATS.branch_queries += 1
    t0 = time.time()
    r = s.check()
    STATS.solver_time += time.time() - t0
    return r != z3.unsat


class PathState:
    def __init__(self, decisions=()):
        self.pc = []
        self.pc_names = {}
        self.qfacts = []
        self.pool = []
        self.decisions = list(decisions)
        self.pos = 0
        self.forks = []
        self.results = []  # ObligationResult
        self.counter = 0
        self.names = {}
        self.ghost = {}
        self.write_log = None  # set to a list to log heap writes
        self.suppress = 0  # >0: obligations not recorded (dry runs)
        self.trace = []
        self.inputs = {}  # name -> z3 const (for counter-models)
        self.notes = []
        self.sums = []  # tensor reduction nodes
        self.mode_both = False
        self.covered = set()

    # -- names ----------------------------------------------------------
    def fresh_name(self, base):
        n = self.names.get(base, 0)
        self.names[base] = n + 1
        return f"{base}!{n}" if n else base

    def fresh(self, base, sort=REAL, is_input=False):
        name = self.fresh_name(base)
        c = z3.Const(name, sort)
        if is_input:
            self.inputs[name] = c
        return c

    def fresh_sym(self, base, sort=REAL, is_input=False, gdeps=frozenset()):
        return Sym(self.fresh(base, sort, is_input), gdeps)

    # -- facts ----------------------------------------------------------
    def assume(self, z, name=None):
        """name: optional tag; a tagged fact is hidden from obligations whose
        `using` list does not select it (like a named quantified fact)"""
        z = as_bool(z)
        if z3.is_true(z):
            return
        self.pc.append(z)
        if name:
            self.pc_names[z.get_id()] = name

    def assume_forall(self, sorts, fn, name="", triggers=None):
        self.qfacts.append(QFact(sorts, fn, name, triggers=triggers))

    def add_pool(self, *terms):
        for t in terms:
            self.pool.append(to_z3(t))

    # -- branching ------------------------------------------------------
    def branch(self, cond) -> bool:
        """Decide a symbolic condition; forks the path when both sides are
        feasible (the other side is scheduled through decision replay)."""
        if isinstance(cond, bool):
            return cond
        z = as_bool(cond)
        z = z3.simplify(z)
        if z3.is_true(z):
            return True
        if z3.is_false(z):
            return False
        if self.pos < len(self.decisions):
            d = self.decisions[self.pos]
            self.pos += 1
            self.pc.append(z if d else z3.Not(z))
            return d
        t_ok = self._feasible(z)
        f_ok = self._feasible(z3.Not(z))
        if t_ok and f_ok:
            self.forks.append(self.decisions[: self.pos] + [False])
            self.decisions = self.decisions[: self.pos] + [True]
            self.pos += 1
            self.pc.append(z)
            return True
        if t_ok:
            d = True
        elif f_ok:
            d = False
        else:
            raise PathEnd("infeasible")
        self.decisions = self.decisions[: self.pos] + [d]
        self.pos += 1
        self.pc.append(z if d else z3.Not(z))
        return d

    def _feasible(self, z):
        if not feasible(self.pc + [z]):
            return False
        if not self.qfacts:
            return True
        # pruning with the quantified facts: small instantiation budget (a
        # branch wrongly kept is only extra work; obligations on it still get
        # the full hypotheses)
        v, *_ = prove(self.pc, self.qfacts, z3.Not(z), extra_pool=self.pool,
                      timeout_ms=BRANCH_TIMEOUT_MS, quick=True, pool_limit=14)
        if v == "unsat":
            return False
        if len(self.qfacts) <= 14:
            # small context: afford the full instantiation (prunes e.g. guards
            # that can only fire when a precondition is violated)
            v, *_ = prove(self.pc, self.qfacts, z3.Not(z), extra_pool=self.pool,
                          timeout_ms=2 * BRANCH_TIMEOUT_MS, quick=True)
        return v != "unsat"

    # -- obligations ----------------------------------------------------
    def oblige(self, name, goal, assume_after=True, extra_pool=(), using=None, hide=None):
        """using: optional list of name prefixes; only quantified facts whose
        name starts with one of them are handed to the solver (hiding
        hypotheses is always sound and keeps queries small)."""
        if self.suppress:
            return
        qf = self.qfacts
        pc = self.pc
        if using is not None:
            qf = [q for q in self.qfacts if any(q.name.startswith(u) for u in using)]
            if self.pc_names:
                pc = [h for h in self.pc if h.get_id() not in self.pc_names or any(self.pc_names[h.get_id()].startswith(u) for u in using)]
        if hide:
            # hide: ids of path-condition facts withheld from this obligation (e.g. the "frozen copy == parameter"
            # equalities, when the goal is an identity of FUNCTIONS of the parameters)
            pc_used = [h for h in self.pc if h.get_id() not in hide]
        else:
            pc_used = self.pc  # (named path-condition facts stay visible: only quantified facts are selected by `using`)
        z = as_bool(goal)
        z = z3.simplify(z)
        if z3.is_true(z):
            self.results.append(ObligationResult(name, "discharged", "syntactic", 0.0))
            return
        is_canary = any(part.startswith("canary") for part in name.split("."))
        verdict, backend, dt, model, smt2 = prove(
            pc_used, qf, z, extra_pool=list(self.pool) + list(extra_pool),
            both=self.mode_both and not is_canary, quick=is_canary,
        )
        if verdict != "unsat" and self.sums and not is_canary:
            from . import tensor as T

            # goal-directed first (reductions occurring in the goal), then the full closure
            for scope in (z, None):
                if T.close_sums(self, prove, goal=scope, budget_s=(None if scope is not None else 20)):
                    verdict, backend, dt2, model, smt2 = prove(
                        pc_used, qf, z, extra_pool=list(self.pool) + list(extra_pool), both=self.mode_both)
                    dt += dt2
                if verdict == "unsat":
                    break
        if is_canary and verdict in ("sat", "unknown"):
            # a canary only has to be refutable: the hypotheses' ground
            # instances are consistent with its negation
            self.results.append(ObligationResult(name, "failed", backend + "-ground", dt, detail="canary refuted (as required)", model={}))
            return
        if verdict == "unsat":
            self.results.append(ObligationResult(name, "discharged", backend, dt))
        elif verdict == "sat":
            md = self.model_dict(model)
            self.results.append(
                ObligationResult(name, "failed", backend, dt, detail=str(z)[:600],
                                 model=md, smt2=smt2, path=list(self.decisions[: self.pos]))
            )
        else:
            self.results.append(
                ObligationResult(name, "undecided", backend, dt, detail=str(z)[:600],
                                 smt2=smt2)
            )
        if os.environ.get("PYVC_TRACE"):
            print(f"[oblige] {name}: {self.results[-1].verdict} {self.results[-1].backend} {self.results[-1].seconds:.2f}s", flush=True)
        if assume_after:
            self.pc.append(z)
            self.ghost["goal_facts"] = self.ghost.get("goal_facts", 0) + 1

    def oblige_forall(self, name, sorts, fn, hint="sk", using=None):
        """forall-goal, Skolemised."""
        sks = [self.fresh(f"{hint}{i}", s) for i, s in enumerate(sorts)]
        goal = as_bool(fn(*sks))
        self.oblige(name, goal, assume_after=False, extra_pool=[t for t in sks if t.sort() == INT], using=using)
        # afterwards the universally quantified statement may be assumed
        self.assume_forall(sorts, fn, name)

    def fail(self, name, detail):
        if self.suppress:
            return
        self.results.append(ObligationResult(name, "failed", "structural", 0.0, detail=detail,
                                             model={}, path=list(self.decisions[: self.pos])))

    def ok(self, name, backend="structural"):
        if self.suppress:
            return
        self.results.append(ObligationResult(name, "discharged", backend, 0.0))

    def undecided(self, name, detail):
        if self.suppress:
            return
        self.results.append(ObligationResult(name, "undecided", "engine", 0.0, detail=detail))

    def model_dict(self, model):
        if model is None:
            return None
        out = {}
        for name, c in self.inputs.items():
            try:
                if isinstance(c, tuple) and c[0] == "tensor":
                    out[name] = self._tensor_model(model, c[1], c[2])
                    continue
                v = model.eval(c, model_completion=True)
                out[name] = str(v)
            except z3.Z3Exception:
                pass
        # also every declared constant of arity 0 (bounded)
        try:
            for d in model.decls()[:200]:
                if d.arity() == 0 and d.name() not in out:
                    out[d.name()] = str(model[d])
        except z3.Z3Exception:
            pass
        return out

    def _tensor_model(self, model, f, shape, cap=4):
        import itertools

        dims = []
        for d in shape:
            if isinstance(d, int):
                dims.append(d)
            else:
                v = model.eval(to_z3(d), model_completion=True)
                try:
                    dims.append(v.as_long())
                except Exception:
                    dims.append(cap)
        ent = {}
        for idx in itertools.product(*[range(max(0, min(d, cap))) for d in dims]):
            ent[",".join(map(str, idx))] = str(model.eval(f(*[z3.IntVal(i) for i in idx]), model_completion=True))
        return dict(shape=dims, entries=ent)

    def pc_sat(self):
        return feasible(self.pc, timeout_ms=5000)
