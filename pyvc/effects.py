"""Effect (purity / determinism) contracts, checked compositionally on the AST.

Property C09 (second sentence): no result depends on unseeded global
randomness, on time, or on the iteration order of unordered containers.

For every function F reachable from the anchor files the checker discharges
one obligation per effect clause:

  no_global_rng          no call to np.random.<fn> (global state), random.*,
                         os.urandom, uuid.*, secrets.*, unseeded default_rng(),
                         module-level Generator state
  key_discipline         every jax.random draw / split uses a key derived from a
                         parameter or from jax.random.key(seed)/split of such;
                         every NumPy draw goes through a Generator that is a
                         parameter or derives from default_rng(seed)
  no_time_dependence     time.* / datetime.* values only flow to wall-clock log
                         fields, printing and paths (intra-procedural taint)
  no_unordered_iteration no hash(str), id(), no order-exposing use of a set
                         unless its elements are ints
  calls_have_contract    every call site targets a repo function that carries
                         this contract, a library function with an assumed
                         determinism contract, or a callable parameter
                         (deterministic by precondition)

Pure `ast` pass over <root>/rl_blox; rl_blox is never imported.
"""
from __future__ import annotations

import ast
import builtins
import hashlib
import os

# --------------------------------------------------------------------------
# abstract values
# --------------------------------------------------------------------------
BOT = ("bot",)
UNK = ("unk",)
INT = ("int",)
STR = ("str",)
NONE = ("none",)
GEN = ("gen",)

NONDET = frozenset({"time", "timetext", "nondet", "unseeded", "modgen"})


class AV:
    __slots__ = ("roots", "ty")

    def __init__(self, roots=frozenset(), ty=UNK):
        self.roots = roots if isinstance(roots, frozenset) else frozenset(roots)
        self.ty = ty

    def __eq__(self, o):
        return isinstance(o, AV) and self.roots == o.roots and self.ty == o.ty

    def __hash__(self):
        return hash((self.roots, self.ty))

    def __repr__(self):
        return f"AV({sorted(self.roots)},{self.ty})"

    def with_roots(self, extra):
        return AV(self.roots | frozenset(extra), self.ty)

    def with_ty(self, ty):
        return AV(self.roots, ty)


EMPTY = AV(frozenset(), BOT)


def _depth(t):
    if not isinstance(t, tuple):
        return 0
    return 1 + max([_depth(x) for x in t[1:] if isinstance(x, tuple)] + [_depth(x.ty) for x in t[1:] if isinstance(x, AV)] + [
        _depth(y.ty) for x in t[1:] if isinstance(x, tuple) for y in x if isinstance(y, AV)] + [0])


def tjoin(a, b):
    if a == b:
        return a
    if a in (BOT, NONE):
        return b
    if b in (BOT, NONE):
        return a
    if a[0] == "set" and b[0] == "set":
        return ("set", tjoin(a[1], b[1]))
    # "may be a set" dominates every non-set kind (order: bot < none < kinds < unk < set): monotone
    if a[0] == "set":
        return a
    if b[0] == "set":
        return b
    if a[0] == "seq" and b[0] == "seq":
        return ("seq", tjoin(a[1], b[1]))
    if a[0] == "tuple" and b[0] == "tuple" and len(a[1]) == len(b[1]):
        return ("tuple", tuple(avjoin(x, y) for x, y in zip(a[1], b[1])))
    if a[0] == "fn" and b[0] == "fn":
        return ("fn", a[1] | b[1])
    if a[0] == "inst" and b[0] == "inst" and a[1] == b[1]:
        return ("inst", a[1], a[2] or b[2])
    return UNK


def avjoin(a, b):
    if a is b:
        return a
    t = tjoin(a.ty, b.ty)
    if _depth(t) > 5:
        t = UNK
    return AV(a.roots | b.roots, t)


def elem_of(t):
    if t[0] in ("set", "seq"):
        return t[1]
    if t[0] == "tuple":
        r = BOT
        for x in t[1]:
            r = tjoin(r, x.ty) if r != BOT else x.ty
        return r if t[1] else BOT
    if t == INT:
        return INT  # "int or array of ints" (numpy integer arrays are blurred with their scalars)
    if t == STR:
        return STR
    if t == BOT:
        return BOT
    return UNK


# --------------------------------------------------------------------------
# library tables (the assumed contracts)
# --------------------------------------------------------------------------
# Library roots whose functions are assumed to be functions of their arguments
# (and of the explicit key / Generator / env object they are given).
LIB_DETERMINISTIC_ROOTS = {
    "jax", "jaxlib", "numpy", "optax", "flax", "gymnasium", "gym", "tqdm", "copy", "collections", "functools",
    "dataclasses", "math", "warnings", "typing", "chex", "tensorflow_probability", "orbax", "pickle", "os",
    "contextlib", "pprint", "abc", "atexit", "matplotlib", "scipy", "aim", "itertools", "operator", "enum", "re",
    "json", "pathlib", "numbers", "types", "inspect", "logging", "sys", "io", "string", "textwrap", "typing_extensions",
    "time", "datetime", "cloudpickle", "einops",
}
NP_GLOBAL_OK = {  # attributes of numpy.random that are NOT draws from the hidden global state
    "default_rng", "Generator", "RandomState", "SeedSequence", "PCG64", "PCG64DXSM", "MT19937", "Philox", "SFC64",
    "BitGenerator",
}
NP_GEN_CTORS = {"default_rng", "RandomState", "SeedSequence", "PCG64", "PCG64DXSM", "MT19937", "Philox", "SFC64", "Generator"}
FORBIDDEN_PREFIX = ("random.", "uuid.", "secrets.")
FORBIDDEN_EXACT = {"os.urandom", "os.getrandom", "os.getpid", "os.getppid", "os.times", "random"}
UNORDERED_LISTING = {"os.listdir", "os.scandir", "glob.glob", "glob.iglob"}
TIME_OK = {"time.sleep", "time.strftime", "time.gmtime", "time.localtime", "time.struct_time", "time.strptime"}
DATETIME_NOW = {"now", "utcnow", "today", "fromtimestamp"}
JAX_KEY_MAKERS = {"key", "PRNGKey"}
JAX_KEY_DERIVE = {"split", "fold_in", "clone", "key_data", "wrap_key_data", "key_impl"}
WRAPPERS = {"partial", "jit", "vmap", "pmap", "grad", "value_and_grad", "checkpoint", "remat", "cached_partial", "wraps",
            "custom_jvp", "custom_vjp", "named_call", "scan", "lru_cache", "cache", "partialmethod"}
GEN_DRAWS = {
    "integers", "random", "choice", "bytes", "shuffle", "permutation", "permuted", "uniform", "normal", "standard_normal",
    "beta", "binomial", "exponential", "gamma", "poisson", "multivariate_normal", "laplace", "lognormal", "rand", "randn",
    "randint", "random_sample", "triangular", "dirichlet", "multinomial", "geometric", "standard_exponential", "standard_gamma",
    "standard_cauchy", "standard_t", "logistic", "gumbel", "weibull", "vonmises", "chisquare", "rayleigh", "pareto", "power",
}
GEN_INT_DRAWS = {"integers", "choice", "permutation", "randint"}
GEN_NAMES = {"rng", "np_rng", "random_state", "generator", "rs", "numpy_rng"}
LIB_INT_ATTRS = {"num_envs", "ndim", "size", "n", "start"}
LIB_INT_FUNCS = {"argmin", "argmax", "nanargmin", "nanargmax", "flatnonzero", "argsort", "arange", "searchsorted", "count_nonzero",
                 "flatdim", "prod"}
TIME_PARAM_NAMES = {"t", "time", "wallclock", "wall_time", "start_time", "timestamp", "walltime"}
PRINT_LIKE = {"print", "write", "warn", "info", "debug", "warning", "error", "log", "set_description", "set_postfix", "pprint", "pformat"}
SET_METHODS_PURE = {"add", "update", "remove", "discard", "clear", "copy", "union", "difference", "intersection",
                    "symmetric_difference", "issubset", "issuperset", "isdisjoint", "difference_update", "intersection_update",
                    "symmetric_difference_update", "__contains__"}
ORDER_INSENSITIVE_BUILTINS = {"len", "set", "frozenset", "any", "all", "isinstance", "bool", "type", "print", "repr", "str", "id", "hasattr"}
CLAUSES = ("no_global_rng", "key_discipline", "no_time_dependence", "no_unordered_iteration", "calls_have_contract")
ANCHOR_FILES = ("rl_blox/blox/replay_buffer.py", "rl_blox/blox/multitask.py", "rl_blox/blox/mapb.py")
ANCHOR_DIRS = ("rl_blox/algorithm/",)
BUILTIN_NAMES = set(dir(builtins))


# --------------------------------------------------------------------------
# program index
# --------------------------------------------------------------------------
class FuncInfo:
    def __init__(self, qual, node, module, cls=None, parent=None, kind="def"):
        self.qual = qual
        self.node = node
        self.module = module
        self.cls = cls
        self.parent = parent
        self.kind = kind  # def | module | classbody
        self.nested = {}
        self.is_static = False
        self.is_classmethod = False
        self.is_property = False
        if kind == "def":
            for d in node.decorator_list:
                s = ast.unparse(d)
                if s == "staticmethod":
                    self.is_static = True
                elif s == "classmethod":
                    self.is_classmethod = True
                elif s == "property" or s.endswith(".setter") or s.endswith("cached_property"):
                    self.is_property = True
            a = node.args
            self.params = [x.arg for x in a.posonlyargs + a.args]
            self.kwonly = [x.arg for x in a.kwonlyargs]
            self.vararg = a.vararg.arg if a.vararg else None
            self.kwarg = a.kwarg.arg if a.kwarg else None
            self.annotations = {x.arg: x.annotation for x in a.posonlyargs + a.args + a.kwonlyargs if x.annotation is not None}
        else:
            self.params, self.kwonly, self.vararg, self.kwarg, self.annotations = [], [], None, None, {}

    @property
    def short(self):
        return self.qual[len(self.module.name) + 1:] if self.qual != self.module.name else "<module>"

    @property
    def all_params(self):
        r = list(self.params) + list(self.kwonly)
        if self.vararg:
            r.append(self.vararg)
        if self.kwarg:
            r.append(self.kwarg)
        return r

    @property
    def lines(self):
        if self.kind != "def":
            return [1, len(self.module.lines)]
        lo = min([self.node.lineno] + [d.lineno for d in self.node.decorator_list])
        return [lo, self.node.end_lineno]


class ClassInfo:
    def __init__(self, qual, node, module):
        self.qual = qual
        self.node = node
        self.module = module
        self.methods = {}
        self.base_exprs = list(node.bases)
        self.bases = []  # resolved repo class quals
        self.body_fn = None


class ModuleInfo:
    def __init__(self, name, path, rel, src):
        self.name = name
        self.path = path
        self.rel = rel
        self.src = src
        self.lines = src.splitlines()
        self.tree = ast.parse(src, filename=path)
        self.imports = {}
        self.funcs = {}
        self.classes = {}
        self.is_pkg = path.endswith("__init__.py")
        self.body_fn = None


def _iter_defs(body):
    """yield FunctionDef / ClassDef nodes directly contained in the statements
    `body` (descending through if/try/with/for/while but not into defs)."""
    for s in body:
        if isinstance(s, (ast.FunctionDef, ast.AsyncFunctionDef, ast.ClassDef)):
            yield s
        else:
            for fld in ("body", "orelse", "finalbody"):
                sub = getattr(s, fld, None)
                if isinstance(sub, list):
                    yield from _iter_defs(sub)
            for h in getattr(s, "handlers", []) or []:
                yield from _iter_defs(h.body)
            if isinstance(s, ast.Match):
                for c in s.cases:
                    yield from _iter_defs(c.body)


def _iter_imports(body):
    for s in body:
        if isinstance(s, (ast.Import, ast.ImportFrom)):
            yield s
        elif isinstance(s, (ast.FunctionDef, ast.AsyncFunctionDef, ast.ClassDef)):
            continue
        else:
            for fld in ("body", "orelse", "finalbody"):
                sub = getattr(s, fld, None)
                if isinstance(sub, list):
                    yield from _iter_imports(sub)
            for h in getattr(s, "handlers", []) or []:
                yield from _iter_imports(h.body)


class Program:
    def __init__(self, root=None, package="rl_blox", sources=None):
        """sources: optional {relative path: source text} (synthetic programs for canaries)"""
        self.root = root or os.environ.get("PYVC_REPO", "/repo")
        self.package = package
        self.modules = {}
        self.funcs = {}
        self.classes = {}
        self.methods_by_name = {}
        self.subclasses = {}
        if sources is None:
            sources = {}
            base = os.path.join(self.root, package)
            for dp, dn, fn in os.walk(base):
                dn.sort()
                for f in sorted(fn):
                    if f.endswith(".py"):
                        p = os.path.join(dp, f)
                        with open(p, encoding="utf-8") as fh:
                            sources[os.path.relpath(p, self.root)] = fh.read()
        for rel in sorted(sources):
            name = rel[:-3].replace(os.sep, ".")
            if name.endswith(".__init__"):
                name = name[: -len(".__init__")]
            mi = ModuleInfo(name, os.path.join(self.root, rel), rel, sources[rel])
            self.modules[name] = mi
        for mi in self.modules.values():
            self._index_module(mi)
        for ci in self.classes.values():
            for b in ci.base_exprs:
                t = self.resolve_static(ci.module, b)
                if t and t[0] == "cls":
                    ci.bases.append(t[1])
                    self.subclasses.setdefault(t[1], set()).add(ci.qual)

    # ---- indexing ------------------------------------------------------
    def _index_module(self, mi):
        for s in _iter_imports(mi.tree.body):
            self._add_import(mi, s, mi.imports)
        mi.body_fn = FuncInfo(mi.name, mi.tree, mi, kind="module")
        self.funcs[mi.name] = mi.body_fn
        for d in _iter_defs(mi.tree.body):
            self._index_def(mi, d, mi.name, None, None, mi.funcs, mi.classes)

    def _add_import(self, mi, s, table):
        if isinstance(s, ast.Import):
            for a in s.names:
                if a.asname:
                    table[a.asname] = a.name
                else:
                    table[a.name.split(".")[0]] = a.name.split(".")[0]
        else:
            if s.level:
                parts = mi.name.split(".")
                if not mi.is_pkg:
                    parts = parts[:-1]
                if s.level > 1:
                    parts = parts[: len(parts) - (s.level - 1)]
                base = ".".join(parts + ([s.module] if s.module else []))
            else:
                base = s.module or ""
            for a in s.names:
                if a.name == "*":
                    continue
                table[a.asname or a.name] = f"{base}.{a.name}" if base else a.name

    def _index_def(self, mi, d, prefix, cls, parent, ftable, ctable):
        qual = f"{prefix}.{d.name}"
        if isinstance(d, ast.ClassDef):
            ci = ClassInfo(qual, d, mi)
            self.classes[qual] = ci
            if ctable is not None:
                ctable[d.name] = ci
            ci.body_fn = FuncInfo(qual + ".<classbody>", d, mi, cls=ci, parent=parent, kind="classbody")
            self.funcs[ci.body_fn.qual] = ci.body_fn
            for sub in _iter_defs(d.body):
                self._index_def(mi, sub, qual, ci, parent, ci.methods, None)
            return
        while qual in self.funcs:  # redefinition (e.g. property setter): keep both
            qual += "'"
        fi = FuncInfo(qual, d, mi, cls=cls, parent=parent)
        self.funcs[qual] = fi
        if ftable is not None and d.name not in ftable:
            ftable[d.name] = fi
        if cls is not None:
            self.methods_by_name.setdefault(d.name, []).append(fi)
        fi.local_imports = {}
        for s in _iter_imports(d.body):
            self._add_import(mi, s, fi.local_imports)
        for sub in _iter_defs(d.body):
            self._index_def(mi, sub, qual, None, fi, fi.nested, fi.nested_classes())

    # ---- static resolution ---------------------------------------------
    def resolve_dotted(self, dotted, _seen=None):
        """dotted absolute name -> ('fn', qual) | ('cls', qual) | ('mod', name) | ('lib', dotted)"""
        if not dotted.startswith(self.package + ".") and dotted != self.package:
            return ("lib", dotted)
        _seen = _seen or set()
        if dotted in _seen:
            return ("lib", dotted)
        _seen.add(dotted)
        if dotted in self.modules:
            return ("mod", dotted)
        parts = dotted.split(".")
        for k in range(len(parts) - 1, 0, -1):
            mname = ".".join(parts[:k])
            if mname in self.modules:
                mi = self.modules[mname]
                cur = self._member(mi, parts[k], _seen)
                for p in parts[k + 1:]:
                    if cur is None:
                        break
                    if cur[0] == "cls":
                        m = self.find_method(cur[1], p)
                        cur = ("fn", m.qual) if m else None
                    elif cur[0] == "mod":
                        cur = self._member(self.modules[cur[1]], p, _seen)
                    elif cur[0] == "lib":
                        cur = ("lib", cur[1] + "." + p)
                    else:
                        cur = None
                return cur or ("unresolved", dotted)
        return ("unresolved", dotted)

    def _member(self, mi, name, _seen):
        if name in mi.funcs:
            return ("fn", mi.funcs[name].qual)
        if name in mi.classes:
            return ("cls", mi.classes[name].qual)
        if name in mi.imports:
            return self.resolve_dotted(mi.imports[name], _seen)
        sub = f"{mi.name}.{name}"
        if sub in self.modules:
            return ("mod", sub)
        return None

    def resolve_static(self, mi, expr):
        """resolve a Name / dotted Attribute expression in module scope"""
        chain = []
        e = expr
        while isinstance(e, ast.Attribute):
            chain.append(e.attr)
            e = e.value
        if isinstance(e, ast.Subscript):  # Generic[T]
            return self.resolve_static(mi, e.value)
        if not isinstance(e, ast.Name):
            return None
        chain.append(e.id)
        chain.reverse()
        cur = self._member(mi, chain[0], set())
        for p in chain[1:]:
            if cur is None:
                return None
            if cur[0] == "mod":
                cur = self._member(self.modules[cur[1]], p, set())
            elif cur[0] == "lib":
                cur = ("lib", cur[1] + "." + p)
            elif cur[0] == "cls":
                m = self.find_method(cur[1], p)
                cur = ("fn", m.qual) if m else None
            else:
                return None
        return cur

    def mro(self, cq):
        out, todo = [], [cq]
        while todo:
            c = todo.pop(0)
            if c in out or c not in self.classes:
                continue
            out.append(c)
            todo.extend(self.classes[c].bases)
        return out

    def find_method(self, cq, name):
        for c in self.mro(cq):
            m = self.classes[c].methods.get(name)
            if m is not None:
                return m
        return None

    def all_subclasses(self, cq):
        out, todo = set(), [cq]
        while todo:
            c = todo.pop()
            for s in self.subclasses.get(c, ()):
                if s not in out:
                    out.add(s)
                    todo.append(s)
        return out

    def method_family(self, cq, name):
        """methods `name` that a receiver statically typed `cq` may dispatch to"""
        r = []
        m = self.find_method(cq, name)
        if m:
            r.append(m)
        for s in self.all_subclasses(cq):
            m2 = self.classes[s].methods.get(name)
            if m2 and m2 not in r:
                r.append(m2)
        return r


def _nested_classes(self):
    if not hasattr(self, "_nc"):
        self._nc = {}
    return self._nc


FuncInfo.nested_classes = _nested_classes


# --------------------------------------------------------------------------
# the analysis
# --------------------------------------------------------------------------
def _walk_local(node):
    """ast.walk that does not descend into nested function / class bodies"""
    todo = list(ast.iter_child_nodes(node))
    while todo:
        n = todo.pop()
        yield n
        if isinstance(n, (ast.FunctionDef, ast.AsyncFunctionDef, ast.ClassDef)):
            # decorators / defaults belong to the enclosing scope
            for d in n.decorator_list:
                todo.append(d)
            continue
        todo.extend(ast.iter_child_nodes(n))


def bound_names(fi):
    if hasattr(fi, "_bound"):
        return fi._bound
    names = set(fi.all_params)
    body = fi.node
    for n in _walk_local(body):
        if isinstance(n, ast.Name) and isinstance(n.ctx, (ast.Store, ast.Del)):
            names.add(n.id)
        elif isinstance(n, (ast.FunctionDef, ast.AsyncFunctionDef, ast.ClassDef)):
            names.add(n.name)
        elif isinstance(n, (ast.Import, ast.ImportFrom)):
            for a in n.names:
                names.add(a.asname or a.name.split(".")[0])
        elif isinstance(n, ast.ExceptHandler) and n.name:
            names.add(n.name)
        elif isinstance(n, (ast.MatchAs, ast.MatchStar)) and n.name:
            names.add(n.name)
        elif isinstance(n, ast.Global):
            pass
    for n in _walk_local(body):
        if isinstance(n, (ast.Global, ast.Nonlocal)):
            names -= set(n.names)
    fi._bound = names
    return names


class Finding:
    def __init__(self, func, clause, rel, line, msg, kind="fail"):
        self.func, self.clause, self.rel, self.line, self.msg, self.kind = func, clause, rel, line, msg, kind

    def text(self):
        return f"{self.rel}:{self.line}: {self.msg}"


class Analysis:
    def __init__(self, prog: Program):
        self.prog = prog
        self.envs = {}
        self.ret = {}
        self.param_in = {}
        self.class_attrs = {}
        self.wall_fields = {}
        self.edges = {}
        self.weak_edges = {}
        self.findings = []
        self.notes = set()
        self.dynamic = set()
        self.stats = {}
        self.param_attrs = set()
        self.lib_used = set()
        self.final = False
        self.changed = False
        self.rounds = 0

    # ---- shared-state updates (monotone) --------------------------------
    def edge(self, a, b, weak=False):
        s = self.edges.setdefault(a, set())
        if b not in s:
            s.add(b)
            self.changed = True

    def join_ret(self, q, av):
        old = self.ret.get(q, EMPTY)
        new = avjoin(old, av)
        if new != old:
            self.ret[q] = new
            self.changed = True

    def join_param(self, q, p, av):
        d = self.param_in.setdefault(q, {})
        old = d.get(p, BOT)
        new = tjoin(old, av.ty) if old != BOT else av.ty
        if av.ty in (BOT, NONE):
            return
        if new != old:
            d[p] = new
            self.changed = True

    def join_cattr(self, cq, attr, av):
        old = self.class_attrs.get((cq, attr), EMPTY)
        new = avjoin(old, av)
        if new != old:
            self.class_attrs[(cq, attr)] = new
            self.changed = True

    def get_cattr(self, cq, attr):
        for c in self.prog.mro(cq):
            v = self.class_attrs.get((c, attr))
            if v is not None:
                return v
        return None

    def wall(self, attr, kind):
        old = self.wall_fields.get(attr)
        if old is None or (old == "timetext" and kind == "time"):
            self.wall_fields[attr] = kind
            self.changed = True

    # ---- driver ---------------------------------------------------------
    def run(self, max_rounds=8):
        order = sorted(self.prog.funcs.values(), key=lambda f: (f.qual.count("."), f.qual))
        units = [f for f in order if f.kind == "module"] + [f for f in order if f.kind == "classbody"] + [f for f in order if f.kind == "def"]
        for f in order:
            if f.parent is not None:
                self.edge(f.parent.qual, f.qual)
            if f.kind != "module":
                self.edge(f.qual, f.module.name)  # a function only exists once its module body has run
            if f.kind == "def" and f.cls is not None:
                self.edge(f.qual, f.cls.body_fn.qual)
        for r in range(max_rounds):
            self.changed = False
            self.rounds = r + 1
            for fi in units:
                FnAnalysis(self, fi).run()
            if not self.changed:
                break
        self.final = True
        self.findings = []
        for fi in units:
            FnAnalysis(self, fi).run()
        return self

    def reachable(self, roots):
        seen, todo = set(), list(roots)
        while todo:
            q = todo.pop()
            if q in seen:
                continue
            seen.add(q)
            todo.extend(self.edges.get(q, ()))
        return seen

    def anchor_roots(self):
        out = []
        for fi in self.prog.funcs.values():
            rel = fi.module.rel.replace(os.sep, "/")
            if rel in ANCHOR_FILES or any(rel.startswith(d) for d in ANCHOR_DIRS):
                out.append(fi.qual)
        return out


def _chain_root(e):
    """root Name of an attribute / subscript / call-free chain, and the first attribute after it"""
    first = None
    while True:
        if isinstance(e, ast.Attribute):
            first = e.attr
            e = e.value
        elif isinstance(e, ast.Subscript):
            e = e.value
        else:
            break
    return (e.id if isinstance(e, ast.Name) else None), first


class FnAnalysis:
    MAX_ITERS = 6

    def __init__(self, G: Analysis, fi: FuncInfo):
        self.G = G
        self.P = G.prog
        self.fi = fi
        self.env = G.envs.setdefault(fi.qual, {})
        self.local = bound_names(fi)
        self.reporting = False
        self.env_changed = False
        self.self_name = None
        if fi.kind == "def" and fi.cls is not None and fi.params and not fi.is_static:
            self.self_name = fi.params[0]
        self.in_logging = ".logging." in fi.module.name + "."

    # ---- reporting ------------------------------------------------------
    def report(self, clause, node, msg, kind="fail"):
        if self.reporting:
            self.G.findings.append(Finding(self.fi.qual, clause, self.fi.module.rel, getattr(node, "lineno", 0), msg, kind))

    def note(self, msg):
        if self.reporting:
            self.G.notes.add(msg)

    def count(self, what):
        if self.reporting:
            self.G.stats[what] = self.G.stats.get(what, 0) + 1

    # ---- environment ----------------------------------------------------
    def setvar(self, name, av):
        old = self.env.get(name, EMPTY)
        new = avjoin(old, av)
        if new != old:
            self.env[name] = new
            self.env_changed = True
            if self.fi.kind != "def":
                self.G.changed = True  # module / class scope is visible to other units

    def ann_type(self, ann):
        if ann is None:
            return UNK
        if isinstance(ann, ast.Constant) and isinstance(ann.value, str):
            try:
                ann = ast.parse(ann.value, mode="eval").body
            except SyntaxError:
                return UNK
        if isinstance(ann, ast.BinOp) and isinstance(ann.op, ast.BitOr):
            l, r = self.ann_type(ann.left), self.ann_type(ann.right)
            if l in (NONE, UNK):
                return r
            if r in (NONE, UNK):
                return l
            return tjoin(l, r)
        if isinstance(ann, ast.Constant) and ann.value is None:
            return NONE
        if isinstance(ann, ast.Name):
            if ann.id == "int":
                return INT
            if ann.id in ("str", "bytes"):
                return STR
            if ann.id in ("set", "frozenset"):
                return ("set", UNK)
        if isinstance(ann, ast.Subscript):
            base = ast.unparse(ann.value).split(".")[-1]
            if base in ("set", "frozenset", "Set", "FrozenSet", "AbstractSet", "MutableSet"):
                return ("set", self.ann_type(ann.slice))
            if base in ("list", "List", "Sequence", "Iterable"):
                return ("seq", self.ann_type(ann.slice))
            if base == "Optional":
                return self.ann_type(ann.slice)
            return UNK
        if isinstance(ann, (ast.Name, ast.Attribute)):
            s = ast.unparse(ann)
            if s.endswith("random.Generator") or s.endswith("random.RandomState") or s == "Generator":
                return GEN
            t = self.P.resolve_static(self.fi.module, ann)
            if t and t[0] == "cls":
                return ("inst", t[1], True)
        return UNK

    def init_params(self):
        fi = self.fi
        if fi.kind != "def":
            return
        pin = self.G.param_in.get(fi.qual, {})
        for i, p in enumerate(fi.all_params):
            ty = self.ann_type(fi.annotations.get(p))
            if ty == UNK and p in pin:
                ty = pin[p]
            elif p in pin and pin[p][0] == "set" and ty[0] != "set":
                ty = pin[p]
            if i == 0 and self.self_name == p:
                ty = ("cls", fi.cls.qual) if fi.is_classmethod else ("inst", fi.cls.qual, True)
            self.setvar(p, AV({"param"}, ty))
        a = fi.node.args
        # defaults are evaluated in the enclosing scope; only look for effects in them
        for d in list(a.defaults) + [x for x in a.kw_defaults if x is not None]:
            self.ev(d)

    def lookup(self, name, node=None):
        fi = self.fi
        # own and enclosing function scopes
        cur = fi
        while cur is not None:
            if cur.kind == "classbody" and cur is not fi:
                cur = cur.parent
                continue
            if name in bound_names(cur):
                return self._scope_value(cur, name)
            cur = cur.parent
        mod = fi.module
        if name in bound_names(mod.body_fn):
            v = self._scope_value(mod.body_fn, name)
            if v.ty == GEN and fi.kind == "def":
                v = v.with_roots({"modgen"})
            return v
        if name in BUILTIN_NAMES:
            return AV(frozenset(), ("builtin", name))
        return AV(frozenset(), UNK)

    def _scope_value(self, scope, name):
        mod = scope.module
        if scope.kind == "module":
            if name in mod.funcs:
                return self.ref(("fn", mod.funcs[name].qual))
            if name in mod.classes:
                return self.ref(("cls", mod.classes[name].qual))
            if name in mod.imports and name not in self.G.envs.get(scope.qual, {}):
                return self.ref(self.P.resolve_dotted(mod.imports[name]))
        elif scope.kind == "def":
            if name in scope.nested:
                return self.ref(("fn", scope.nested[name].qual))
            if name in scope.nested_classes():
                return self.ref(("cls", scope.nested_classes()[name].qual))
            li = getattr(scope, "local_imports", {})
            if name in li:
                return self.ref(self.P.resolve_dotted(li[name]))
        elif scope.kind == "classbody":
            if name in scope.cls.methods:
                return self.ref(("fn", scope.cls.methods[name].qual))
        return self.G.envs.get(scope.qual, {}).get(name, EMPTY)

    def ref(self, t):
        """static resolution result -> abstract value (and call-graph edge for references)"""
        if t is None:
            return AV(frozenset(), UNK)
        if t[0] == "fn":
            self.G.edge(self.fi.qual, t[1])
            f2 = self.P.funcs[t[1]]
            return AV(frozenset(), ("fn", frozenset({(t[1], 0)})))
        if t[0] == "cls":
            self.edge_class(t[1])
            return AV(frozenset(), ("cls", t[1]))
        if t[0] == "mod":
            return AV(frozenset(), ("mod", t[1]))
        if t[0] == "lib":
            return AV(frozenset(), ("lib", t[1]))
        return AV(frozenset(), UNK)

    def edge_class(self, cq):
        for c in self.P.mro(cq):
            self.G.edge(self.fi.qual, self.P.classes[c].body_fn.qual)
        init = self.P.find_method(cq, "__init__")
        if init is not None:
            self.G.edge(self.fi.qual, init.qual)
        post = self.P.find_method(cq, "__post_init__")
        if post is not None:
            self.G.edge(self.fi.qual, post.qual)

    # ---- run ------------------------------------------------------------
    def run(self):
        fi = self.fi
        body = fi.node.body
        for it in range(self.MAX_ITERS):
            self.env_changed = False
            self.init_params()
            self.walk(body)
            if not self.env_changed:
                break
        if self.G.final:
            self.reporting = True
            self.init_params()
            self.walk(body)

    # ---- statements -----------------------------------------------------
    def walk(self, stmts):
        for s in stmts:
            m = getattr(self, "st_" + type(s).__name__, None)
            if m is not None:
                m(s)
            else:
                for n in ast.iter_child_nodes(s):
                    if isinstance(n, ast.expr):
                        self.ev(n)
                    elif isinstance(n, ast.stmt):
                        self.walk([n])

    def st_FunctionDef(self, s):
        # decorators and defaults are evaluated here; the body is its own unit
        for d in s.decorator_list:
            self.ev(d)
        if self.fi.kind == "classbody":
            return
        for d in list(s.args.defaults) + [x for x in s.args.kw_defaults if x is not None]:
            self.ev(d)

    st_AsyncFunctionDef = st_FunctionDef

    def st_ClassDef(self, s):
        for d in s.decorator_list:
            self.ev(d)
        if self.fi.kind == "classbody" and s is self.fi.node:
            return
        t = None
        if self.fi.kind == "module":
            ci = self.fi.module.classes.get(s.name)
        elif self.fi.kind == "def":
            ci = self.fi.nested_classes().get(s.name)
        else:
            ci = None
        if ci is not None:
            self.edge_class(ci.qual)

    def st_Import(self, s):
        pass

    st_ImportFrom = st_Import
    st_Pass = st_Break = st_Continue = st_Global = st_Nonlocal = st_Import

    def st_Expr(self, s):
        self.ev(s.value)

    def st_Assign(self, s):
        v = self.ev(s.value)
        for t in s.targets:
            self.bind(t, v, s.value)

    def st_AnnAssign(self, s):
        if s.value is not None:
            v = self.ev(s.value)
            t = self.ann_type(s.annotation)
            if v.ty == UNK and t != UNK:
                v = v.with_ty(t)
            self.bind(s.target, v, s.value)
        elif self.fi.kind == "classbody" and isinstance(s.target, ast.Name):
            t = self.ann_type(s.annotation)
            if t != UNK:
                self.G.join_cattr(self.fi.cls.qual, s.target.id, AV(frozenset(), t))

    def st_AugAssign(self, s):
        v = self.ev(s.value)
        cur = self.ev(s.target)
        r = self.binop(cur, v, s.op)
        self.bind(s.target, r, s.value)

    def st_Return(self, s):
        if s.value is None:
            return
        v = self.ev(s.value)
        self.check_time_flow(v, s, "return value")
        self.G.join_ret(self.fi.qual, v)

    def st_Delete(self, s):
        pass

    def st_If(self, s):
        self.test(s.test)
        self.walk(s.body)
        self.walk(s.orelse)

    def st_While(self, s):
        self.test(s.test)
        self.walk(s.body)
        self.walk(s.orelse)

    def st_Assert(self, s):
        self.test(s.test)
        if s.msg is not None:
            self.ev(s.msg)

    def st_For(self, s):
        it = self.ev(s.iter)
        self.expose(it, s.iter, "for-loop iteration")
        self.bind(s.target, AV(it.roots, elem_of(it.ty)), s.iter, spread=True)
        self.walk(s.body)
        self.walk(s.orelse)

    st_AsyncFor = st_For

    def st_With(self, s):
        for item in s.items:
            v = self.ev(item.context_expr)
            if item.optional_vars is not None:
                self.bind(item.optional_vars, v, item.context_expr)
        self.walk(s.body)

    st_AsyncWith = st_With

    def st_Try(self, s):
        self.walk(s.body)
        for h in s.handlers:
            if h.type is not None:
                self.ev(h.type)
            self.walk(h.body)
        self.walk(s.orelse)
        self.walk(s.finalbody)

    st_TryStar = st_Try

    def st_Raise(self, s):
        if s.exc is not None:
            self.ev(s.exc)
        if s.cause is not None:
            self.ev(s.cause)

    def st_Match(self, s):
        self.test(s.subject)
        for c in s.cases:
            if c.guard is not None:
                self.test(c.guard)
            self.walk(c.body)

    # ---- tests (control dependence) -------------------------------------
    def test(self, e):
        if isinstance(e, ast.BoolOp):
            for v in e.values:
                self.test(v)
            return
        if isinstance(e, ast.UnaryOp) and isinstance(e.op, ast.Not):
            self.test(e.operand)
            return
        if isinstance(e, ast.Compare) and len(e.ops) == 1 and isinstance(e.ops[0], (ast.Is, ast.IsNot)) and (
                isinstance(e.comparators[0], ast.Constant) and e.comparators[0].value is None):
            self.ev(e.left)
            return  # `x is None` does not depend on the wall-clock value
        v = self.ev(e)
        self.check_time_flow(v, e, "branch condition")

    def check_time_flow(self, v, node, where):
        if "time" in v.roots or "timetext" in v.roots:
            self.report("no_time_dependence", node, f"time-derived value reaches {where}: `{_short(node)}`")

    # ---- binding --------------------------------------------------------
    def bind(self, target, v, src=None, spread=False):
        if isinstance(target, ast.Name):
            if self.fi.kind == "classbody":
                self.G.join_cattr(self.fi.cls.qual, target.id, v)
            self.setvar(target.id, v)
        elif isinstance(target, (ast.Tuple, ast.List)):
            n = len(target.elts)
            ty = v.ty
            if ty[0] == "tuple" and len(ty[1]) == n and not any(isinstance(e, ast.Starred) for e in target.elts):
                for e, x in zip(target.elts, ty[1]):
                    self.bind(e, x, src)
            else:
                ev = AV(v.roots, elem_of(ty))
                for e in target.elts:
                    if isinstance(e, ast.Starred):
                        self.bind(e.value, AV(v.roots, ("seq", ev.ty)), src)
                    else:
                        self.bind(e, ev, src)
        elif isinstance(target, ast.Starred):
            self.bind(target.value, v, src)
        elif isinstance(target, ast.Attribute):
            base = self.ev(target.value)
            self.store_attr(target, base, target.attr, v, src)
        elif isinstance(target, ast.Subscript):
            self.ev(target.slice)
            self.mutate(target.value, v.roots, v.ty, target)

    def is_param_name(self, name):
        cur = self.fi
        while cur is not None:
            if name in bound_names(cur):
                return name in cur.all_params
            cur = cur.parent
        return False

    def store_attr(self, node, base, attr, v, src=None):
        if isinstance(src, ast.Name) and self.is_param_name(src.id) and base.ty[0] == "inst":
            self.G.param_attrs.add((base.ty[1], attr))
        if "time" in v.roots:
            self.G.wall(attr, "time")
        elif "timetext" in v.roots:
            self.G.wall(attr, "timetext")
        if base.ty[0] == "inst":
            self.G.join_cattr(base.ty[1], attr, v)
        elif base.ty[0] == "cls":
            self.G.join_cattr(base.ty[1], attr, v)
        else:
            r, _ = _chain_root(node.value)
            if r is not None and r in self.local:
                self.setvar(r, AV(v.roots - {"param"}, BOT))

    def mutate(self, recv_expr, roots, elem_ty, node, container=None):
        """weak update of the container denoted by recv_expr with an element"""
        roots = frozenset(roots)
        e = recv_expr
        depth = 0
        while isinstance(e, ast.Subscript):
            e = e.value
            depth += 1
        if isinstance(e, ast.Name):
            cur = self.lookup(e.id)
            new = self._add_elem(cur, roots, elem_ty, depth)
            if e.id in self.local:
                self.setvar(e.id, new)
        elif isinstance(e, ast.Attribute):
            base = self.ev(e.value)
            if "time" in roots:
                self.G.wall(e.attr, "time")
            elif "timetext" in roots:
                self.G.wall(e.attr, "timetext")
            if base.ty[0] in ("inst", "cls"):
                cur = self.G.get_cattr(base.ty[1], e.attr) or EMPTY
                self.G.join_cattr(base.ty[1], e.attr, self._add_elem(cur, roots, elem_ty, depth))
            else:
                r, _ = _chain_root(e)
                if r is not None and r in self.local:
                    self.setvar(r, AV(roots - {"param"}, BOT))

    @staticmethod
    def _add_elem(cur, roots, elem_ty, depth):
        ty = cur.ty
        if depth == 0 and elem_ty is not None:
            if ty[0] == "set":
                ty = ("set", tjoin(ty[1], elem_ty) if ty[1] != BOT else elem_ty)
            elif ty[0] == "seq":
                ty = ("seq", tjoin(ty[1], elem_ty) if ty[1] != BOT else elem_ty)
        return AV(cur.roots | roots, ty)


def _short(node, n=70):
    try:
        s = ast.unparse(node).replace("\n", " ")
    except Exception:
        s = type(node).__name__
    return s if len(s) <= n else s[: n - 3] + "..."


class _Expr:
    """expression evaluation (mixed into FnAnalysis)"""

    def ev(self, e):
        m = getattr(self, "ex_" + type(e).__name__, None)
        if m is not None:
            return m(e)
        roots = frozenset()
        for c in ast.iter_child_nodes(e):
            if isinstance(c, ast.expr):
                roots |= self.ev(c).roots
        return AV(roots, UNK)

    def ex_Constant(self, e):
        v = e.value
        if isinstance(v, bool) or isinstance(v, int):
            return AV(frozenset(), INT)
        if isinstance(v, (str, bytes)):
            return AV(frozenset(), STR)
        if v is None:
            return AV(frozenset(), NONE)
        return AV(frozenset(), UNK)

    def ex_Name(self, e):
        return self.lookup(e.id, e)

    def ex_NamedExpr(self, e):
        v = self.ev(e.value)
        self.bind(e.target, v, e.value)
        return v

    def ex_Attribute(self, e):
        base = self.ev(e.value)
        return self.attr_of(base, e.attr, e)

    def attr_of(self, base, attr, node):
        t = base.ty
        extra = frozenset()
        w = self.G.wall_fields.get(attr)
        if w is not None and t[0] not in ("lib", "mod", "builtin"):
            extra = frozenset({w})
        if t[0] == "lib":
            return AV(base.roots, ("lib", t[1] + "." + attr))
        if t[0] == "mod":
            return self.ref(self.P._member(self.P.modules[t[1]], attr, set()))
        if t[0] in ("inst", "cls", "super"):
            cq = t[1]
            mro = self.P.mro(cq)
            if t[0] == "super":
                mro = mro[1:]
            for c in mro:
                ci = self.P.classes[c]
                v = self.G.class_attrs.get((c, attr))
                m = ci.methods.get(attr)
                if m is not None:
                    cands = [m]
                    if t[0] == "inst" and t[2]:
                        cands = self.P.method_family(cq, attr) or [m]
                    for mm in cands:
                        self.G.edge(self.fi.qual, mm.qual)
                    if m.is_property:
                        r = EMPTY
                        for mm in cands:
                            r = avjoin(r, self.G.ret.get(mm.qual, EMPTY))
                        return AV((r.roots - {"param"}) | base.roots | extra, r.ty if r.ty != BOT else UNK)
                    skip = 0 if (m.is_static or (t[0] == "cls" and not m.is_classmethod)) else 1
                    return AV(base.roots, ("fn", frozenset((mm.qual, skip) for mm in cands)))
                if v is not None:
                    return AV(v.roots | base.roots | extra, v.ty if v.ty != BOT else UNK)
            if attr in LIB_INT_ATTRS:
                return AV(base.roots | extra, INT)
            return AV(base.roots | extra, UNK)
        if attr in LIB_INT_ATTRS:
            return AV(base.roots | extra, INT)
        if attr == "shape":
            return AV(base.roots | extra, ("seq", INT))
        return AV(base.roots | extra, UNK)

    def ex_Subscript(self, e):
        base = self.ev(e.value)
        idx = self.ev(e.slice)
        roots = base.roots | (idx.roots & NONDET)
        t = base.ty
        if isinstance(e.slice, ast.Slice):
            return AV(roots, t if t[0] in ("seq", "tuple") or t == INT else UNK)
        if t[0] == "tuple" and isinstance(e.slice, ast.Constant) and isinstance(e.slice.value, int):
            k = e.slice.value
            if -len(t[1]) <= k < len(t[1]):
                x = t[1][k]
                return AV(x.roots | (roots & NONDET), x.ty)
        if t[0] in ("seq", "tuple") or t == INT:
            return AV(roots, elem_of(t))
        return AV(roots, UNK)

    def ex_Slice(self, e):
        r = frozenset()
        for c in (e.lower, e.upper, e.step):
            if c is not None:
                r |= self.ev(c).roots
        return AV(r, UNK)

    def ex_Starred(self, e):
        v = self.ev(e.value)
        self.expose(v, e.value, "star-unpacking")
        return v

    def binop(self, l, r, op):
        roots = l.roots | r.roots
        if (l.ty[0] == "set" or r.ty[0] == "set") and isinstance(op, (ast.BitOr, ast.BitAnd, ast.Sub, ast.BitXor)):
            a = l.ty[1] if l.ty[0] == "set" else BOT
            b = r.ty[1] if r.ty[0] == "set" else BOT
            if isinstance(op, (ast.Sub, ast.BitAnd)) and l.ty[0] == "set":
                return AV(roots, ("set", a))
            return AV(roots, ("set", tjoin(a, b)))
        if l.ty == INT and r.ty == INT and not isinstance(op, ast.Div):
            return AV(roots, INT)
        if l.ty == STR and isinstance(op, (ast.Add, ast.Mod)):
            if "time" in roots:
                roots = (roots - {"time"}) | {"timetext"}
            return AV(roots, STR)
        if l.ty[0] == "seq" and r.ty[0] == "seq" and isinstance(op, ast.Add):
            return AV(roots, ("seq", tjoin(l.ty[1], r.ty[1])))
        if l.ty[0] == "seq" and isinstance(op, ast.Mult):
            return AV(roots, l.ty)
        return AV(roots, UNK)

    def ex_BinOp(self, e):
        return self.binop(self.ev(e.left), self.ev(e.right), e.op)

    def ex_UnaryOp(self, e):
        v = self.ev(e.operand)
        return AV(v.roots, INT if v.ty == INT else UNK)

    def ex_BoolOp(self, e):
        r = EMPTY
        for v in e.values:
            r = avjoin(r, self.ev(v))
        return r

    def ex_Compare(self, e):
        vs = [self.ev(e.left)] + [self.ev(c) for c in e.comparators]
        if all(isinstance(o, (ast.Is, ast.IsNot)) for o in e.ops) and any(
                isinstance(c, ast.Constant) and c.value is None for c in [e.left] + e.comparators):
            return AV(frozenset(), INT)
        roots = frozenset()
        for v in vs:
            roots |= v.roots
        return AV(roots & (NONDET | {"param"}), INT)

    def ex_IfExp(self, e):
        self.test(e.test)
        return avjoin(self.ev(e.body), self.ev(e.orelse))

    def ex_JoinedStr(self, e):
        roots = frozenset()
        for v in e.values:
            roots |= self.ev(v).roots
        if "time" in roots:
            roots = (roots - {"time"}) | {"timetext"}
        return AV(roots, STR)

    def ex_FormattedValue(self, e):
        v = self.ev(e.value)
        if e.format_spec is not None:
            self.ev(e.format_spec)
        return AV(v.roots, STR)

    def ex_Tuple(self, e):
        vs = [self.ev(x) for x in e.elts]
        roots = frozenset()
        for v in vs:
            roots |= v.roots
        if any(isinstance(x, ast.Starred) for x in e.elts) or len(vs) > 12:
            t = BOT
            for v in vs:
                t = tjoin(t, v.ty)
            return AV(roots, ("seq", t))
        return AV(roots, ("tuple", tuple(vs)))

    def ex_List(self, e):
        vs = [self.ev(x) for x in e.elts]
        roots = frozenset()
        t = BOT
        for v in vs:
            roots |= v.roots
            t = tjoin(t, v.ty)
        return AV(roots, ("seq", t))

    def ex_Set(self, e):
        v = self.ex_List(e)
        return AV(v.roots, ("set", v.ty[1]))

    def ex_Dict(self, e):
        roots = frozenset()
        for k in e.keys:
            if k is not None:
                roots |= self.ev(k).roots
        for v in e.values:
            roots |= self.ev(v).roots
        return AV(roots, UNK)

    def _comp(self, e, elts):
        for g in e.generators:
            it = self.ev(g.iter)
            how = "comprehension iteration"
            if not isinstance(e, ast.SetComp):
                self.expose(it, g.iter, how)
            self.bind(g.target, AV(it.roots, elem_of(it.ty)), g.iter)
            for c in g.ifs:
                self.test(c)
        return [self.ev(x) for x in elts]

    def ex_ListComp(self, e):
        (v,) = self._comp(e, [e.elt])
        return AV(v.roots, ("seq", v.ty))

    ex_GeneratorExp = ex_ListComp

    def ex_SetComp(self, e):
        (v,) = self._comp(e, [e.elt])
        return AV(v.roots, ("set", v.ty))

    def ex_DictComp(self, e):
        k, v = self._comp(e, [e.key, e.value])
        return AV(k.roots | v.roots, UNK)

    def ex_Lambda(self, e):
        a = e.args
        names = [x.arg for x in a.posonlyargs + a.args + a.kwonlyargs] + ([a.vararg.arg] if a.vararg else []) + (
            [a.kwarg.arg] if a.kwarg else [])
        saved = {n: self.env.get(n) for n in names}
        added = [n for n in names if n not in self.local]
        for d in list(a.defaults) + [x for x in a.kw_defaults if x is not None]:
            self.ev(d)
        ch = self.env_changed
        for n in names:
            self.env[n] = AV({"param"}, UNK)
            self.local.add(n)
        try:
            v = self.ev(e.body)
            self.check_time_flow(v, e.body, "lambda result")
        finally:
            for n in names:
                if saved[n] is None:
                    self.env.pop(n, None)
                else:
                    self.env[n] = saved[n]
            for n in added:
                self.local.discard(n)
            self.env_changed = ch
        return AV(v.roots - {"param"}, UNK)

    def ex_Await(self, e):
        return self.ev(e.value)

    def ex_Yield(self, e):
        if e.value is None:
            return AV(frozenset(), NONE)
        v = self.ev(e.value)
        self.check_time_flow(v, e, "yielded value")
        self.G.join_ret(self.fi.qual, AV(v.roots, ("seq", v.ty)))
        return AV(frozenset({"param"}), UNK)

    ex_YieldFrom = ex_Yield

    # ---- set-order exposure ----------------------------------------------
    def expose(self, v, node, how):
        if v.ty[0] != "set":
            return
        self.count("set_order_exposure_sites")
        el = v.ty[1]
        if el in (INT, BOT):
            if el == INT:
                self.note(f"{self.fi.module.rel}:{getattr(node, 'lineno', 0)}: {how} over a set of ints `{_short(node, 40)}` "
                          "(CPython int-set order is a function of the insertion history)")
            return
        self.report("no_unordered_iteration", node,
                    f"{how} exposes the iteration order of a set whose elements are not proven ints: `{_short(node)}` "
                    f"(element kind {el[0]})")


for _k, _v in list(vars(_Expr).items()):
    if not _k.startswith("__"):
        setattr(FnAnalysis, _k, _v)


def _union(avs):
    r = frozenset()
    for a in avs:
        r |= a.roots
    return r


class _Calls:
    """call sites (mixed into FnAnalysis)"""

    def ex_Call(self, n):
        f = n.func
        args = []
        for a in n.args:
            if isinstance(a, ast.Starred):
                args.append(self.ev(a.value))
            else:
                args.append(self.ev(a))
        kws = {}
        for k in n.keywords:
            kws[k.arg if k.arg is not None else "**"] = self.ev(k.value)
        recv = None
        meth = None
        if isinstance(f, ast.Attribute):
            recv = self.ev(f.value)
            meth = f.attr
            fav = self.attr_of(recv, meth, f)
        else:
            fav = self.ev(f)
        t = fav.ty
        if t[0] == "lib":
            return self.call_lib(n, t[1], args, kws, recv)
        if t[0] == "builtin":
            return self.call_builtin(n, t[1], args, kws)
        if t[0] == "fn":
            return self.call_repo(n, t[1], args, kws, recv)
        if t[0] == "cls":
            return self.call_ctor(n, t[1], args, kws)
        if t[0] == "inst":
            fam = self.P.method_family(t[1], "__call__") if t[2] else [m for m in [self.P.find_method(t[1], "__call__")] if m]
            if fam:
                return self.call_repo(n, frozenset((m.qual, 1) for m in fam), args, kws, fav)
        if meth is not None:
            return self.call_method(n, f, recv, meth, args, kws)
        return self.call_value(n, f, fav, args, kws)

    # ---- argument helpers -------------------------------------------------
    def time_args(self, n, args, kws):
        out = []
        for a, v in zip(n.args, args):
            if "time" in v.roots:
                out.append((a, v))
        for k in n.keywords:
            v = kws[k.arg if k.arg is not None else "**"]
            if "time" in v.roots:
                out.append((k.value, v))
        return out

    def flag_time_args(self, n, args, kws, callee):
        for a, v in self.time_args(n, args, kws):
            self.report("no_time_dependence", a, f"time-derived value `{_short(a, 50)}` is passed to {callee}")

    def expose_args(self, n, args, kws, callee):
        for a, v in zip(n.args, args):
            self.expose(v, a, f"argument of {callee}")
        for k in n.keywords:
            self.expose(kws[k.arg if k.arg is not None else "**"], k.value, f"argument of {callee}")

    # ---- repo functions ---------------------------------------------------
    def call_repo(self, n, targets, args, kws, recv=None):
        aroots = _union(args) | _union(kws.values()) | (recv.roots if recv is not None else frozenset())
        ret = EMPTY
        starred = any(isinstance(a, ast.Starred) for a in n.args)
        for q, skip in targets:
            fi2 = self.P.funcs.get(q)
            if fi2 is None:
                continue
            self.G.edge(self.fi.qual, q)
            ret = avjoin(ret, self.G.ret.get(q, EMPTY))
            if skip < 0:
                self.flag_time_args(n, args, kws, f"`{fi2.short}`")
                continue
            pos = fi2.params[skip:]
            for i, (a, v) in enumerate(zip(n.args, args)):
                if starred:
                    pname = None
                elif i < len(pos):
                    pname = pos[i]
                else:
                    pname = fi2.vararg
                self._pass(fi2, pname, a, v)
            for k in n.keywords:
                v = kws[k.arg if k.arg is not None else "**"]
                if k.arg is None:
                    pname = None
                elif k.arg in fi2.params or k.arg in fi2.kwonly:
                    pname = k.arg
                else:
                    pname = fi2.kwarg
                self._pass(fi2, pname, k.value, v)
        return AV((ret.roots - {"param"}) | aroots, ret.ty if ret.ty != BOT else UNK)

    def _pass(self, fi2, pname, argnode, v):
        if "time" in v.roots and (pname is None or pname not in TIME_PARAM_NAMES):
            self.report("no_time_dependence", argnode,
                        f"time-derived value `{_short(argnode, 50)}` is passed to `{fi2.node.name}` parameter `{pname}`")
        if pname is not None and pname not in (fi2.vararg, fi2.kwarg):
            self.G.join_param(fi2.qual, pname, v)
        elif v.ty[0] == "set":
            self.expose(v, argnode, f"argument of `{fi2.short}`")

    def call_ctor(self, n, cq, args, kws):
        self.edge_class(cq)
        init = self.P.find_method(cq, "__init__")
        aroots = _union(args) | _union(kws.values())
        if init is not None:
            self.call_repo(n, frozenset({(init.qual, 1)}), args, kws)
        else:
            self.flag_time_args(n, args, kws, f"constructor `{cq.split('.')[-1]}`")
            self.expose_args(n, args, kws, f"constructor `{cq.split('.')[-1]}`")
        return AV(aroots, ("inst", cq, False))

    # ---- callable values (parameters, closures, library objects) -----------
    def call_value(self, n, f, fav, args, kws):
        aroots = _union(args) | _union(kws.values())
        desc = _short(f, 40)
        if "param" in fav.roots:
            if isinstance(f, ast.Name) and self.is_param_name(f.id):
                self.G.dynamic.add((self.fi.qual, desc))
            # an object parameter that is called may be a repo module (nnx.Module.__call__): keep those reachable
            for m in self.P.methods_by_name.get("__call__", []):
                self.G.edge(self.fi.qual, m.qual, weak=True)
        self.flag_time_args(n, args, kws, f"callable `{desc}`")
        self.expose_args(n, args, kws, f"callable `{desc}`")
        return AV(fav.roots | aroots, UNK)

    # ---- methods on receivers of unknown / container type -------------------
    def call_method(self, n, f, recv, meth, args, kws):
        aroots = _union(args) | _union(kws.values())
        rt = recv.ty
        # -- sets
        if rt[0] == "set":
            if meth == "add" and args:
                self.mutate(f.value, args[0].roots, args[0].ty, n)
                return AV(frozenset(), NONE)
            if meth == "update":
                for a in args:
                    self.mutate(f.value, a.roots, elem_of(a.ty), n)
                return AV(frozenset(), NONE)
            if meth == "pop":
                self.expose(recv, f.value, "set.pop()")
                return AV(recv.roots, rt[1] if rt[1] != BOT else UNK)
            if meth in ("copy", "difference", "intersection"):
                return recv
            if meth in ("union", "symmetric_difference"):
                t = rt[1]
                for a in args:
                    t = tjoin(t, elem_of(a.ty))
                return AV(recv.roots | aroots, ("set", t))
            if meth in SET_METHODS_PURE:
                return AV(frozenset(), NONE)
        # -- list-like mutation
        if meth in ("append", "appendleft", "add", "insert", "extend", "extendleft", "put", "setdefault") and args:
            x = args[-1]
            ety = x.ty if meth not in ("extend", "extendleft") else elem_of(x.ty)
            if meth in ("extend", "extendleft"):
                self.expose(x, n.args[-1], f"`.{meth}()`")
            root, first = _chain_root(f.value)
            wall = x.roots & {"time", "timetext"}
            if wall and not (root == self.self_name and root is not None):
                if not (root is not None and root in self.local and "param" not in self.lookup(root).roots):
                    self.flag_time_args(n, args, kws, f"`{_short(f, 40)}`")
            self.mutate(f.value, x.roots - {"param"}, ety, n)
            return AV(frozenset(), NONE)
        # -- NumPy Generator draws
        if meth in GEN_DRAWS and self.generator_like(recv, f.value):
            return self.gen_draw(n, f, recv, meth, args, kws)
        # -- the environment's own seeded sampler
        if meth == "sample" and not args and not kws and "action_space" in _short(f.value, 200):
            self.note(f"{self.fi.module.rel}:{n.lineno}: `{_short(f, 60)}()` draws from the environment's action-space sampler "
                      "(seeded through env / action_space.seed: premise of the property)")
            return AV(recv.roots, UNK)
        if meth in ("keys", "values", "items") and not args:
            return AV(recv.roots, ("seq", UNK))
        if meth in ("format", "join", "strftime", "isoformat", "rjust", "ljust") and (rt == STR or meth in ("strftime", "isoformat")):
            roots = recv.roots | aroots
            for a, v in zip(n.args, args):
                self.expose(v, a, f"`str.{meth}`")
            if "time" in roots:
                roots = (roots - {"time"}) | {"timetext"}
            return AV(roots, STR)
        # -- by-name dispatch to repo methods (class-hierarchy analysis)
        cands = []
        if rt not in (GEN, STR, INT) and rt[0] not in ("seq", "tuple", "set"):
            cands = [m for m in self.P.methods_by_name.get(meth, []) if not m.is_static]
        if self.self_name is not None and isinstance(f.value, ast.Name) and f.value.id == self.self_name:
            cands = []  # attribute of self that is no repo method: a stored callable / library object
        if cands:
            ret = EMPTY
            for m in cands:
                self.G.edge(self.fi.qual, m.qual, weak=True)
                ret = avjoin(ret, self.G.ret.get(m.qual, EMPTY))
            for a, v in self.time_args(n, args, kws):
                ok = False
                # positional / keyword position must be a wall-clock parameter in every candidate
                names = set()
                for m in cands:
                    names.add(self._param_at(m, n, a))
                if names and names <= TIME_PARAM_NAMES:
                    ok = True
                if not ok:
                    self.report("no_time_dependence", a, f"time-derived value `{_short(a, 50)}` is passed to `.{meth}()`")
            self.expose_args(n, args, kws, f"`.{meth}()`")
            return AV((ret.roots - {"param"}) | recv.roots | aroots, ret.ty if ret.ty not in (BOT,) else UNK)
        # -- stored callable (constructor parameter) or library object method
        root, first = _chain_root(f)
        if root == self.self_name and root is not None and isinstance(f.value, ast.Name) and self.fi.cls is not None:
            if any((c, meth) in self.G.param_attrs for c in self.P.mro(self.fi.cls.qual)):
                self.G.dynamic.add((self.fi.qual, _short(f, 40)))
        wall_ok = False
        if meth in PRINT_LIKE:
            wall_ok = True
        elif self.in_logging and root == self.self_name and root is not None:
            wall_ok = True  # external logging backend (aim / orbax / tqdm) held by the logger
            if self.time_args(n, args, kws):
                self.note(f"{self.fi.module.rel}:{n.lineno}: wall-clock value handed to the logging backend `{_short(f, 50)}`")
        if not wall_ok:
            self.flag_time_args(n, args, kws, f"`{_short(f, 40)}()`")
        self.expose_args(n, args, kws, f"`{_short(f, 40)}()`")
        ty = UNK
        if meth in ("copy", "astype", "flatten", "ravel", "tolist", "squeeze", "item") and rt in (INT,) or (rt[0] == "seq" and meth in ("copy", "tolist")):
            ty = rt
        return AV(recv.roots | aroots, ty)

    def _param_at(self, m, n, argnode):
        for i, a in enumerate(n.args):
            if a is argnode:
                pos = m.params[1:] if not m.is_static else m.params
                return pos[i] if i < len(pos) else "*"
        for k in n.keywords:
            if k.value is argnode:
                return k.arg or "**"
        return "?"

    # ---- NumPy generators ---------------------------------------------------
    def generator_like(self, recv, expr):
        if recv.ty == GEN or recv.roots & {"gensrc", "unseeded", "modgen"}:
            return True
        if recv.ty[0] in ("lib", "mod", "cls", "inst", "fn"):
            return False
        name = expr.id if isinstance(expr, ast.Name) else (expr.attr if isinstance(expr, ast.Attribute) else None)
        if name is None:
            return False
        name = name.lower().lstrip("_")
        return name in GEN_NAMES or name.endswith("_rng") or name.startswith("rng_")

    def gen_draw(self, n, f, recv, meth, args, kws):
        aroots = _union(args) | _union(kws.values())
        roots = recv.roots
        what = f"`{_short(f, 50)}(...)`"
        self.count("numpy_generator_draw_sites")
        if "modgen" in roots:
            self.report("no_global_rng", n, f"NumPy draw {what} uses a module-level Generator (hidden global state shared between runs)")
        elif "unseeded" in roots:
            self.report("key_discipline", n, f"NumPy draw {what} uses a Generator created without a seed")
        elif roots & NONDET:
            self.report("key_discipline", n, f"NumPy draw {what} uses a Generator seeded from a non-deterministic value {sorted(roots & NONDET)}")
        elif not roots & {"param", "gensrc"}:
            self.report("key_discipline", n, f"NumPy draw {what}: Generator is neither a parameter nor derived from default_rng(seed)")
        self.flag_time_args(n, args, kws, what)
        ty = UNK
        if meth in GEN_INT_DRAWS:
            if meth == "choice" or meth == "permutation":
                a0 = args[0] if args else kws.get("a", kws.get("x"))
                if a0 is not None:
                    if n.args:
                        self.expose(a0, n.args[0], f"`{meth}`")
                    e0 = INT if a0.ty == INT else elem_of(a0.ty)
                    ty = INT if e0 == INT else UNK
            else:
                ty = INT
        return AV(roots | aroots, ty)

    # ---- library functions ----------------------------------------------------
    def call_lib(self, n, dotted, args, kws, recv):
        G = self.G
        aroots = _union(args) | _union(kws.values())
        parts = dotted.split(".")
        root, last = parts[0], parts[-1]
        if self.reporting:
            G.lib_used.add(dotted)
        call = f"`{_short(n.func, 50)}(...)`"
        # ---- forbidden sources of hidden global randomness
        if dotted.startswith("numpy.random.") and len(parts) >= 3:
            name = parts[2]
            if name in NP_GEN_CTORS:
                a0 = n.args[0] if n.args else None
                kw_seed = [k.value for k in n.keywords if k.arg in ("seed", "entropy")]
                seed_node = a0 if a0 is not None else (kw_seed[0] if kw_seed else None)
                if seed_node is None or (isinstance(seed_node, ast.Constant) and seed_node.value is None):
                    self.report("no_global_rng", n, f"{call} creates a NumPy generator without a seed (fresh OS entropy)")
                    return AV({"unseeded"}, GEN)
                self.count("numpy_generator_creation_sites")
                if aroots & NONDET:
                    self.report("key_discipline", n, f"{call}: generator seeded from a non-deterministic value {sorted(aroots & NONDET)}")
                return AV(aroots | {"gensrc"}, GEN)
            if name not in NP_GLOBAL_OK:
                self.report("no_global_rng", n, f"{call} draws from / mutates NumPy's hidden global RandomState")
                return AV({"nondet"} | aroots, UNK)
        if dotted in FORBIDDEN_EXACT or dotted.startswith(FORBIDDEN_PREFIX):
            self.report("no_global_rng", n, f"{call} is an unseeded / process-dependent source ({dotted})")
            return AV({"nondet"} | aroots, UNK)
        # ---- jax PRNG keys
        if dotted.startswith("jax.random.") and len(parts) == 3:
            return self.jax_random(n, last, args, kws, call)
        # ---- wall clock
        if root == "time" and dotted not in TIME_OK and len(parts) == 2:
            self.count("wall_clock_read_sites")
            return AV({"time"}, UNK)
        if dotted in ("time.strftime", "time.gmtime", "time.localtime") and not args:
            return AV({"timetext" if last == "strftime" else "time"}, STR if last == "strftime" else UNK)
        if root == "datetime" and last in DATETIME_NOW:
            return AV({"time"}, UNK)
        if dotted in ("timeit.default_timer",):
            return AV({"time"}, UNK)
        # ---- unordered listings
        if dotted in UNORDERED_LISTING:
            return AV(aroots, ("set", STR))
        if root not in LIB_DETERMINISTIC_ROOTS:
            self.report("calls_have_contract", n, f"{call}: no assumed determinism contract for library `{root}`", kind="undecided")
        # ---- value-preserving helpers
        if dotted in ("copy.copy", "copy.deepcopy") and args:
            return args[0]
        if last in WRAPPERS and args:
            a0 = args[0]
            if a0.ty[0] == "fn":
                extra = len(args) - 1 if last == "partial" else 0
                if last in ("grad", "value_and_grad", "vmap", "pmap"):
                    # changes the call signature / return: keep the reference, drop parameter mapping
                    return AV(a0.roots | aroots, ("fn", frozenset((q, -1) for q, s in a0.ty[1])))
                return AV(a0.roots | aroots, ("fn", frozenset((q, (s + extra) if s >= 0 else -1) for q, s in a0.ty[1])))
            if a0.ty[0] == "lib":
                return AV(aroots, a0.ty)
            return AV(a0.roots | aroots, UNK)
        if last in WRAPPERS and not args:
            return AV(aroots, ("lib", dotted))  # decorator factory: jit(static_argnames=...)
        # ---- generic library call: result is a function of the arguments
        path_like = dotted.startswith("os.path.") or dotted in ("os.makedirs", "os.mkdir") or root == "pathlib"
        convert = last in ("round", "floor", "ceil", "float32", "float64", "asarray", "array", "abs", "maximum", "minimum")
        if not (path_like or convert or last in PRINT_LIKE):
            self.flag_time_args(n, args, kws, call)
        order_free = dotted in ("copy.copy", "copy.deepcopy") or last in ("isin", "in1d")
        if not order_free:
            self.expose_args(n, args, kws, call)
        roots = aroots | (recv.roots if recv is not None else frozenset())
        ty = UNK
        if path_like:
            if "time" in roots:
                roots = (roots - {"time"}) | {"timetext"}
            ty = STR
        elif last in LIB_INT_FUNCS:
            ty = INT
        elif last in ("array", "asarray", "sort", "unique", "concatenate", "fromiter", "int32", "int64") and args:
            e0 = elem_of(args[0].ty)
            ty = INT if (e0 == INT or last in ("int32", "int64")) else UNK
        elif last in ("namedtuple",):
            ty = ("lib", dotted)
        return AV(roots, ty)

    def jax_random(self, n, name, args, kws, call):
        aroots = _union(args) | _union(kws.values())
        if name in JAX_KEY_MAKERS:
            self.count("jax_key_creation_sites")
            bad = aroots & NONDET
            if bad:
                self.report("key_discipline", n, f"{call}: PRNG key created from a non-deterministic value {sorted(bad)}")
            if not args and not kws:
                self.report("key_discipline", n, f"{call}: PRNG key created without a seed")
            return AV(aroots | {"keysrc"}, UNK)
        self.count("jax_random_key_use_sites")
        karg = args[0] if args else kws.get("key")
        knode = n.args[0] if n.args else next((k.value for k in n.keywords if k.arg == "key"), n)
        if name[:1].isupper() or name in ("key_impl",):
            return AV(aroots, UNK)
        if karg is None:
            self.report("key_discipline", n, f"{call}: no key argument")
            return AV(aroots, UNK)
        bad = karg.roots & NONDET
        if bad:
            self.report("key_discipline", knode, f"{call}: key `{_short(knode, 40)}` derives from a non-deterministic value {sorted(bad)}")
        elif not karg.roots & {"param", "keysrc"}:
            self.report("key_discipline", knode,
                        f"{call}: key `{_short(knode, 40)}` is not derived from a parameter or from jax.random.key(seed)/split")
        rest = [v for v in args[1:]] + [v for k, v in kws.items() if k != "key"]
        for a, v in self.time_args(n, args, kws):
            self.report("no_time_dependence", a, f"time-derived value `{_short(a, 50)}` is passed to {call}")
        if name in JAX_KEY_DERIVE:
            return AV(karg.roots | (_union(rest) & NONDET), ("seq", UNK) if name == "split" else UNK)
        self.expose_args(n, args, kws, call)
        return AV(aroots, UNK)

    # ---- builtins ---------------------------------------------------------------
    def call_builtin(self, n, name, args, kws):
        aroots = _union(args) | _union(kws.values())
        a0 = args[0] if args else None
        has_key = "key" in kws
        if name in ("set", "frozenset"):
            return AV(aroots, ("set", elem_of(a0.ty) if a0 is not None else BOT))
        if name == "range":
            return AV(aroots, ("seq", INT))
        if name in ("len", "ord"):
            return AV(aroots & NONDET, INT)
        if name in ("int", "round") and a0 is not None:
            return AV(aroots, INT if (name == "int" or len(args) == 1) else UNK)
        if name in ("str", "repr", "ascii", "format", "bytes"):
            if a0 is not None:
                self.expose(a0, n.args[0], f"`{name}()`") if name != "repr" and name != "str" else None
            roots = aroots
            if "time" in roots:
                roots = (roots - {"time"}) | {"timetext"}
            return AV(roots, STR)
        if name in ("sorted", "min", "max"):
            if has_key and a0 is not None:
                self.expose(a0, n.args[0], f"`{name}(..., key=...)` (ties keep iteration order)")
            for a, v in list(zip(n.args, args))[1:]:
                self.expose(v, a, f"`{name}()`")
            if name == "sorted":
                return AV(aroots, ("seq", elem_of(a0.ty)) if a0 is not None else UNK)
            t = BOT
            for v in args:
                t = tjoin(t, elem_of(v.ty) if len(args) == 1 else v.ty)
            return AV(aroots, INT if t == INT else UNK)
        if name in ("list", "tuple", "iter", "reversed"):
            if a0 is None:
                return AV(frozenset(), ("seq", BOT))
            self.expose(a0, n.args[0], f"`{name}()`")
            return AV(aroots, ("seq", elem_of(a0.ty)))
        if name == "enumerate" and a0 is not None:
            self.expose(a0, n.args[0], "`enumerate()`")
            return AV(aroots, ("seq", ("tuple", (AV(frozenset(), INT), AV(a0.roots, elem_of(a0.ty))))))
        if name == "zip":
            for a, v in zip(n.args, args):
                self.expose(v, a, "`zip()`")
            return AV(aroots, ("seq", ("tuple", tuple(AV(v.roots, elem_of(v.ty)) for v in args))))
        if name in ("map", "filter"):
            for a, v in list(zip(n.args, args))[1:]:
                self.expose(v, a, f"`{name}()`")
            if args and args[0].ty[0] == "fn":
                self.call_repo(ast.Call(func=n.args[0], args=[], keywords=[]), frozenset((q, -1) for q, s in args[0].ty[1]), [], {})
            return AV(aroots, ("seq", UNK))
        if name == "next" and a0 is not None:
            self.expose(a0, n.args[0], "`next()`")
            return AV(aroots, elem_of(a0.ty))
        if name == "sum" and a0 is not None:
            self.expose(a0, n.args[0], "`sum()` (floating-point summation order)")
            return AV(aroots, INT if elem_of(a0.ty) == INT else UNK)
        if name == "hash":
            if a0 is not None and a0.ty == INT:
                return AV(aroots, INT)
            self.report("no_unordered_iteration", n,
                        f"`{_short(n)}`: hash() of a value not proven int (str/bytes hashes are randomised per process)")
            return AV(aroots | {"nondet"}, INT)
        if name == "id":
            self.report("no_unordered_iteration", n, f"`{_short(n)}`: id() is an address (differs between runs)")
            return AV(aroots | {"nondet"}, INT)
        if name in ("isinstance", "issubclass", "hasattr", "callable", "type"):
            return AV(frozenset(), INT if name != "type" else UNK)
        if name == "print":
            return AV(frozenset(), NONE)
        if name == "super":
            if self.fi.cls is not None:
                return AV({"param"}, ("super", self.fi.cls.qual))
            cur = self.fi.parent
            while cur is not None and cur.cls is None:
                cur = cur.parent
            return AV({"param"}, ("super", cur.cls.qual) if cur is not None else UNK)
        if name in ("float", "abs", "bool", "complex", "divmod", "pow"):
            return AV(aroots, INT if (name in ("abs", "bool") and a0 is not None and a0.ty == INT) else UNK)
        if name in ("getattr", "vars", "dict", "open", "setattr", "delattr", "slice", "object", "input", "property",
                    "staticmethod", "classmethod", "memoryview", "bytearray", "chr", "hex", "bin", "oct", "any", "all",
                    "globals", "locals", "dir", "exec", "eval", "compile", "breakpoint", "help", "aiter", "anext"):
            if name in ("dict",):
                self.expose_args(n, args, kws, "`dict()`")
            if name not in ("open",):
                self.flag_time_args(n, args, kws, f"`{name}()`") if name in ("setattr", "exec", "eval") else None
            return AV(aroots, INT if name in ("any", "all") else UNK)
        if name.endswith("Error") or name.endswith("Exception") or name.endswith("Warning") or name in ("StopIteration", "KeyboardInterrupt", "SystemExit"):
            return AV(aroots, UNK)
        self.expose_args(n, args, kws, f"`{name}()`")
        return AV(aroots, UNK)


for _k, _v in list(vars(_Calls).items()):
    if not _k.startswith("__"):
        setattr(FnAnalysis, _k, _v)


# --------------------------------------------------------------------------
# public API
# --------------------------------------------------------------------------
class Result:
    def __init__(self, G: Analysis, covered):
        self.G = G
        self.prog = G.prog
        self.covered = covered  # set of function quals in F
        self.by_func = {}
        for f in G.findings:
            self.by_func.setdefault((f.func, f.clause), []).append(f)
        self.callers = {}
        for a, bs in G.edges.items():
            for b in bs:
                self.callers.setdefault(b, set()).add(a)

    def modules(self):
        out = {}
        for q in sorted(self.covered):
            fi = self.prog.funcs[q]
            out.setdefault(fi.module.name, []).append(fi)
        return out

    def obligations(self, module):
        """[(function short name, clause, verdict, detail)] for one module"""
        out = []
        for fi in self.modules().get(module, []):
            for c in CLAUSES:
                fs = self.by_func.get((fi.qual, c), [])
                fails = [f for f in fs if f.kind == "fail"]
                und = [f for f in fs if f.kind == "undecided"]
                if fails:
                    out.append((fi, c, "fail", "; ".join(sorted({f.text() for f in fails}))))
                elif und:
                    out.append((fi, c, "undecided", "; ".join(sorted({f.text() for f in und}))))
                else:
                    out.append((fi, c, "ok", ""))
        return out

    def training_roots(self, qual, limit=6):
        """names of train_* routines from which `qual` is reachable (for the replay driver)"""
        seen, todo, out = set(), [qual], []
        while todo:
            q = todo.pop()
            if q in seen:
                continue
            seen.add(q)
            fi = self.prog.funcs.get(q)
            if fi is not None and fi.kind == "def" and fi.node.name.startswith("train_") and fi.parent is None and fi.cls is None:
                out.append(fi.node.name)
            todo.extend(self.callers.get(q, ()))
        pref = ["train_dqn", "train_q_learning", "train_ddpg", "train_sac"]
        out = sorted(set(out), key=lambda x: (pref.index(x) if x in pref else 99, x))
        return out[:limit] if limit else out

    def function_record(self, fi):
        lo, hi = fi.lines
        text = "\n".join(fi.module.lines[lo - 1: hi])
        return dict(function=fi.qual, file=fi.module.rel, lines=[lo, hi], sha256=hashlib.sha256(text.encode()).hexdigest())

    def dynamic_callables(self):
        return sorted({f"{q[len(self.prog.package) + 1:]}: {d}" for q, d in self.G.dynamic if q in self.covered})


_CACHE = {}


def analyse(root=None, package="rl_blox", sources=None, anchors_all=False):
    root = root or os.environ.get("PYVC_REPO", "/repo")
    key = (root, package) if sources is None else None
    if key is not None and key in _CACHE:
        return _CACHE[key]
    prog = Program(root, package, sources)
    G = Analysis(prog).run()
    roots = list(prog.funcs) if anchors_all else G.anchor_roots()
    covered = G.reachable(roots)
    res = Result(G, covered)
    if key is not None:
        _CACHE[key] = res
    return res


CANARIES = {
    "global_rng_detected": ("import numpy as np\n\ndef f(x):\n    return x + np.random.rand()\n", "no_global_rng"),
    "unseeded_generator_detected": ("import numpy as np\n\ndef f(n):\n    rng = np.random.default_rng()\n    return rng.integers(0, n)\n", "no_global_rng"),
    "time_seed_detected": ("import time\nimport jax\n\ndef f(shape):\n    key = jax.random.key(int(time.time()))\n    return jax.random.normal(key, shape)\n", "key_discipline"),
    "time_return_detected": ("import time\n\ndef f(x):\n    t0 = time.time()\n    y = x * 2\n    return y, time.time() - t0\n", "no_time_dependence"),
    "str_set_order_detected": ("def f(names):\n    pool = set()\n    for n in names:\n        pool.add(str(n))\n    return [p for p in pool]\n", "no_unordered_iteration"),
    "unknown_key_detected": ("import jax\nimport os\n\ndef f(shape):\n    key = os.environ\n    return jax.random.normal(key, shape)\n", "key_discipline"),
}


def run_canary(name):
    """analyse a tiny synthetic module that violates one clause; returns the findings for that clause"""
    src, clause = CANARIES[name]
    res = analyse(root="/nonexistent", package="canary_pkg", sources={"canary_pkg/m.py": src}, anchors_all=True)
    return [f for f in res.G.findings if f.clause == clause and f.kind == "fail"], clause


if __name__ == "__main__":
    import sys
    import time as _t

    t0 = _t.time()
    _pos = [a for a in sys.argv[1:] if not a.startswith("-")]
    R = analyse(_pos[0] if _pos else None)
    mods = R.modules()
    nf = sum(len(v) for v in mods.values())
    print(f"modules={len(mods)} functions={nf} obligations={nf * len(CLAUSES)} rounds={R.G.rounds} time={_t.time() - t0:.2f}s")
    for f in R.G.findings:
        if f.func in R.covered:
            print(f"  [{f.kind}] {f.func}.{f.clause}: {f.text()}")
    print("sites checked:", R.G.stats, "call edges:", sum(len(v) for v in R.G.edges.values()))
    print("-- not covered but flagged:")
    for f in R.G.findings:
        if f.func not in R.covered:
            print(f"  [{f.kind}] {f.func}.{f.clause}: {f.text()}")
    if "-v" in sys.argv:
        for n in sorted(R.G.notes):
            print("  note:", n)
        print("dynamic:", R.dynamic_callables())
    for c in CANARIES:
        fs, cl = run_canary(c)
        print("canary", c, "->", [f.text() for f in fs][:2])
