"""Shape-typed symbolic tensors (DESIGN 3.3).

Rank is concrete, dimensions are python ints or symbolic Int terms (Sym).  A
tensor is a function from index terms to a scalar value.  Broadcasting /
squeeze / unpack decisions are syntactic on the dimensions, exactly as NumPy
decides them at run time under the scenario (distinct symbols denote distinct
sizes >= 2); an operation NumPy would reject raises ShapeError.

Reductions over a symbolic axis are uninterpreted Sum / Max nodes registered in
the path state; the congruence rule (pointwise equal integrands => equal sums)
is applied on demand by `close_sums` and is backed by lemmas/SumLemmas.lean.
"""
from __future__ import annotations

from fractions import Fraction

import z3

from . import core as C
from .core import BOOL, INT, REAL, ROW, VAL, PyRaise, ShapeError, Sym, Unsupported

CUR = {"st": None}  # current PathState (set by the driver for each path)

UNROLL_MAX = 6


def st():
    s = CUR["st"]
    assert s is not None
    return s


def dim_eq(a, b):
    if isinstance(a, int) and isinstance(b, int):
        return a == b
    if isinstance(a, Sym) and isinstance(b, Sym):
        return z3.eq(z3.simplify(a.z), z3.simplify(b.z))
    return False


def dim_is_one(a):
    return isinstance(a, int) and a == 1


def dim_z(a):
    return z3.IntVal(a) if isinstance(a, int) else a.z


def norm_dim(d):
    if isinstance(d, Sym):
        c = C.concrete_of(z3.simplify(d.z))
        if c is not None:
            return int(c)
        return d
    if isinstance(d, Fraction):
        if d.denominator != 1:
            raise PyRaise("TypeError", "non-integer dimension")
        return int(d)
    return d


def sort_of_value(v):
    if isinstance(v, bool):
        return BOOL
    if isinstance(v, int):
        return INT
    if isinstance(v, (Fraction, float)):
        return REAL
    if isinstance(v, Sym):
        return v.z.sort()
    raise Unsupported(f"tensor element {type(v).__name__}")


class Tensor:
    def __init__(self, shape, fn, sort=REAL, gdeps=frozenset(), rows=None, name=None):
        self.shape = tuple(norm_dim(d) for d in shape)
        self.fn = fn
        self.sort = sort
        self.gdeps = gdeps
        self.rows = rows  # optional: fn(*batch_idx) -> z3 ROW term (last axis = features)
        self.name = name
        self.np_strict = False  # NumPy array: out-of-range integer indexing raises IndexError

    # -- basics ---------------------------------------------------------
    @property
    def ndim(self):
        return len(self.shape)

    def at(self, *idx):
        """element as a python value / Sym (memoised per index tuple: the
        element functions are pure, and sharing avoids re-evaluating a lazily
        defined operand once per use)"""
        memo = self.__dict__.setdefault("_memo", {})
        key = tuple(i if isinstance(i, int) else C.to_z3(i).get_id() for i in idx)
        hit = memo.get(key)
        if hit is not None:
            return hit[0]
        v = self._at(*idx)
        if len(memo) < 5000:
            memo[key] = (v, idx)
        return v

    def _at(self, *idx):
        v = self.fn(*idx)
        if isinstance(v, z3.ExprRef):
            v = Sym(v)
        if self.gdeps and isinstance(v, Sym) and not v.gdeps:
            v = Sym(v.z, self.gdeps)
        elif self.gdeps and not isinstance(v, Sym):
            v = Sym(C.to_z3(v), self.gdeps)
        return v

    def size_is_one(self):
        return all(dim_is_one(d) for d in self.shape)

    def item(self):
        if not self.size_is_one():
            raise PyRaise("ValueError", "can only convert an array of size 1 to a scalar")
        return self.at(*([0] * self.ndim))

    def dim_value(self, k):
        d = self.shape[k]
        return d

    def unpack_axis0(self):
        if not self.shape:
            raise PyRaise("TypeError", "iteration over a 0-d array")
        d = self.shape[0]
        if not isinstance(d, int):
            raise PyRaise("ValueError", f"unpacking an array along a symbolic leading dimension {d}")
        return [index(self, k) for k in range(d)]

    def havoc(self, pst, name):
        base = pst.fresh_name(name)
        f = z3.Function(base, *([INT] * self.ndim + [self.sort])) if self.ndim else None
        if f is None:
            c = z3.Const(base, self.sort)
            return Tensor((), lambda: c, self.sort, self.gdeps)
        return Tensor(self.shape, lambda *i: f(*[C.to_z3(x) for x in i]), self.sort, self.gdeps)

    def __repr__(self):
        return f"<Tensor {self.name or ''} shape={self.shape} sort={self.sort}>"

    # operator overloading for spec code
    def __add__(self, o):
        return tensor_binop("+", self, o)

    def __radd__(self, o):
        return tensor_binop("+", o, self)

    def __sub__(self, o):
        return tensor_binop("-", self, o)

    def __rsub__(self, o):
        return tensor_binop("-", o, self)

    def __mul__(self, o):
        return tensor_binop("*", self, o)

    def __rmul__(self, o):
        return tensor_binop("*", o, self)

    def __truediv__(self, o):
        return tensor_binop("/", self, o)

    def __neg__(self):
        return tensor_unop("-", self)

    def __pow__(self, o):
        return tensor_binop("**", self, o)


def fresh_tensor(name, shape, sort=REAL, is_input=True, gdeps=frozenset()):
    pst = st()
    base = pst.fresh_name(name)
    shape = tuple(norm_dim(d) for d in shape)
    if not shape:
        c = z3.Const(base, sort)
        if is_input:
            pst.inputs[base] = c
        return Tensor((), lambda: c, sort, gdeps, name=name)
    f = z3.Function(base, *([INT] * len(shape) + [sort]))
    if is_input:
        pst.inputs[base] = ("tensor", f, shape)
    return Tensor(shape, lambda *i: f(*[C.to_z3(x) for x in i]), sort, gdeps, name=name)


def from_scalar(v):
    return Tensor((), lambda: v, sort_of_value(v), C.gdeps_of(v))


def from_list(vals):
    """python (nested) list -> tensor with concrete shape"""
    if isinstance(vals, Tensor):
        return vals
    if not isinstance(vals, (list, tuple)):
        return from_scalar(vals)
    elems = [from_list(v) for v in vals]
    if not elems:
        return Tensor((0,), lambda i: 0, REAL)
    sh = elems[0].shape
    for e in elems:
        if len(e.shape) != len(sh) or not all(dim_eq(a, b) for a, b in zip(e.shape, sh)):
            raise PyRaise("ValueError", "inhomogeneous shape")
    n = len(elems)
    sort = join_sorts([e.sort for e in elems])
    gd = frozenset().union(*[e.gdeps for e in elems])

    def fn(i, *rest):
        if isinstance(i, int):
            return elems[i].at(*rest)
        iz = C.to_z3(i)
        c = C.concrete_of(z3.simplify(iz))
        if c is not None:
            return elems[int(c)].at(*rest)
        r = elems[n - 1].at(*rest)
        for k in range(n - 2, -1, -1):
            r = C.ite(Sym(iz == k), elems[k].at(*rest), r)
        return r

    rows = None
    if len(sh) == 1 and all(e.rows is not None for e in elems):
        def rows(i):
            iz = C.to_z3(i)
            c = C.concrete_of(z3.simplify(iz))
            if c is not None:
                return elems[int(c)].rows()
            r = elems[n - 1].rows()
            for k in range(n - 2, -1, -1):
                r = z3.If(iz == k, elems[k].rows(), r)
            return r
    return Tensor((n,) + tuple(sh), fn, sort, gd, rows=rows)


def join_sorts(sorts):
    s = set(str(x) for x in sorts)
    if "Val" in s:
        if len(s) > 1:
            raise Unsupported("mixing opaque payloads with numbers")
        return VAL
    if "Real" in s:
        return REAL
    if "Int" in s:
        return INT
    return BOOL if s else REAL


def as_tensor(x):
    if isinstance(x, Tensor):
        return x
    if isinstance(x, (list, tuple)):
        return from_list(list(x))
    return from_scalar(x)


def unwrap0(t):
    """0-d tensors are handed to python code as scalars"""
    if isinstance(t, Tensor) and t.ndim == 0:
        return t.at()
    return t


# --------------------------------------------------------------------------
# broadcasting
# --------------------------------------------------------------------------


def broadcast_shapes(*shapes):
    n = max(len(s) for s in shapes)
    out = []
    for k in range(n):
        d = 1
        for s in shapes:
            j = k - (n - len(s))
            if j < 0:
                continue
            e = s[j]
            if dim_is_one(e):
                continue
            if dim_is_one(d):
                d = e
            elif not dim_eq(d, e):
                raise ShapeError(f"operands could not be broadcast together: {shapes}")
        out.append(d)
    return tuple(out)


def _bidx(t, out_ndim, idx):
    """index tuple for operand t given the broadcast output index"""
    off = out_ndim - t.ndim
    return tuple(0 if dim_is_one(t.shape[j]) else idx[j + off] for j in range(t.ndim))


def elementwise(f, *ts, sort=None):
    ts = [as_tensor(t) for t in ts]
    shape = broadcast_shapes(*[t.shape for t in ts])
    n = len(shape)
    gd = frozenset().union(*[t.gdeps for t in ts])

    def fn(*idx):
        vals = [t.at(*_bidx(t, n, idx)) for t in ts]
        return f(*vals)

    if sort is None:
        # probe the sort with skolem indices
        probe = fn(*[z3.Int(f"probe!{k}") for k in range(n)])
        sort = sort_of_value(probe)
    r = Tensor(shape, fn, sort, gd)
    r.np_strict = any(t.np_strict for t in ts)
    return unwrap0(r)


def tensor_binop(op, a, b):
    return elementwise(lambda x, y: C.binop(op, x, y), a, b)


def tensor_unop(op, a):
    return elementwise(lambda x: C.unop(op, x), a)


def tensor_compare(op, a, b):
    if op in ("is", "is not"):
        return (a is b) if op == "is" else (a is not b)
    return elementwise(lambda x, y: C.compare(op, x, y), a, b, sort=BOOL)


def where(c, a, b):
    return elementwise(lambda cc, x, y: C.ite(cc, x, y), c, a, b)


def tabs(a):
    return elementwise(C.sabs, a)


def tmin(a, b):
    return elementwise(lambda x, y: C.smin(x, y), a, b)


def tmax(a, b):
    return elementwise(lambda x, y: C.smax(x, y), a, b)


def clip(x, lo, hi):
    # numpy/jax: minimum(maximum(x, lo), hi)
    r = x
    if lo is not None:
        r = tmax(r, lo)
    if hi is not None:
        r = tmin(r, hi)
    return r


# --------------------------------------------------------------------------
# scalar functions (uninterpreted, with axioms on demand)
# --------------------------------------------------------------------------

AXIOMS = {}


def _ax(name):
    def deco(f):
        AXIOMS[name] = f
        return f

    return deco


def scalar_fn(name, x, E=None):
    """apply an uninterpreted R->R function with its point axioms"""
    pst = st()
    f = C.uf(name, REAL, REAL)
    if isinstance(x, (int, Fraction)) and name in _CONST_FOLD:
        r = _CONST_FOLD[name](Fraction(x))
        if r is not None:
            return r
    xz = C.as_real(x)
    y = f(xz)
    # point axioms (AXIOMS[name]) are added per query by state.theory_axioms
    return Sym(y, C.gdeps_of(x))


_CONST_FOLD = {
    "exp": lambda q: Fraction(1) if q == 0 else None,
    "log": lambda q: Fraction(0) if q == 1 else None,
    "sqrt": lambda q: Fraction(0) if q == 0 else (Fraction(1) if q == 1 else None),
    "tanh": lambda q: Fraction(0) if q == 0 else None,
    "sign": lambda q: Fraction((q > 0) - (q < 0)),
    "cos": lambda q: Fraction(1) if q == 0 else None,
    "sin": lambda q: Fraction(0) if q == 0 else None,
}


@_ax("exp")
def _ax_exp(x, y):
    return [y > 0, z3.Implies(x == 0, y == 1), z3.Implies(x > 0, y > 1), z3.Implies(x < 0, y < 1), y >= 1 + x]


@_ax("log")
def _ax_log(x, y):
    out = [z3.Implies(x == 1, y == 0), z3.Implies(x > 1, y > 0), z3.Implies(z3.And(x > 0, x < 1), y < 0)]
    # log(exp(t)) == t;  a, b > 0 => log(a / b) == log(a) - log(b)  (instantiated for the
    # syntactic shapes exp(t) and a / b of the argument; Real.log_exp, Real.log_div)
    lg = y.decl()

    def is_exp(e):
        return z3.is_app(e) and e.decl().kind() == z3.Z3_OP_UNINTERPRETED and e.decl().name() == "exp" and e.num_args() == 1

    if is_exp(x):
        out.append(y == x.arg(0))
    elif z3.is_app(x) and x.decl().kind() == z3.Z3_OP_DIV and x.num_args() == 2:
        a, b = x.arg(0), x.arg(1)
        out.append(z3.Implies(z3.And(a > 0, b > 0), y == lg(a) - lg(b)))
        if is_exp(a):
            out.append(lg(a) == a.arg(0))
    return out


@_ax("sqrt")
def _ax_sqrt(x, y):
    return [z3.Implies(x >= 0, z3.And(y >= 0, y * y == x))]


@_ax("tanh")
def _ax_tanh(x, y):
    return [y >= -1, y <= 1, z3.Implies(x == 0, y == 0), z3.Implies(x > 0, y > 0), z3.Implies(x < 0, y < 0)]


@_ax("sigmoid")
def _ax_sigmoid(x, y):
    return [y > 0, y < 1]


@_ax("softplus")
def _ax_softplus(x, y):
    # softplus(x) = max(x, 0) + log(1 + exp(-|x|)) <= max(x, 0) + ln 2 < max(x, 0) + 7/10
    return [y > 0, y > x, y < z3.If(x > 0, x, z3.RealVal(0)) + z3.RealVal("7/10")]


@_ax("sign")
def _ax_sign(x, y):
    return [y == z3.If(x > 0, z3.RealVal(1), z3.If(x < 0, z3.RealVal(-1), z3.RealVal(0)))]


@_ax("cos")
def _ax_cos(x, y):
    return [y >= -1, y <= 1]


@_ax("sin")
def _ax_sin(x, y):
    return [y >= -1, y <= 1]


@_ax("arccos")
def _ax_arccos(x, y):
    return [y >= 0]


def tfn(name, x):
    if isinstance(x, Tensor):
        return elementwise(lambda v: scalar_fn(name, v), x, sort=REAL)
    return scalar_fn(name, x)


def tpow(x, p):
    return tensor_binop("**", x, p)


# --------------------------------------------------------------------------
# reductions
# --------------------------------------------------------------------------


class RNode:
    """Reduction node: kind in sum|max|min; value function vf(*params),
    argument function af(*params) for max/min; body(params..., j)"""

    def __init__(self, kind, dim, nparams, body, vf, af=None, sort=REAL):
        self.kind = kind
        self.dim = dim
        self.nparams = nparams
        self.body = body
        self.vf = vf
        self.af = af
        self.sort = sort
        self.equal_to = set()


def _apply(f, ps):
    return f(*ps) if ps else f()


def _mk_fun(base, nparams, sort):
    if nparams == 0:
        c = z3.Const(base, sort)
        return lambda: c
    f = z3.Function(base, *([INT] * nparams + [sort]))
    return lambda *p: f(*[C.to_z3(x) for x in p])


_HC_KEEP = []  # keeps hashed z3 terms alive so that their ids stay unique


def hashcons_key(pst, tag, dims, body, nidx, sort):
    """structural key of an index->value function: (tag, extents, sort, term of
    body at canonical index variables); None when hash-consing is off"""
    if pst.ghost.get("hashcons") is None:
        return None
    probes = [z3.Int(f"hc!{k}") for k in range(nidx)]
    try:
        e = C.to_z3(body(*probes))
    except (z3.Z3Exception, Unsupported, PyRaise):
        return None
    _HC_KEEP.append(e)
    dk = tuple(x if isinstance(x, int) else z3.simplify(x.z).get_id() for x in dims)
    for x in dims:
        if not isinstance(x, int):
            _HC_KEEP.append(z3.simplify(x.z))
    return (tag, dk, str(sort), e.get_id())


def reduce_axis(t: Tensor, axis: int, kind: str):
    """reduce one axis; returns tensor of rank-1 (or scalar value)"""
    t = as_tensor(t)
    if t.ndim == 0:
        return t.at()
    if axis < 0:
        axis += t.ndim
    if not (0 <= axis < t.ndim):
        raise PyRaise("ValueError", f"axis {axis} out of bounds for rank {t.ndim}")
    d = t.shape[axis]
    rest = t.shape[:axis] + t.shape[axis + 1:]
    gd = t.gdeps

    def full_idx(ps, j):
        return tuple(ps[:axis]) + (j,) + tuple(ps[axis:])

    if isinstance(d, int) and d <= UNROLL_MAX:
        if d == 0:
            if kind == "sum":
                return unwrap0(Tensor(rest, lambda *p: 0, t.sort, gd))
            raise PyRaise("ValueError", "zero-size array to reduction operation")

        def fn(*ps):
            vals = [t.at(*full_idx(ps, j)) for j in range(d)]
            r = vals[0]
            for v in vals[1:]:
                if kind == "sum":
                    r = C.binop("+", r, v)
                elif kind == "max":
                    r = C.smax(r, v)
                elif kind == "min":
                    r = C.smin(r, v)
                elif kind == "argmax":
                    raise AssertionError
            return r

        if kind in ("argmax", "argmin"):
            def fn(*ps):  # noqa: F811
                vals = [t.at(*full_idx(ps, j)) for j in range(d)]
                best, bi = vals[0], 0
                for j, v in enumerate(vals[1:], 1):
                    better = C.compare(">" if kind == "argmax" else "<", v, best)
                    bi = C.ite(better, j, bi)
                    best = C.ite(better, v, best)
                return bi
            return unwrap0(Tensor(rest, fn, INT, frozenset()))
        return unwrap0(Tensor(rest, fn, t.sort if t.sort != BOOL else INT, gd))

    pst = st()
    nparams = len(rest)
    dz = dim_z(d)
    if kind == "sum":
        sort = REAL if t.sort == REAL else INT
        body = lambda *a: C.as_num(t.at(*full_idx(a[:-1], a[-1])))  # noqa: E731
        # opt-in (pst.ghost["hashcons"] = {}): two sums with syntactically identical
        # integrands (as terms in canonical index variables) over the same extent are
        # the same node - the congruence rule in its trivial, solver-free case
        hkey = hashcons_key(pst, "sum", (d,) + tuple(rest), body, nparams + 1, sort)
        if hkey is not None and hkey in pst.ghost["hashcons"]:
            vf = pst.ghost["hashcons"][hkey][0].vf
            return unwrap0(Tensor(rest, lambda *p: _apply(vf, p), sort, gd))
        base = pst.fresh_name("sum")
        vf = _mk_fun(base, nparams, sort)
        node = RNode("sum", d, nparams, body, vf, sort=sort)
        node.pdims = rest
        pst.sums.append(node)
        if hkey is not None:
            pst.ghost["hashcons"][hkey] = (node, hkey)
        return unwrap0(Tensor(rest, lambda *p: _apply(vf, p), sort, gd))
    if kind in ("max", "min", "argmax", "argmin"):
        mk = "max" if kind in ("max", "argmax") else "min"
        # reuse an existing node over the same tensor/axis
        key = (id(t), axis, mk)
        cache = pst.ghost.setdefault("rnode_cache", {})
        node = cache.get(key)
        if node is None:
            # the reduction is defined only for a non-empty axis
            pst.assume(dz >= 1)
            base = pst.fresh_name(mk)
            sort = t.sort if t.sort in (REAL, INT) else INT
            vf = _mk_fun(base, nparams, sort)
            af = _mk_fun(base + "!arg", nparams, INT)
            body = lambda *a: C.as_num(t.at(*full_idx(a[:-1], a[-1])))  # noqa: E731
            node = RNode(mk, d, nparams, body, vf, af, sort=sort)
            node._keep = t
            node.pdims = rest
            cache[key] = node
            pst.sums.append(node)
            sorts = [INT] * (nparams + 1)
            if mk == "max":
                pst.assume_forall(sorts, lambda *a: z3.Implies(z3.And(a[-1] >= 0, a[-1] < dz), body(*a) <= _apply(vf, a[:-1])), f"{base}.ub")
                pst.assume_forall(sorts, lambda *a: z3.Implies(z3.And(a[-1] >= 0, a[-1] < _apply(af, a[:-1])), body(*a) < _apply(vf, a[:-1])), f"{base}.first")
            else:
                pst.assume_forall(sorts, lambda *a: z3.Implies(z3.And(a[-1] >= 0, a[-1] < dz), body(*a) >= _apply(vf, a[:-1])), f"{base}.lb")
                pst.assume_forall(sorts, lambda *a: z3.Implies(z3.And(a[-1] >= 0, a[-1] < _apply(af, a[:-1])), body(*a) > _apply(vf, a[:-1])), f"{base}.first")
            wit = lambda *p: z3.And(_apply(af, p) >= 0, _apply(af, p) < dz, body(*(tuple(p) + (_apply(af, p),))) == _apply(vf, p))  # noqa: E731
            if nparams == 0:
                pst.assume(wit(), name=f"{mk}.wit")
            else:
                pst.assume_forall([INT] * nparams, wit, f"{base}.wit")
        if kind in ("max", "min"):
            return unwrap0(Tensor(rest, lambda *p: _apply(node.vf, p), node.sort, gd))
        return unwrap0(Tensor(rest, lambda *p: _apply(node.af, p), INT, frozenset()))
    raise Unsupported(kind)


def reduce(t, kind, axis=None, keepdims=False):
    t = as_tensor(t)
    if keepdims:
        raise Unsupported("keepdims")
    if axis is None:
        if kind in ("argmax", "argmin"):
            if t.ndim == 1:
                return reduce_axis(t, 0, kind)
            # flattened argmax
            flat = reshape(t, (-1,))
            return reduce_axis(flat, 0, kind)
        r = t
        while isinstance(r, Tensor) and r.ndim > 0:
            r = reduce_axis(r, r.ndim - 1, kind)
        return r
    if isinstance(axis, (tuple, list)):
        r = t
        for a in sorted([a if a >= 0 else a + t.ndim for a in axis], reverse=True):
            r = reduce_axis(r, a, kind)
        return r
    if isinstance(axis, Sym):
        c = C.concrete_of(z3.simplify(axis.z))
        if c is None:
            raise Unsupported("symbolic axis")
        axis = int(c)
    return reduce_axis(t, axis, kind)


def numel(t):
    n = 1
    for d in t.shape:
        n = C.binop("*", n, d)
    return n


def mean(t, axis=None):
    t = as_tensor(t)
    if t.ndim == 0:
        return t.at()
    s = reduce(t, "sum", axis)
    if axis is None:
        n = numel(t)
    elif isinstance(axis, (tuple, list)):
        n = 1
        for a in axis:
            n = C.binop("*", n, t.shape[a])
    else:
        n = t.shape[axis]
    return C.binop("/", s, n) if not isinstance(s, Tensor) else tensor_binop("/", s, n)


def _node_names(node):
    """names of the function symbols that denote the node's value / argument"""
    nm = getattr(node, "_names", None)
    if nm is None:
        ps = [z3.Int(f"nn!{k}") for k in range(node.nparams)]
        nm = set()
        for f in (node.vf, node.af):
            if f is not None:
                try:
                    nm.add(C.to_z3(_apply(f, ps)).decl().name())
                except (z3.Z3Exception, AttributeError):
                    pass
        node._names = nm = frozenset(nm)
    return nm


def _body_symbols(node):
    """uninterpreted symbols occurring in the node's integrand (cached)"""
    sy = getattr(node, "_syms", None)
    if sy is None:
        sy = set()
        try:
            e = C.to_z3(node.body(*[z3.Int(f"bs!{k}") for k in range(node.nparams + 1)]))
            seen, stack = set(), [e]
            while stack and len(seen) < 100000:
                x = stack.pop()
                if x.get_id() in seen:
                    continue
                seen.add(x.get_id())
                if z3.is_app(x):
                    if x.decl().kind() == z3.Z3_OP_UNINTERPRETED:
                        sy.add(x.decl().name())
                    stack.extend(x.children())
        except (z3.Z3Exception, Unsupported, PyRaise):
            sy = None
        node._syms = sy = frozenset(sy) if sy is not None else _ANY
    return sy


class _Any(frozenset):
    """'may mention anything' (the integrand could not be inspected)"""

    def __and__(self, other):
        return other

    __rand__ = __and__

    def __or__(self, other):
        return self

    __ror__ = __or__


_ANY = _Any()


def _relevant_nodes(nodes, goal):
    """indices of the reduction nodes whose value occurs in `goal`, closed under
    'occurs in the integrand of a relevant node'"""
    syms = set()
    seen, stack = set(), [goal]
    while stack and len(seen) < 200000:
        x = stack.pop()
        if x.get_id() in seen:
            continue
        seen.add(x.get_id())
        if z3.is_quantifier(x):
            stack.append(x.body())
        elif z3.is_app(x):
            if x.decl().kind() == z3.Z3_OP_UNINTERPRETED:
                syms.add(x.decl().name())
            stack.extend(x.children())
    rel = set()
    changed = True
    while changed:
        changed = False
        for k, nd in enumerate(nodes):
            if k not in rel and (_node_names(nd) & syms):
                rel.add(k)
                bs = _body_symbols(nd)
                if isinstance(bs, _Any):
                    return None
                syms |= bs
                changed = True
    return rel


CONGR_FAIL_BUDGET_S = 25.0


def close_sums(pst, prove, goal=None, budget_s=None):
    """Congruence rule for reduction nodes: pointwise equal bodies (same
    dimension) => equal values.  Returns number of equalities added.
    goal: when given, only nodes that occur in it (directly or nested in the
    integrand of such a node) are considered - the caller falls back to the
    full closure when that was not enough."""
    added = 0
    nodes = pst.sums
    rel = _relevant_nodes(nodes, goal) if goal is not None else None
    import time as _time

    t_end = _time.time() + budget_s if budget_s else None  # budget: giving up early is only incompleteness
    for _round in range(4):
        new = 0
        for a_i in range(len(nodes)):
            if rel is not None and a_i not in rel:
                continue
            for b_i in range(a_i + 1, len(nodes)):
                if rel is not None and b_i not in rel:
                    continue
                if t_end is not None and _time.time() > t_end:
                    return added + new
                a, b = nodes[a_i], nodes[b_i]
                if a.kind != b.kind or a.nparams != b.nparams or not dim_eq(a.dim, b.dim) or a.sort != b.sort:
                    continue
                if b_i in a.equal_to:
                    continue
                sk = [z3.Int(f"cg!{a_i}!{b_i}!{k}") for k in range(a.nparams + 1)]
                dz = dim_z(a.dim)
                # parameters range over the non-reduced dimensions (when both nodes recorded them)
                pda, pdb = getattr(a, "pdims", None), getattr(b, "pdims", None)
                prng = lambda *p: z3.BoolVal(True)  # noqa: E731
                if pda and pdb is not None and len(pda) == len(pdb) == a.nparams and all(dim_eq(x, y) for x, y in zip(pda, pdb)):
                    prng = lambda *p, pda=pda: z3.And(*[z3.And(C.to_z3(p[k]) >= 0, C.to_z3(p[k]) < dim_z(pda[k])) for k in range(len(pda))])  # noqa: E731
                try:
                    goal = z3.Implies(z3.And(prng(*sk[:-1]), sk[-1] >= 0, sk[-1] < dz), a.body(*sk) == b.body(*sk))
                except (z3.Z3Exception, Unsupported, PyRaise):
                    continue
                # a pair that was not provable is retried only when facts arrived that can
                # matter for it: harness facts (hypotheses / assumptions), or a congruence
                # equality about a reduction nested in one of the two integrands;
                # a ground-instantiation 'sat' is enough to give up (quick: no MBQI re-check)
                failed_pairs = pst.ghost.setdefault("congr_failed", {})
                clog = pst.ghost.setdefault("congr_log", [])
                user_facts = len(pst.qfacts) + len(pst.pc) - pst.ghost.get("goal_facts", 0) - pst.ghost.get("congr_facts", 0)
                prev = failed_pairs.get((a_i, b_i))
                if prev is not None and prev[0] == user_facts:
                    syms = _body_symbols(a) | _body_symbols(b)
                    if not any(names & syms for names in clog[prev[1]:]):
                        continue
                # once a lot of time went into attempts that failed, only integrands over the
                # same symbols are still compared (giving up is incompleteness, never unsoundness)
                if pst.ghost.get("congr_fail_time", 0.0) > CONGR_FAIL_BUDGET_S and _body_symbols(a) != _body_symbols(b):
                    continue
                _t0 = _time.time()
                v, *_ = prove(pst.pc, pst.qfacts, goal, extra_pool=sk, timeout_ms=3000, quick=True)
                if v != "unsat":
                    failed_pairs[(a_i, b_i)] = (user_facts, len(clog))
                    pst.ghost["congr_fail_time"] = pst.ghost.get("congr_fail_time", 0.0) + (_time.time() - _t0)
                if v == "unsat":
                    a.equal_to.add(b_i)
                    clog.append(_node_names(a) | _node_names(b))
                    pst.ghost["congr_facts"] = pst.ghost.get("congr_facts", 0) + (1 if a.af is None else 2)
                    if a.nparams == 0:
                        pst.assume(a.vf() == b.vf())
                        if a.af is not None:
                            pst.assume(a.af() == b.af())
                    else:
                        pst.assume_forall([INT] * a.nparams, lambda *p, a=a, b=b, prng=prng: z3.Implies(prng(*p), _apply(a.vf, p) == _apply(b.vf, p)), "sum.congr")
                        if a.af is not None:
                            pst.assume_forall([INT] * a.nparams, lambda *p, a=a, b=b, prng=prng: z3.Implies(prng(*p), _apply(a.af, p) == _apply(b.af, p)), "arg.congr")
                    new += 1
        added += new
        if not new:
            break
    return added


# --------------------------------------------------------------------------
# indexing / reshaping
# --------------------------------------------------------------------------


def _norm_index_int(i, d):
    """python-style negative index for concrete ints"""
    if isinstance(i, int) and i < 0:
        return C.binop("+", d, i)
    return i


def _norm_slice_bound(v, d):
    """slice bound with python semantics for negative values: a symbolic bound
    that may be negative counts from the end (v + d), decided from the path
    condition where possible"""
    v = _norm_index_int(v, d)
    if isinstance(v, Sym) and v.z.sort() == INT:
        from .state import prove

        pst = st()
        r, *_ = prove(pst.pc, pst.qfacts, v.z >= 0, extra_pool=list(pst.pool), timeout_ms=3000, quick=True)
        if r == "unsat":
            return v
        r, *_ = prove(pst.pc, pst.qfacts, v.z < 0, extra_pool=list(pst.pool), timeout_ms=3000, quick=True)
        if r == "unsat":
            return C.binop("+", v, d)
        return C.ite(C.compare("<", v, 0), C.binop("+", v, d), v)
    return v


def index(t: Tensor, idx):
    """NumPy basic + (limited) advanced indexing."""
    t = as_tensor(t)
    if not isinstance(idx, tuple):
        idx = (idx,)
    # expand Ellipsis
    if any(isinstance(i, C.Opaque) and i.tag == "Ellipsis" for i in idx):
        k = [isinstance(i, C.Opaque) and i.tag == "Ellipsis" for i in idx].index(True)
        n_real = sum(1 for i in idx if i is not None and not (isinstance(i, C.Opaque) and i.tag == "Ellipsis"))
        fill = (slice(None),) * (t.ndim - n_real)
        idx = idx[:k] + fill + idx[k + 1:]
    n_real = sum(1 for i in idx if i is not None)
    if n_real > t.ndim:
        raise PyRaise("IndexError", f"too many indices for array: rank {t.ndim}, {n_real} indices")
    idx = idx + (slice(None),) * (t.ndim - n_real)
    adv = [i for i in idx if isinstance(i, Tensor) or isinstance(i, (list,))]
    adv = [as_tensor(a) for a in adv]
    if adv:
        if any(a.sort == BOOL for a in adv):
            raise Unsupported("boolean mask indexing")
        adv_shape = broadcast_shapes(*[a.shape for a in adv])
    else:
        adv_shape = ()
    # output shape: numpy places advanced dims at the position of the first
    # advanced index when they are adjacent; we support the adjacent case
    out_shape = []
    plan = []  # per source axis: ('int', v) | ('slice', lo, step, outpos) | ('adv', tensor)
    adv_pos = None
    src_axis = 0
    adv_seen = 0
    positions = [k for k, i in enumerate(idx) if isinstance(i, (Tensor, list))]
    if positions and positions != list(range(positions[0], positions[0] + len(positions))):
        # separated advanced indices: allow only when separated by ints
        between = idx[positions[0]: positions[-1] + 1]
        if any(isinstance(b, slice) or b is None for b in between):
            raise Unsupported("non-adjacent advanced indices")
    for i in idx:
        if i is None:
            plan.append(("new",))
            out_shape.append(1)
            continue
        d = t.shape[src_axis]
        if isinstance(i, slice):
            lo, hi, step = i.start, i.stop, i.step
            if step not in (None, 1):
                if step == -1 and lo is None and hi is None:
                    plan.append(("rev", d, len(out_shape)))
                    out_shape.append(d)
                    src_axis += 1
                    continue
                raise Unsupported("slice step")
            lo = 0 if lo is None else _norm_slice_bound(lo, d)
            hi = d if hi is None else _norm_slice_bound(hi, d)
            # clamp (python slicing semantics) for symbolic bounds
            if isinstance(lo, (Sym,)) or isinstance(hi, Sym) or isinstance(d, Sym):
                # bounds that provably need no clamping keep their syntactic form
                # (x[:k] has length k, x[a:a+m] has length m), as in at_set
                lo_in = (isinstance(lo, int) and not isinstance(lo, bool) and lo == 0) or (
                    isinstance(lo, (int, Sym)) and not isinstance(lo, bool) and _entails_in_range(lo, d))
                hi_in = isinstance(hi, (int, Sym)) and not isinstance(hi, bool) and hi is not d and _entails_in_range(hi, d)
                lo_c = (lo if lo_in else C.smax(0, C.smin(lo, d))) if not (isinstance(lo, int) and lo == 0) else 0
                hi_c = (hi if hi_in else C.smax(0, C.smin(hi, d))) if not (hi is d) else d
                if isinstance(lo_c, int) and lo_c == 0:
                    ln = hi_c
                elif lo_in and hi_in and _entails_in_range(C.binop("-", hi, lo), d):
                    ln = C.binop("-", hi_c, lo_c)
                elif lo_in and hi is d:
                    ln = C.binop("-", d, lo_c)  # x[a:] with 0 <= a <= d has length d - a
                else:
                    ln = C.smax(0, C.binop("-", hi_c, lo_c))
                lo = lo_c
            else:
                lo = max(0, min(lo, d))
                hi = max(0, min(hi, d))
                ln = max(0, hi - lo)
            plan.append(("slice", lo, len(out_shape)))
            out_shape.append(ln)
            src_axis += 1
        elif isinstance(i, (Tensor, list)):
            a = adv[adv_seen]
            adv_seen += 1
            if adv_pos is None:
                adv_pos = len(out_shape)
                out_shape.extend(adv_shape)
            plan.append(("adv", a, d))
            src_axis += 1
        else:
            # integer
            if isinstance(i, Fraction):
                raise PyRaise("IndexError", "only integers are valid indices")
            if isinstance(i, Sym) and i.z.sort() != INT:
                if i.z.sort() == BOOL:
                    raise Unsupported("boolean scalar index")
                raise PyRaise("IndexError", "only integers are valid indices")
            if isinstance(i, int) and isinstance(d, int):
                if not (-d <= i < d):
                    raise PyRaise("IndexError", f"index {i} is out of bounds for axis with size {d}")
            ii = _norm_index_int(i, d)
            plan.append(("int", ii))
            src_axis += 1
    out_shape = tuple(out_shape)
    n_adv = len(adv_shape)

    def fn(*o):
        src = []
        for p in plan:
            if p[0] == "new":
                continue
            if p[0] == "int":
                src.append(p[1])
            elif p[0] == "slice":
                pos = p[2]
                if adv_pos is not None and pos >= adv_pos + n_adv:
                    pass
                src.append(C.binop("+", p[1], o[pos]) if not (isinstance(p[1], int) and p[1] == 0) else o[pos])
            elif p[0] == "rev":
                src.append(C.binop("-", C.binop("-", p[1], 1), o[p[2]]))
            elif p[0] == "adv":
                a = p[1]
                ao = o[adv_pos: adv_pos + n_adv]
                v = a.at(*_bidx(a, n_adv, ao))
                src.append(v)
        return t.at(*src)

    rows = None
    # row structure survives when the last axis is untouched and batch axes are indexed
    if t.rows is not None and plan and plan[-1][0] == "slice" and isinstance(plan[-1][1], int) and plan[-1][1] == 0 and dim_eq(out_shape[-1], t.shape[-1]) if out_shape else False:
        def rows(*o):
            full = list(o) + [0]
            src = []
            for p in plan:
                if p[0] == "new":
                    continue
                if p[0] == "int":
                    src.append(p[1])
                elif p[0] == "slice":
                    src.append(C.binop("+", p[1], full[p[2]]) if not (isinstance(p[1], int) and p[1] == 0) else full[p[2]])
                elif p[0] == "rev":
                    src.append(C.binop("-", C.binop("-", p[1], 1), full[p[2]]))
                elif p[0] == "adv":
                    a = p[1]
                    ao = full[adv_pos: adv_pos + n_adv]
                    src.append(a.at(*_bidx(a, n_adv, ao)))
            return t.rows(*[C.to_z3(x) for x in src[:-1]])
    r = Tensor(out_shape, fn, t.sort, t.gdeps, rows=rows)
    r.np_strict = t.np_strict
    return unwrap0(r)


def squeeze(t, axis=None):
    t = as_tensor(t)
    if axis is None:
        keep = [k for k, d in enumerate(t.shape) if not dim_is_one(d)]
    else:
        axes = [axis] if isinstance(axis, int) else list(axis)
        axes = [a if a >= 0 else a + t.ndim for a in axes]
        for a in axes:
            if not dim_is_one(t.shape[a]):
                raise PyRaise("ValueError", "cannot select an axis to squeeze out which has size not equal to one")
        keep = [k for k in range(t.ndim) if k not in axes]
    shape = tuple(t.shape[k] for k in keep)

    def fn(*o):
        src = [0] * t.ndim
        for pos, k in enumerate(keep):
            src[k] = o[pos]
        return t.at(*src)

    rows = None
    if t.rows is not None and keep and keep[-1] == t.ndim - 1:
        def rows(*o):
            src = [0] * (t.ndim - 1)
            for pos, k in enumerate(keep[:-1]):
                src[k] = o[pos]
            return t.rows(*src)
    return unwrap0(Tensor(shape, fn, t.sort, t.gdeps, rows=rows))


def expand_dims(t, axis):
    t = as_tensor(t)
    if axis < 0:
        axis += t.ndim + 1
    idx = [slice(None)] * t.ndim
    idx.insert(axis, None)
    return index(t, tuple(idx))


def _divmod_affine(o, d):
    """(o // d, o % d); for a concrete divisor d > 0 and an index of the syntactic
    form d*q + r with a numeral 0 <= r < d (what splitting a merged axis produces)
    the exact quotient and remainder (q, r) are returned instead of div / mod terms"""
    if isinstance(d, int) and d > 0 and isinstance(o, Sym) and o.z.sort() == INT:
        e = z3.simplify(o.z)
        terms = list(e.children()) if z3.is_add(e) else [e]
        r, q = 0, None
        ok = True
        for tm in terms:
            if z3.is_int_value(tm):
                r += tm.as_long()
            elif z3.is_mul(tm) and tm.num_args() == 2 and z3.is_int_value(tm.arg(0)) and tm.arg(0).as_long() == d and q is None:
                q = tm.arg(1)
            else:
                ok = False
                break
        if ok and q is not None and 0 <= r < d:
            return Sym(q), r
    return C.binop("//", o, d), C.binop("%", o, d)


def exact_quotient(total, a):
    """total / a when that is decided syntactically: concrete sizes with a | total, or `total`
    is literally the product a * b of two dimension terms (then b); None otherwise"""
    if isinstance(total, int) and isinstance(a, int):
        return total // a if a > 0 and total % a == 0 else None
    if dim_eq(norm_dim(total), a):
        return 1
    tz = z3.simplify(dim_z(total))
    ch = tz.children() if z3.is_mul(tz) else []
    if len(ch) == 2:
        az = z3.simplify(dim_z(a))
        other = [c for c in ch if not z3.eq(z3.simplify(c), az)]
        if len(other) == 1:
            return norm_dim(Sym(other[0]))
    return None


def reshape(t, shape):
    t = as_tensor(t)
    if len(shape) == 1 and isinstance(shape[0], (tuple, list)):
        shape = tuple(shape[0])
    shape = tuple(norm_dim(s) for s in shape)
    # total element count
    non1_src = [d for d in t.shape if not dim_is_one(d)]
    tgt = list(shape)
    n_neg = sum(1 for s in tgt if isinstance(s, int) and s == -1)
    if n_neg > 1:
        raise PyRaise("ValueError", "can only specify one unknown dimension")
    if n_neg == 1 and all(isinstance(d, int) for d in t.shape) and all(isinstance(d, int) for d in tgt):
        # all sizes concrete: -1 is the quotient (NumPy raises when it is not integral)
        tot, known = 1, 1
        for d in t.shape:
            tot *= d
        for d in tgt:
            if d != -1:
                known *= d
        if known == 0 or tot % known != 0:
            raise ShapeError(f"cannot reshape array of shape {t.shape} into {shape}")
        tgt = [tot // known if d == -1 else d for d in tgt]
        shape = tuple(tgt)
        n_neg = 0
    non1_tgt = [d for d in tgt if not dim_is_one(d)]
    # case 1: only insertion/removal of unit axes (and -1 standing for the single non-unit dim)
    if len(non1_tgt) == len(non1_src):
        ok = True
        res = []
        it = iter(non1_src)
        for d in tgt:
            if dim_is_one(d):
                res.append(1)
                continue
            s = next(it)
            if isinstance(d, int) and d == -1:
                res.append(s)
            elif dim_eq(d, s):
                res.append(s)
            else:
                ok = False
                break
        if ok:
            src_pos = [k for k, d in enumerate(t.shape) if not dim_is_one(d)]
            tgt_pos = [k for k, d in enumerate(res) if not dim_is_one(d)]

            def fn(*o):
                src = [0] * t.ndim
                for sp, tp in zip(src_pos, tgt_pos):
                    src[sp] = o[tp]
                return t.at(*src)

            rows = None
            if t.rows is not None and src_pos and tgt_pos and src_pos[-1] == t.ndim - 1 and tgt_pos[-1] == len(res) - 1:
                def rows(*o):
                    src = [0] * (t.ndim - 1)
                    for sp, tp in zip(src_pos[:-1], tgt_pos[:-1]):
                        src[sp] = o[tp]
                    return t.rows(*src)
            return unwrap0(Tensor(tuple(res), fn, t.sort, t.gdeps, rows=rows))
    # case 2: flatten everything: reshape(-1)
    if len(tgt) == 1:
        if t.ndim == 0:
            return Tensor((1,), lambda i: t.at(), t.sort, t.gdeps)
        total = numel(t)
        if not (isinstance(tgt[0], int) and tgt[0] == -1) and not dim_eq(norm_dim(total), tgt[0]):
            raise ShapeError(f"cannot reshape array of shape {t.shape} into {shape}")
        return flatten(t)
    # case 3: (A, B, ...) -> (A*B, ...) merge of the two leading axes / split: row-major maps
    if len(tgt) == t.ndim - 1 and t.ndim >= 2:
        merged = C.binop("*", t.shape[0], t.shape[1])
        first = tgt[0]
        if (isinstance(first, int) and first == -1) or dim_eq(norm_dim(merged), first):
            if all(dim_eq(a, b) for a, b in zip(tgt[1:], t.shape[2:])):
                d1 = t.shape[1]

                def fn(*o):
                    q, r = _divmod_affine(o[0], d1)
                    return t.at(q, r, *o[1:])

                rows = None
                if t.rows is not None and t.ndim >= 3:
                    # the feature axis is untouched: row f of the merged tensor is row (f // B, f % B) of t
                    def rows(*b):
                        q, r = _divmod_affine(b[0], d1)
                        return t.rows(C.to_z3(q), C.to_z3(r), *b[1:])

                return Tensor((norm_dim(merged),) + tuple(t.shape[2:]), fn, t.sort, t.gdeps, rows=rows)
    if len(tgt) == t.ndim + 1:
        # split leading axis: (A*B, ...) -> (A, B, ...)
        a, b = tgt[0], tgt[1]
        if isinstance(a, int) and a == -1:
            return _reshape_generic(t, tgt)
        if isinstance(b, int) and b == -1:
            # x.reshape(A, -1): the second extent is len(x) / A (NumPy: must divide exactly)
            b = exact_quotient(t.shape[0], a)
            if b is None:
                if isinstance(t.shape[0], int) and isinstance(a, int):
                    raise ShapeError(f"cannot reshape array of shape {t.shape} into {shape}")
                raise Unsupported(f"reshape({a}, -1) of an axis of length {t.shape[0]}: cannot determine the quotient")
            tgt[1] = b
        prod = norm_dim(C.binop("*", a, b))
        # a single trailing -1 stands for the (single) remaining extent
        if len(tgt) == 3 and t.ndim == 2 and isinstance(tgt[2], int) and tgt[2] == -1 and dim_eq(prod, t.shape[0]):
            tgt[2] = t.shape[1]
        if dim_eq(prod, t.shape[0]) and all(dim_eq(x, y) for x, y in zip(tgt[2:], t.shape[1:])):
            def fn(*o):
                return t.at(C.binop("+", C.binop("*", o[0], b), o[1]), *o[2:])

            rows = None
            if t.rows is not None and t.ndim >= 2:
                # the feature axis is untouched: row (i, j) of the result is row i*B + j of t
                def rows(*bidx):
                    return t.rows(C.to_z3(C.binop("+", C.binop("*", bidx[0], b), bidx[1])), *bidx[2:])

            return Tensor(tuple(tgt), fn, t.sort, t.gdeps, rows=rows)
    return _reshape_generic(t, tgt)


def _reshape_generic(t, tgt):
    """row-major reshape through the flat index (NumPy semantics): element o of
    the result is element unravel(ravel(o, new_shape), old_shape) of t.  A single
    -1 extent is total / (product of the others); when that quotient is not
    decided syntactically a fresh extent d with d * rest == total is introduced
    (NumPy raises when the division is not exact: that path is not modelled)."""
    tgt = list(tgt)
    total = 1
    for d in t.shape:
        total = C.binop("*", total, d)
    known = 1
    for d in tgt:
        if not (isinstance(d, int) and d == -1):
            known = C.binop("*", known, d)
    if any(isinstance(d, int) and d == -1 for d in tgt):
        q = exact_quotient(norm_dim(total), norm_dim(known)) if not isinstance(known, int) or known != 1 else norm_dim(total)
        if q is None:
            if isinstance(total, int) and isinstance(known, int):
                raise ShapeError(f"cannot reshape array of shape {t.shape} into {tuple(tgt)}")
            pst = st()
            q = Sym(pst.fresh("reshape_extent", INT))
            pst.assume(z3.And(q.z >= 0, q.z * C.to_z3(known) == C.to_z3(total)))
        tgt = [q if (isinstance(d, int) and d == -1) else d for d in tgt]
    elif isinstance(total, int) and isinstance(known, int) and total != known:
        raise ShapeError(f"cannot reshape array of shape {t.shape} into {tuple(tgt)}")
    tgt = tuple(norm_dim(d) for d in tgt)
    in_shape = t.shape

    def fn(*o):
        flat = 0
        for k, d in enumerate(tgt):
            flat = C.binop("+", C.binop("*", flat, d), o[k])
        idx = []
        rem = flat
        for k in range(len(in_shape) - 1, -1, -1):
            if k == 0:
                idx.append(rem)
            else:
                idx.append(C.binop("%", rem, in_shape[k]))
                rem = C.binop("//", rem, in_shape[k])
        idx.reverse()
        return t.at(*idx)

    return Tensor(tgt, fn, t.sort, t.gdeps)


def flatten(t):
    t = as_tensor(t)
    if t.ndim <= 1:
        return t if t.ndim == 1 else Tensor((1,), lambda i: t.at(), t.sort, t.gdeps)
    non1 = [k for k, d in enumerate(t.shape) if not dim_is_one(d)]
    if len(non1) <= 1:
        return reshape(t, (t.shape[non1[0]] if non1 else 1,))
    if t.ndim == 2:
        d1 = t.shape[1]
        total = norm_dim(C.binop("*", t.shape[0], d1))

        def fn(o):
            return t.at(C.binop("//", o, d1), C.binop("%", o, d1))

        return Tensor((total,), fn, t.sort, t.gdeps)
    raise Unsupported(f"flatten of rank {t.ndim}")


def transpose(t, axes=None):
    t = as_tensor(t)
    if axes is None:
        axes = tuple(reversed(range(t.ndim)))
    axes = tuple(a if a >= 0 else a + t.ndim for a in axes)
    shape = tuple(t.shape[a] for a in axes)

    def fn(*o):
        src = [None] * t.ndim
        for pos, a in enumerate(axes):
            src[a] = o[pos]
        return t.at(*src)

    return Tensor(shape, fn, t.sort, t.gdeps)


def concatenate(ts, axis=0):
    ts = [as_tensor(t) for t in ts]
    if not ts:
        raise PyRaise("ValueError", "need at least one array to concatenate")
    nd = ts[0].ndim
    if nd == 0:
        raise PyRaise("ValueError", "zero-dimensional arrays cannot be concatenated")
    if any(t.ndim != nd for t in ts):
        raise ShapeError(f"concatenate: ranks differ {[t.shape for t in ts]}")
    if axis < 0:
        axis += nd
    for t in ts[1:]:
        for k in range(nd):
            if k != axis and not dim_eq(t.shape[k], ts[0].shape[k]):
                raise ShapeError(f"concatenate: dimension mismatch {[t.shape for t in ts]}")
    total = 0
    offs = []
    for t in ts:
        offs.append(total)
        total = C.binop("+", total, t.shape[axis])
    shape = ts[0].shape[:axis] + (norm_dim(total),) + ts[0].shape[axis + 1:]
    sort = join_sorts([t.sort for t in ts])
    gd = frozenset().union(*[t.gdeps for t in ts])

    def fn(*o):
        j = o[axis]
        jc = j if isinstance(j, int) and not isinstance(j, bool) else (C.concrete_of(z3.simplify(C.to_z3(j))) if isinstance(j, (Sym, z3.ExprRef)) else None)
        if isinstance(jc, int) and not isinstance(jc, bool) and jc >= 0 and all(isinstance(off, int) and isinstance(t.shape[axis], int) for t, off in zip(ts, offs)):
            # concrete position and concrete piece sizes: select the piece directly (pieces are only read inside their range)
            for t, off in zip(ts, offs):
                if off <= jc < off + t.shape[axis]:
                    return t.at(*(o[:axis] + (jc - off,) + o[axis + 1:]))
        r = None
        for t, off in reversed(list(zip(ts, offs))):
            jj = C.binop("-", j, off) if not (isinstance(off, int) and off == 0) else j
            v = t.at(*(o[:axis] + (jj,) + o[axis + 1:]))
            if r is None:
                r = v
            else:
                r = C.ite(C.compare("<", j, C.binop("+", off, t.shape[axis])), v, r)
        return r

    rows = None
    if axis == nd - 1 and all(t.rows is not None for t in ts):
        pair = C.uf("rowcat", ROW, ROW, ROW)

        def rows(*o):
            r = ts[0].rows(*o)
            for t in ts[1:]:
                r = pair(r, t.rows(*o))
            return r
    return Tensor(shape, fn, sort, gd, rows=rows)


def stack(ts, axis=0):
    ts = [as_tensor(t) for t in ts]
    return concatenate([expand_dims(t, axis) for t in ts], axis=axis)


def full(shape, v, sort=None):
    if not isinstance(shape, (tuple, list)):
        shape = (shape,)
    return Tensor(tuple(shape), lambda *i: v, sort if sort is not None else sort_of_value(v), C.gdeps_of(v))


def arange(n):
    r = Tensor((n,), lambda i: i, INT)
    r.is_arange = True
    return r


def _entails_in_range(v, d):
    """True iff 0 <= v <= d follows from the path condition (slice bounds that
    need no clamping keep their syntactic form, so that x.at[:k].set(y) with
    y of length k is shape-correct exactly when NumPy/JAX accept it)."""
    if isinstance(v, int) and isinstance(d, int):
        return 0 <= v <= d
    if isinstance(v, bool) or not isinstance(v, (int, Sym)):
        return False
    from .state import prove

    pst = st()
    vz, dz = C.to_z3(v), dim_z(d)
    if vz.sort() != INT:
        return False
    r, *_ = prove(pst.pc, pst.qfacts, z3.And(vz >= 0, vz <= dz), extra_pool=list(pst.pool), timeout_ms=3000, quick=True)
    return r == "unsat"


def _scatter_rows(t, idx, vt, mode):
    """x.at[arange(B), I1, ...].set(v) with index vectors of length B = x.shape[0]:
    out[r, j, ...] = v[r] if (j, ...) == (I1[r], ...) else x[r, j, ...]
    (jax scatter: negative indices wrap, out-of-range updates are dropped)."""
    first = idx[0]
    if not (isinstance(first, Tensor) and getattr(first, "is_arange", False) and first.ndim == 1 and dim_eq(first.shape[0], t.shape[0])):
        return None
    rest = [as_tensor(i) for i in idx[1:]]
    if len(idx) != t.ndim or any(i.ndim != 1 or i.sort != INT or not dim_eq(i.shape[0], t.shape[0]) for i in rest):
        return None
    vten = as_tensor(vt)
    if vten.ndim > 1 or (vten.ndim == 1 and not dim_eq(vten.shape[0], t.shape[0])):
        raise ShapeError(f"at[].set: value shape {vten.shape} does not match {t.shape[0]} index rows")

    def fn(*o):
        r = o[0]
        conds = []
        for a, ix in enumerate(rest, 1):
            iv = ix.at(r)
            iv = C.ite(C.compare("<", iv, 0), C.binop("+", iv, t.shape[a]), iv)
            conds.append(C.compare("==", o[a], iv))
        newv = vten.at(r) if vten.ndim == 1 else vten.at()
        old = t.at(*o)
        if mode == "add":
            newv = C.binop("+", old, newv)
        return C.ite(C.band(*conds), newv, old)

    return Tensor(t.shape, fn, join_sorts([t.sort, vten.sort]), t.gdeps | vten.gdeps)


def at_set(t, idx, v, mode="set"):
    """functional update x.at[idx].set(v) / .add(v) for the index forms used in
    the repository: integer tuples, one leading slice [:k], tensors of ints."""
    t = as_tensor(t)
    if not isinstance(idx, tuple):
        idx = (idx,)
    vt = v
    if len(idx) <= t.ndim and all(not isinstance(i, (slice, Tensor, list)) and i is not None for i in idx):
        # point (or leading-prefix) update
        k = len(idx)
        sub_shape = t.shape[k:]
        vten = as_tensor(vt)
        broadcast_shapes(sub_shape, vten.shape)
        if vten.ndim > len(sub_shape):
            raise ShapeError("at[].set value rank")
        ii = [_norm_index_int(i, d) for i, d in zip(idx, t.shape)]

        def fn(*o):
            hit = C.conj([C.compare("==", o[a], ii[a]) for a in range(k)])
            newv = vten.at(*_bidx(vten, len(sub_shape), o[k:]))
            old = t.at(*o)
            if mode == "add":
                newv = C.binop("+", old, newv)
            return C.ite(Sym(hit), newv, old)

        sort = join_sorts([t.sort, vten.sort])
        return Tensor(t.shape, fn, sort, t.gdeps | vten.gdeps)
    if len(idx) == 1 and isinstance(idx[0], slice):
        s = idx[0]
        if s.step not in (None, 1):
            raise Unsupported("at[slice step]")
        d = t.shape[0]
        lo = 0 if s.start is None else _norm_index_int(s.start, d)
        hi = d if s.stop is None else _norm_index_int(s.stop, d)
        hi_c = hi if _entails_in_range(hi, d) else C.smin(hi, d)
        lo_c = lo if _entails_in_range(lo, d) else C.smax(lo, 0)
        ln = C.smax(0, C.binop("-", hi_c, lo_c)) if not (isinstance(lo_c, int) and lo_c == 0 and hi_c is hi and not isinstance(hi, int)) else hi_c
        vten = as_tensor(vt)
        tgt_shape = (norm_dim(ln),) + t.shape[1:]
        broadcast_shapes(tgt_shape, vten.shape)
        if vten.ndim > t.ndim:
            raise ShapeError("at[:k].set value rank")

        def fn(*o):
            inside = C.band(C.compare(">=", o[0], lo_c), C.compare("<", o[0], hi_c))
            rel = (C.binop("-", o[0], lo_c),) + tuple(o[1:])
            newv = vten.at(*_bidx(vten, t.ndim, rel))
            old = t.at(*o)
            if mode == "add":
                newv = C.binop("+", old, newv)
            return C.ite(inside, newv, old)

        sort = join_sorts([t.sort, vten.sort])
        return Tensor(t.shape, fn, sort, t.gdeps | vten.gdeps)
    if len(idx) >= 2 and all(isinstance(i, Tensor) for i in idx):
        r = _scatter_rows(t, idx, vt, mode)
        if r is not None:
            return r
    if all(isinstance(i, (Tensor, list)) for i in idx) and len(idx) == t.ndim and mode in ("add", "set"):
        # x.at[I0, I1, ...].add(v): scatter with 1-D index vectors; duplicates ACCUMULATE for add
        # (jax semantics); for set the last writer wins (modelled for add only when duplicates matter)
        its = [as_tensor(i) for i in idx]
        L = its[0].shape[0]
        if any(i.ndim != 1 or not dim_eq(i.shape[0], L) for i in its):
            raise Unsupported("scatter with index arrays of different shapes")
        vten = as_tensor(vt)
        if mode == "set":
            raise Unsupported("at[index arrays].set")

        def fn(*o):
            contrib = Tensor((L,), lambda k: C.ite(C.Sym(C.conj([C.compare("==", its[a].at(k), o[a]) for a in range(t.ndim)])),
                                                  vten.at(k) if vten.ndim == 1 else vten.at(), 0), join_sorts([t.sort, vten.sort]))
            return C.binop("+", t.at(*o), reduce_axis(contrib, 0, "sum"))

        return Tensor(t.shape, fn, join_sorts([t.sort, vten.sort]), t.gdeps | vten.gdeps)
    raise Unsupported(f"at[{idx}].{mode}")


def matmul(a, b):
    a, b = as_tensor(a), as_tensor(b)
    if a.ndim == 1 and b.ndim == 1:
        return reduce(tensor_binop("*", a, b), "sum")
    if a.ndim == 2 and b.ndim == 1:
        return reduce_axis(tensor_binop("*", a, index(b, (None, slice(None)))), 1, "sum")
    if a.ndim == 2 and b.ndim == 2:
        if not dim_eq(a.shape[1], b.shape[0]):
            raise ShapeError("matmul")
        prod = Tensor((a.shape[0], b.shape[1], a.shape[1]), lambda i, j, k: C.binop("*", a.at(i, k), b.at(k, j)), REAL, a.gdeps | b.gdeps)
        return reduce_axis(prod, 2, "sum")
    raise Unsupported("matmul ranks")


def tensor_eq_goal(a, b, name_prefix="eq"):
    """list of (suffix, forall-lambda sorts, fn) proving two tensors equal"""
    a, b = as_tensor(a), as_tensor(b)
    if a.ndim != b.ndim or not all(dim_eq(x, y) for x, y in zip(a.shape, b.shape)):
        return None
    n = a.ndim

    def fn(*i):
        rng = [z3.And(C.to_z3(i[k]) >= 0, C.to_z3(i[k]) < dim_z(a.shape[k])) for k in range(n)]
        return z3.Implies(z3.And(*rng) if rng else z3.BoolVal(True), C.as_bool(C.compare("==", a.at(*i), b.at(*i))))

    return [INT] * n, fn
