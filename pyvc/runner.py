"""Property runner: tasks -> obligations -> evidence / verdict / replay.

Exit codes (DESIGN 3.5): 0 all obligations discharged (listed known findings
reported as KNOWN-FINDING lines); 1 violation (VIOLATION line); 2 undecided /
unsupported construct; 3 checker error (crash, vacuity guard).
"""
from __future__ import annotations

import importlib
import json
import multiprocessing as mp
import os
import subprocess
import sys
import time
import traceback

VERIF = os.path.dirname(os.path.dirname(os.path.abspath(__file__)))
REPO = os.environ.get("PYVC_REPO", "/repo")
VENV_PY = "/venv/bin/python"
TASK_TIMEOUT_S = int(os.environ.get("PYVC_TASK_TIMEOUT_S", "1800"))


class Task:
    def __init__(self, name, harness=None, setup=None, allow_raise=None, bounded=None,
                 tier="quick", expect_loops=False, note=None, native=None):
        self.name = name
        self.harness = harness
        self.setup = setup
        self.allow_raise = allow_raise
        self.bounded = bounded  # str describing the bound if this is a bounded stand-in
        self.tier = tier  # 'quick' tasks run in both tiers, 'thorough' only there
        self.note = note
        # native: name of a driver under replay/drivers run under /venv/bin/python against
        # the real code (a BOUNDED run-time stand-in, never counted as proved): it must
        # print {"obligations": [{"name", "ok", "detail"}], "cases": n}
        self.native = native


def _run_one(args):
    modname, idx, both = args
    t0 = time.time()
    try:
        from . import engine

        mod = importlib.import_module(modname)
        task = mod.TASKS[idx]
        if task.native:
            rep = run_replay_driver(task.native, dict(mode="check", task=task.name, seed=int(os.environ.get("VERIF_SEED", "0")),
                                                       tier=os.environ.get("VERIF_TIER", "quick")), timeout=TASK_TIMEOUT_S)
            obs = []
            if not rep or "obligations" not in rep:
                return dict(task=task.name, crash=f"native stand-in {task.native} gave no result: {str(rep)[:800]}", obligations=[], errors=[], paths=0,
                            seconds=time.time() - t0, functions=[], lib_used=[], raised={}, covered=[], notes=[], loops=[], houdini_kept={},
                            bounded=task.bounded, failed_detail={}, solver_time=0.0, queries=0)
            for o in rep["obligations"]:
                obs.append(dict(name=o["name"], verdict="discharged" if o["ok"] else "failed", backend="native-bounded", vcs=int(o.get("cases", 1)),
                                seconds=0.0, detail=o.get("detail"), model=o.get("witness")))
            return dict(task=task.name, paths=int(rep.get("cases", 0)), seconds=round(time.time() - t0, 2), obligations=obs, errors=[], raised={},
                        covered=[], notes=[rep.get("note", "")], loops=[], houdini_kept={}, functions=[], lib_used=[], bounded=task.bounded or "native run-time stand-in",
                        failed_detail={}, solver_time=0.0, queries=0)
        res = engine.run_task(task.name, task.harness, root=REPO, setup=task.setup,
                              allow_raise=task.allow_raise, both=both)
        d = res.to_json()
        d["functions"] = list(res.functions.values())
        d["lib_used"] = sorted(res.lib_used)
        d["bounded"] = task.bounded
        full = {}
        for o in res.obligations.values():
            if o["verdict"] != "discharged":
                full[o["name"]] = dict(smt2=(o.get("smt2") or "")[:200000], path=o.get("path"))
        d["failed_detail"] = full
        from .state import STATS

        d["solver_time"] = STATS.solver_time
        d["queries"] = STATS.queries + STATS.branch_queries
        return d
    except Exception as e:
        return dict(task=f"{modname}[{idx}]", crash=f"{type(e).__name__}: {e}\n{traceback.format_exc()[-3000:]}",
                    obligations=[], errors=[], paths=0, seconds=time.time() - t0, functions=[], lib_used=[],
                    raised={}, covered=[], notes=[], loops=[], houdini_kept={}, bounded=None, failed_detail={},
                    solver_time=0.0, queries=0)


def lean_backed(E, name, lean_file, theorem):
    """An obligation discharged by the Lean kernel instead of an SMT solver:
    the theorem must be present (no `sorry`) in /verif/lemmas/<file>; the file is
    compiled by MANIFEST.setup_cmd-independent thorough runs (PYVC_RUN_LEAN=1 or
    VERIF_TIER=thorough); quick runs rely on the checked-in text + its hash."""
    import hashlib

    path = os.path.join(VERIF, "lemmas", lean_file)
    try:
        txt = open(path).read()
    except OSError:
        E.st.undecided(name, f"lemma file {lean_file} missing")
        return
    if f"theorem {theorem}" not in txt or "sorry" in txt:
        E.st.undecided(name, f"theorem {theorem} missing or file contains sorry")
        return
    if os.environ.get("VERIF_TIER") == "thorough" or os.environ.get("PYVC_RUN_LEAN"):
        r = subprocess.run(["lean", path], capture_output=True, text=True, timeout=1200)
        if r.returncode != 0:
            E.st.undecided(name, "lean rejected the lemma file: " + (r.stdout + r.stderr)[-400:])
            return
    E.st.ok(name, backend=f"lean:{theorem}@{hashlib.sha256(txt.encode()).hexdigest()[:12]}")


def load_known_findings():
    p = os.path.join(VERIF, "known_findings.json")
    if not os.path.isfile(p):
        return []
    with open(p) as f:
        return json.load(f)["findings"]


def run_replay_driver(driver, payload, timeout=600):
    """run a replay driver under the repository's interpreter against /repo"""
    path = os.path.join(VERIF, "replay", "drivers", driver + ".py")
    if not os.path.isfile(path):
        return None
    env = dict(os.environ)
    env["PYTHONPATH"] = REPO + os.pathsep + env.get("PYTHONPATH", "")
    env["JAX_PLATFORMS"] = "cpu"
    try:
        p = subprocess.run([VENV_PY, path], input=json.dumps(payload), capture_output=True, text=True,
                           timeout=timeout, env=env, cwd=VERIF)
    except subprocess.TimeoutExpired:
        return dict(reproduced=False, error="replay timeout")
    out = p.stdout.strip().splitlines()
    for line in reversed(out):
        if line.startswith("{"):
            try:
                return json.loads(line)
            except json.JSONDecodeError:
                pass
    return dict(reproduced=False, error="no replay result", stdout=p.stdout[-2000:], stderr=p.stderr[-2000:])


def _driver_for(mod, pid, full_name):
    rel = full_name.split(f"{pid}.", 1)[1]
    table = getattr(mod, "REPLAY", {})
    if rel in table:
        return table[rel]
    best = None
    for pref, d in table.items():
        if rel.startswith(pref) and (best is None or len(pref) > len(best[0])):
            best = (pref, d)
    return best[1] if best else None


def check_property(pid, tier="quick", seed=0, jobs=None):
    t0 = time.time()
    modname = f"contracts.{pid}"
    sys.path.insert(0, VERIF)
    try:
        mod = importlib.import_module(modname)
    except Exception as e:
        print(f"checker error: cannot load {modname}: {e}\n{traceback.format_exc()}")
        return 3
    tasks = [(i, t) for i, t in enumerate(mod.TASKS) if tier == "thorough" or t.tier == "quick"]
    both = tier == "thorough"
    jobs = jobs or min(16, max(1, len(tasks)))
    ctx = mp.get_context("fork")
    results = []
    with ctx.Pool(jobs, maxtasksperchild=1) as pool:
        asyncs = [(t, pool.apply_async(_run_one, ((modname, i, both),))) for i, t in tasks]
        for t, a in asyncs:
            try:
                results.append(a.get(timeout=TASK_TIMEOUT_S))
            except mp.TimeoutError:
                results.append(dict(task=t.name, timeout=True, obligations=[], errors=[("timeout", f"task exceeded {TASK_TIMEOUT_S}s")],
                                    paths=0, seconds=TASK_TIMEOUT_S, functions=[], lib_used=[], raised={}, covered=[], notes=[],
                                    loops=[], houdini_kept={}, bounded=t.bounded, failed_detail={}, solver_time=0.0, queries=0))
    # ---- aggregate
    known = [k for k in load_known_findings() if k["property"] == pid]
    open_known = {k["obligation"]: k for k in known if k.get("status") == "open"}
    obligations = []
    canaries = []
    failed = []
    undecided = []
    crashes = []
    errors = []
    bounded = []
    functions = {}
    lib_used = set()
    per_task = []
    solver_time = 0.0
    queries = 0
    for r in results:
        if r.get("crash"):
            crashes.append((r["task"], r["crash"]))
        for e in r.get("errors", []):
            if e[0] == "crash":
                crashes.append((r["task"], e[1]))
            else:
                errors.append((r["task"], e[0], e[1]))
        for f in r.get("functions", []):
            functions[f["function"]] = f
        lib_used |= set(r.get("lib_used", []))
        solver_time += r.get("solver_time", 0.0)
        queries += r.get("queries", 0)
        per_task.append(dict(task=r["task"], paths=r.get("paths"), seconds=r.get("seconds"), bounded=r.get("bounded"),
                             loops=r.get("loops"), houdini_kept=r.get("houdini_kept"), raised=r.get("raised")))
        n_real = 0
        for o in r.get("obligations", []):
            full = f"{pid}.{r['task']}.{o['name']}"
            o = dict(o, name=full, task=r["task"])
            o["extra"] = r.get("failed_detail", {}).get(o["name"].split(f"{pid}.{r['task']}.", 1)[1], {})
            if ".canary" in full or full.split(".")[-1].startswith("canary"):
                canaries.append(o)
                continue
            if r.get("bounded"):
                o["bounded"] = r["bounded"]
                bounded.append(o)
            else:
                obligations.append(o)
            n_real += 1
            if o["verdict"] == "failed":
                failed.append(o)
            elif o["verdict"] == "undecided":
                undecided.append(o)
        if n_real == 0 and not r.get("crash") and not r.get("errors"):
            crashes.append((r["task"], "vacuity guard: task generated zero obligations"))
    # canaries must fail (an unsatisfiable precondition would 'prove' them)
    # ... unless the same task also has a FAILED obligation: contradictory assumptions would have discharged
    # everything, so there the canary's statement has simply become true on this tree (e.g. "this target is never
    # updated" after a change that drops the update) - reported with the violation instead of masking it as a checker error
    bad_canaries = [c for c in canaries if c["verdict"] == "discharged"]
    tasks_with_failures = {o["task"] for o in failed}
    canary_notes = []
    for c in bad_canaries:
        if c["task"] in tasks_with_failures:
            canary_notes.append(f"  note: canary {c['name']} holds on this tree (task also has failed obligations: not a vacuity)")
            continue
        crashes.append((c["task"], f"vacuity guard: canary {c['name']} was discharged (contradictory assumptions?)"))

    # ---- known findings / violations
    lines = list(canary_notes)
    reproduced_natively = []  # violations whose failing input was replayed on the real code
    violations = []
    known_hit = []
    replay_dir = os.path.join(VERIF, "replay", pid)
    # the replay drivers of all failed obligations run concurrently (each is its own process under /venv/bin/python; a tree
    # that fails many obligations would otherwise spend minutes replaying them one after the other)
    pre_replayed = {}
    _todo = []
    for o in failed:
        if open_known.get(o["name"]) is not None or (o["backend"] == "native-bounded" and o.get("model") is not None):
            continue
        drv = _driver_for(mod, pid, o["name"])
        if drv:
            pl = dict(property=pid, obligation=o["name"], task=o["task"], verdict="failed", backend=o["backend"],
                      verifier_output=dict(goal=o.get("detail"), model=o.get("model"), path=o["extra"].get("path")),
                      smt2=o["extra"].get("smt2", "")[:100000])
            _todo.append((o["name"], drv, pl))
    if len(_todo) > 1:
        from concurrent.futures import ThreadPoolExecutor

        with ThreadPoolExecutor(max_workers=8) as ex:
            for (nm, _d, _p), r in zip(_todo, ex.map(lambda t: run_replay_driver(t[1], t[2]), _todo)):
                pre_replayed[nm] = r
    for o in failed:
        k = open_known.get(o["name"])
        if k is not None:
            known_hit.append(o)
            lines.append(f"KNOWN-FINDING: property={pid} {o['name']}: {k['what']}")
            continue
        os.makedirs(replay_dir, exist_ok=True)
        rp = os.path.join(replay_dir, o["name"].replace("/", "_") + ".json")
        rel = os.path.relpath(rp, VERIF)
        payload = dict(property=pid, obligation=o["name"], task=o["task"], verdict="failed", backend=o["backend"],
                       verifier_output=dict(goal=o.get("detail"), model=o.get("model"), path=o["extra"].get("path")),
                       smt2=o["extra"].get("smt2", "")[:100000])
        driver = _driver_for(mod, pid, o["name"])
        rep = None
        if o["backend"] == "native-bounded" and o.get("model") is not None:
            # found by running the real code: the stand-in's witness IS the failing input
            rep = dict(reproduced=True, witness=o.get("model"), detail=o.get("detail"), note="failing input found by the native stand-in on the real code")
        elif driver:
            rep = pre_replayed[o["name"]] if o["name"] in pre_replayed else run_replay_driver(driver, payload)
        payload["replay"] = rep
        payload["replay_driver"] = driver
        with open(rp, "w") as f:
            json.dump(payload, f, indent=1, default=str)
        suffix = "" if (rep and rep.get("reproduced")) else " no-failing-input-found"
        violations.append(o)
        lines.append(f"VIOLATION property={pid} replay={rel}{suffix}")
        lines.append(f"  failed obligation: {o['name']} [{o['backend']}] goal: {(o.get('detail') or '')[:200]}")
        if rep and rep.get("reproduced"):
            reproduced_natively.append(o["name"])
            lines.append(f"  replayed on the real code: {str(rep.get('witness'))[:300]}")

    known_names = {o["name"] for o in known_hit}
    # an UNDECIDED obligation is not a violation - unless the native replay finds a real failing
    # input for exactly that clause (sound: the witness is replayed on the real code)
    still_undecided = []
    tried = 0
    for o in undecided:
        driver = _driver_for(mod, pid, o["name"])
        if o["name"] in open_known or not driver or tried >= 6:
            still_undecided.append(o)
            continue
        tried += 1
        payload = dict(property=pid, obligation=o["name"], task=o["task"], verdict="undecided", backend=o["backend"],
                       verifier_output=dict(goal=o.get("detail"), model=o.get("model"), path=None), smt2="")
        rep = run_replay_driver(driver, payload)
        if rep and rep.get("reproduced"):
            os.makedirs(replay_dir, exist_ok=True)
            rp = os.path.join(replay_dir, o["name"].replace("/", "_") + ".json")
            payload["replay"], payload["replay_driver"] = rep, driver
            with open(rp, "w") as f:
                json.dump(payload, f, indent=1, default=str)
            violations.append(o)
            reproduced_natively.append(o["name"])
            lines.append(f"VIOLATION property={pid} replay={os.path.relpath(rp, VERIF)}")
            lines.append(f"  obligation left undecided by the solvers, violated on the real code: {o['name']}")
            lines.append(f"  replayed on the real code: {str(rep.get('witness'))[:300]}")
        else:
            still_undecided.append(o)
    undecided = still_undecided
    # a task the verifier could not execute at all (construct outside the supported subset, time-out): its clauses are
    # undecided as a whole.  The task's native replay driver still checks them on the real code; a failing input
    # found there is a violation (with that input), nothing found leaves the task undecided (exit 2).
    tried_tasks = set()
    for t, kind, msg in list(errors):
        if kind not in ("unsupported", "timeout") or t in tried_tasks or len(tried_tasks) >= 4:
            continue
        name = f"{pid}.{t}.task_outside_verifier_reach"
        driver = _driver_for(mod, pid, name)
        if not driver:
            continue
        tried_tasks.add(t)
        payload = dict(property=pid, obligation=name, task=t, verdict="undecided", backend="none",
                       verifier_output=dict(goal=f"{kind}: {msg[:500]}", model=None, path=None), smt2="")
        rep = run_replay_driver(driver, payload)
        if rep and rep.get("reproduced"):
            os.makedirs(replay_dir, exist_ok=True)
            rp = os.path.join(replay_dir, name.replace("/", "_") + ".json")
            payload["replay"], payload["replay_driver"] = rep, driver
            with open(rp, "w") as f:
                json.dump(payload, f, indent=1, default=str)
            violations.append(dict(name=name, task=t))
            reproduced_natively.append(name)
            lines.append(f"VIOLATION property={pid} replay={os.path.relpath(rp, VERIF)}")
            lines.append(f"  task {t} is outside the verifier's reach on this tree ({kind}: {msg[:160]}); its clauses are violated on the real code")
            lines.append(f"  replayed on the real code: {str(rep.get('witness'))[:300]}")
    n_ob = len([o for o in obligations if o["name"] not in known_names])
    n_dis = sum(1 for o in obligations if o["verdict"] == "discharged")
    level = getattr(mod, "LEVEL", "proof")
    assumptions = list(getattr(mod, "ASSUMPTIONS", []))
    trusted = sorted(set(getattr(mod, "TRUSTED", [])) | {f"lib:{x}" for x in lib_used}) + [
        "z3 5.1.0 (primary) / cvc5 1.0.3 (second back end)",
        "pyvc symbolic executor (/verif/pyvc) and its Python-subset semantics (DESIGN 4)",
    ]
    samples = []
    for o in obligations[:6]:
        samples.append(dict(obligation=o["name"], verdict=o["verdict"], backend=o["backend"], vcs=o["vcs"]))
    cov = dict(
        obligations=max(n_ob, 0),
        discharged=n_dis,
        checker_cmd=f"./check {pid} --tier {tier}",
        trusted_base=trusted,
        functions=sorted(functions.values(), key=lambda f: f["function"]),
        per_obligation=[dict(name=o["name"], verdict=o["verdict"], backend=o["backend"], vcs=o["vcs"], seconds=o["seconds"]) for o in obligations],
        bounded_standins=[dict(name=o["name"], verdict=o["verdict"], bound=o.get("bounded")) for o in bounded],
        known_findings=[o["name"] for o in known_hit],
        solver_time_s=round(solver_time, 3),
        solver_queries=queries,
        tasks=per_task,
        vacuity=dict(canaries=len(canaries), canaries_refuted=len(canaries) - len(bad_canaries)),
        not_covered=list(getattr(mod, "NOT_COVERED", [])),
        undecided=[o["name"] for o in undecided],
        samples=samples,
        explanation=getattr(mod, "EXPLANATION", ""),
        evaluations=len(obligations) + len(bounded),
        distinct_nontrivial=len({o["name"] for o in obligations + bounded if o["backend"] != "syntactic"}),
        rule="one case per named proof obligation (aggregated over paths); non-trivial = needed a solver call",
    )
    ev = dict(property_id=pid, tier=tier, seed=seed, level=level, coverage=cov, assumptions=assumptions,
              wall_s=round(time.time() - t0, 2), violations=len(violations))
    # evidence describes /repo's current tree; runs against another tree (PYVC_REPO: seeded-change experiments)
    # must not overwrite it
    evdir = os.environ.get("PYVC_EVIDENCE_DIR") or (os.path.join(VERIF, "evidence") if REPO == "/repo" else os.path.join(VERIF, ".work", "evidence_other_tree"))
    os.makedirs(evdir, exist_ok=True)
    with open(os.path.join(evdir, f"{pid}.json"), "w") as f:
        json.dump(ev, f, indent=1, default=str)

    for ln in lines:
        print(ln)
    print(f"[{pid}] tier={tier} tasks={len(results)} obligations={n_ob} discharged={n_dis} known={len(known_hit)} "
          f"violations={len(violations)} undecided={len(undecided)} bounded={len(bounded)} errors={len(errors)} crashes={len(crashes)} "
          f"solver={solver_time:.1f}s wall={time.time() - t0:.1f}s")
    if crashes:
        for t, c in crashes:
            print(f"CHECKER-ERROR task={t}: {c[:1500]}")
        # a checker error in one task does not mask a violation whose failing input was replayed on the real code
        # (ground truth independent of the checker); without such an input the run as a whole is a checker error
        return 1 if reproduced_natively else 3
    if violations:
        return 1
    if undecided or errors:
        for o in undecided:
            print(f"UNDECIDED {o['name']} [{o['backend']}]: {(o.get('detail') or '')[:300]}")
        for t, k, m in errors:
            print(f"UNDECIDED task={t} {k}: {m[:600]}")
        return 2
    return 0


def main(argv=None):
    import argparse

    ap = argparse.ArgumentParser()
    ap.add_argument("property", nargs="?")
    ap.add_argument("--tier", default=os.environ.get("VERIF_TIER", "quick"))
    ap.add_argument("--replay")
    ap.add_argument("--jobs", type=int)
    a = ap.parse_args(argv)
    seed = int(os.environ.get("VERIF_SEED", "0"))
    if a.replay:
        return replay_file(a.replay)
    if not a.property:
        ap.error("property id required")
    os.environ["VERIF_TIER"] = a.tier  # the command-line tier wins; worker processes and drivers read the variable
    return check_property(a.property, a.tier, seed, a.jobs)


def replay_file(path):
    p = path if os.path.isabs(path) else os.path.join(VERIF, path)
    with open(p) as f:
        payload = json.load(f)
    print(f"replay of {payload['obligation']} (property {payload['property']})")
    drv = payload.get("replay_driver")
    if drv:
        rep = run_replay_driver(drv, payload)
        print(json.dumps(rep, indent=1, default=str))
        if rep and rep.get("reproduced"):
            print(f"VIOLATION property={payload['property']} replay={path}")
            return 1
        return 0
    # no concrete driver: re-run the obligation's property check
    print("no concrete replay driver for this obligation; re-running the verifier on the current tree")
    return check_property(payload["property"], "quick")


if __name__ == "__main__":
    sys.exit(main())
