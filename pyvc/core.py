"""pyvc core: symbolic value domain, arithmetic, path state.

Runs under python3-vt (z3-solver).  Nothing of rl_blox is imported: the code
under verification is read as source text and interpreted symbolically
(see interp.py).  This module holds

  * the value domain (Sym, Obj, NDArr, Tensor, closures, class infos),
  * the arithmetic / comparison operators shared by the interpreter, the
    library models and the contract language (one implementation),
  * the per-path state (path condition, quantified facts, obligations,
    decision replay for path enumeration).
"""
from __future__ import annotations

import itertools
from fractions import Fraction

import z3

# --------------------------------------------------------------------------
# exceptions used for control flow
# --------------------------------------------------------------------------


class Unsupported(Exception):
    """Construct outside the verified Python subset -> undecided (exit 2)."""


class PathEnd(Exception):
    """The current path ends here (infeasible, cut at a loop head, ...)."""


class PyRaise(Exception):
    """A Python exception raised by the code under verification."""

    def __init__(self, exc_type: str, msg: str = ""):
        super().__init__(f"{exc_type}: {msg}")
        self.exc_type = exc_type
        self.msg = msg


class ShapeError(PyRaise):
    def __init__(self, msg=""):
        super().__init__("ShapeError", msg)


class ReturnEx(Exception):
    def __init__(self, value):
        self.value = value


class BreakEx(Exception):
    pass


class ContinueEx(Exception):
    pass


# --------------------------------------------------------------------------
# sorts
# --------------------------------------------------------------------------

INT = z3.IntSort()
REAL = z3.RealSort()
BOOL = z3.BoolSort()
VAL = z3.DeclareSort("Val")  # opaque data (observations, stored payloads)
ROW = z3.DeclareSort("Row")  # a row (vector) fed to / produced by a network
KEY = z3.DeclareSort("Key")  # PRNG keys / generator states


def frac_of(x) -> Fraction:
    if isinstance(x, Fraction):
        return x
    if isinstance(x, bool):
        return Fraction(int(x))
    if isinstance(x, int):
        return Fraction(x)
    if isinstance(x, float):
        if x != x or x in (float("inf"), float("-inf")):
            raise Unsupported(f"non-finite float constant {x}")
        return Fraction(repr(x))
    raise TypeError(x)


def realval(x) -> z3.ExprRef:
    f = frac_of(x)
    return z3.RealVal(f"{f.numerator}/{f.denominator}")


# --------------------------------------------------------------------------
# values
# --------------------------------------------------------------------------


class Sym:
    """A symbolic scalar: z3 term of sort Int / Real / Bool / Val / Row / Key.

    gdeps: ghost set of parameter sources the value depends on differentiably.
    """

    __slots__ = ("z", "gdeps")

    def __init__(self, z, gdeps=frozenset()):
        assert isinstance(z, z3.ExprRef), z
        self.z = z
        self.gdeps = gdeps

    @property
    def sort(self):
        return self.z.sort()

    def is_bool(self):
        return self.z.sort() == BOOL

    def is_int(self):
        return self.z.sort() == INT

    def is_real(self):
        return self.z.sort() == REAL

    def __repr__(self):
        return f"Sym({self.z})"

    # operator overloading for contract / spec code ---------------------
    def __add__(self, o):
        return binop("+", self, o)

    def __radd__(self, o):
        return binop("+", o, self)

    def __sub__(self, o):
        return binop("-", self, o)

    def __rsub__(self, o):
        return binop("-", o, self)

    def __mul__(self, o):
        return binop("*", self, o)

    def __rmul__(self, o):
        return binop("*", o, self)

    def __truediv__(self, o):
        return binop("/", self, o)

    def __rtruediv__(self, o):
        return binop("/", o, self)

    def __floordiv__(self, o):
        return binop("//", self, o)

    def __rfloordiv__(self, o):
        return binop("//", o, self)

    def __mod__(self, o):
        return binop("%", self, o)

    def __rmod__(self, o):
        return binop("%", o, self)

    def __pow__(self, o):
        return binop("**", self, o)

    def __neg__(self):
        return unop("-", self)

    def __lt__(self, o):
        return compare("<", self, o)

    def __le__(self, o):
        return compare("<=", self, o)

    def __gt__(self, o):
        return compare(">", self, o)

    def __ge__(self, o):
        return compare(">=", self, o)

    def __eq__(self, o):  # noqa: D105
        return compare("==", self, o)

    def __ne__(self, o):
        return compare("!=", self, o)

    def __hash__(self):
        return hash(self.z)

    def __and__(self, o):
        return Sym(z3.And(as_bool(self), as_bool(o)))

    def __or__(self, o):
        return Sym(z3.Or(as_bool(self), as_bool(o)))

    def __invert__(self):
        return Sym(z3.Not(as_bool(self)))

    def __bool__(self):
        raise Unsupported(
            f"truth value of a symbolic term used concretely: {self.z}"
        )


class Obj:
    """Heap object: class name + mutable fields (+ ghost fields '$name')."""

    _ids = itertools.count()

    def __init__(self, cls, fields=None, name=None):
        self.cls = cls  # ClassInfo | str (library class tag)
        self.fields = dict(fields or {})
        self.name = name or f"obj{next(Obj._ids)}"
        self.st = None  # set by PathState.register

    def clsname(self):
        return self.cls.qualname if isinstance(self.cls, ClassInfo) else self.cls

    def __repr__(self):
        return f"<{self.clsname()} {self.name}>"


class NDArr:
    """Mutable NumPy array modelled as a z3 array Int -> elem (rank 1), with a
    symbolic length.  Higher ranks are not needed for the mutable arrays of the
    repository (buffers store opaque payloads per slot)."""

    def __init__(self, data, length, elem_sort, name="arr"):
        self.data = data  # z3 Array term
        self.length = length  # z3 Int term or python int
        self.elem_sort = elem_sort
        self.name = name

    def __repr__(self):
        return f"<NDArr {self.name} len={self.length}>"


class IdxVec:
    """Immutable integer vector of symbolic length: elem(k) for 0<=k<length."""

    def __init__(self, length, fn, name="vec"):
        self.length = length
        self.fn = fn
        self.name = name


class Closure:
    def __init__(self, node, env, module, qualname, cls=None):
        self.node = node  # ast.FunctionDef | ast.Lambda
        self.env = env  # enclosing Frame (or None for module level)
        self.module = module  # ModuleInfo
        self.qualname = qualname
        self.cls = cls  # ClassInfo for methods

    def __repr__(self):
        return f"<Closure {self.qualname}>"


class BoundMethod:
    def __init__(self, obj, func):
        self.obj = obj
        self.func = func

    def __repr__(self):
        return f"<BoundMethod {self.obj}.{getattr(self.func, 'qualname', self.func)}>"


class Builtin:
    """Library model / contract stub.  fn(E, *args, **kwargs) -> value."""

    def __init__(self, name, fn, pure=True):
        self.name = name
        self.fn = fn
        self.qualname = name

    def __repr__(self):
        return f"<Builtin {self.name}>"


class Partial:
    def __init__(self, func, args, kwargs):
        self.func = func
        self.args = tuple(args)
        self.kwargs = dict(kwargs)
        self.qualname = f"partial({getattr(func, 'qualname', func)})"


class ClassInfo:
    def __init__(self, qualname, node, module, bases):
        self.qualname = qualname
        self.node = node
        self.module = module
        self.bases = bases  # list[ClassInfo | str]
        self.methods = {}
        self.class_attrs = {}
        self.is_dataclass = False
        self.dc_fields = []  # (name, default expr | None)

    def mro(self):
        out = [self]
        for b in self.bases:
            if isinstance(b, ClassInfo):
                for c in b.mro():
                    if c not in out:
                        out.append(c)
        return out

    def lookup(self, name):
        for c in self.mro():
            if name in c.methods:
                return c.methods[name]
            if name in c.class_attrs:
                return c.class_attrs[name]
        return None

    def __repr__(self):
        return f"<class {self.qualname}>"


class LibNS:
    """A library namespace (module or attribute path), resolved lazily through
    the library registry: 'numpy', 'jax.numpy', 'flax.nnx', ..."""

    def __init__(self, path):
        self.path = path

    def __repr__(self):
        return f"<lib {self.path}>"


class NamedTupleType:
    def __init__(self, name, fields):
        self.name = name
        self.fields = list(fields)


class NamedTuple:
    def __init__(self, typ, values):
        self.typ = typ
        self.values = list(values)

    def get(self, name):
        return self.values[self.typ.fields.index(name)]


_REP_COUNTER = [0]


class SymComp:
    """List comprehension `[elt for t in range(lo, hi)]` over a SYMBOLIC range with a
    pure element expression: `value` is elt evaluated once for the generic index term
    `ivar` (a z3 Int constant); element k of the list is value[ivar := lo + k].
    Only array constructors (jnp.vstack / jnp.array / jnp.stack, lib/ext_cem.py) consume it."""

    def __init__(self, lo, hi, ivar, value):
        self.lo = lo
        self.hi = hi
        self.ivar = ivar
        self.value = value

    def __repr__(self):
        return f"<SymComp [{self.lo}, {self.hi})>"


class OpaqueList(list):
    """python list whose contents are unknown: what a list that is appended to inside a CUT loop becomes at the loop
    head when the loop's LoopSpec asks for it (`opaque_lists=True`).  Only `.append` and consumers that return an
    opaque result are meaningful; len() / iteration / indexing are Unsupported (pyvc/lib/ext_loops.py)."""


class Anything:
    """Result of a stubbed callee whose value is irrelevant to the obligations
    of the task (losses returned by a stubbed update routine, logged stats):
    unpacks to any arity, attribute access / indexing / calls give Anything.
    Using it in arithmetic or a branch is an error (Unsupported)."""

    def __init__(self, tag="any"):
        self.tag = tag

    def __repr__(self):
        return f"<Anything {self.tag}>"


class Opaque:
    """Opaque handle (graphdef, dtype, path, exception class, ...)."""

    def __init__(self, tag, payload=None):
        self.tag = tag
        self.payload = payload

    def __repr__(self):
        return f"<Opaque {self.tag}>"


# --------------------------------------------------------------------------
# conversions
# --------------------------------------------------------------------------


def is_concrete_num(x):
    return isinstance(x, (int, Fraction, float)) and not isinstance(x, Sym)


def to_z3(x):
    """Convert a scalar value to a z3 term."""
    if isinstance(x, Sym):
        return x.z
    if isinstance(x, z3.ExprRef):
        return x
    if isinstance(x, bool):
        return z3.BoolVal(x)
    if isinstance(x, int):
        return z3.IntVal(x)
    if isinstance(x, (Fraction, float)):
        return realval(x)
    raise Unsupported(f"cannot convert {type(x).__name__} to a term: {x!r}")


def gdeps_of(*xs):
    out = frozenset()
    for x in xs:
        g = getattr(x, "gdeps", None)
        if g:
            out = out | g
    return out


def as_bool(x) -> z3.BoolRef:
    """Python truthiness as a z3 Bool."""
    if isinstance(x, Sym):
        z = x.z
        if z.sort() == BOOL:
            return z
        if z.sort() == INT:
            return z != 0
        if z.sort() == REAL:
            return z != 0
        raise Unsupported(f"truthiness of sort {z.sort()}")
    if isinstance(x, z3.ExprRef):
        return as_bool(Sym(x))
    if x is None:
        return z3.BoolVal(False)
    if isinstance(x, (bool, int, Fraction, float)):
        return z3.BoolVal(bool(x))
    if isinstance(x, (list, tuple, dict, set, str)):
        return z3.BoolVal(len(x) > 0)
    return z3.BoolVal(True)


def as_num(x):
    """z3 Int/Real term of a scalar (Bool -> 0/1)."""
    z = to_z3(x)
    if z.sort() == BOOL:
        if z3.is_true(z):
            return z3.IntVal(1)
        if z3.is_false(z):
            return z3.IntVal(0)
        return z3.If(z, z3.IntVal(1), z3.IntVal(0))
    if z.sort() in (INT, REAL):
        return z
    raise Unsupported(f"arithmetic on sort {z.sort()}")


def as_real(x):
    z = as_num(x)
    return z3.ToReal(z) if z.sort() == INT else z


def as_int(x):
    z = as_num(x)
    if z.sort() != INT:
        raise Unsupported("integer expected")
    return z


def simp(z):
    return z3.simplify(z)


def concrete_of(z):
    """python value if the z3 term is a literal, else None"""
    if z3.is_int_value(z):
        return z.as_long()
    if z3.is_rational_value(z):
        return Fraction(z.numerator_as_long(), z.denominator_as_long())
    if z3.is_true(z):
        return True
    if z3.is_false(z):
        return False
    return None


def mk(z, gd=frozenset()):
    """Wrap a z3 term, folding literals back to python values when no ghost
    dependencies are attached."""
    z = z3.simplify(z) if not z3.is_const(z) else z
    if not gd:
        c = concrete_of(z)
        if c is not None:
            return c
    return Sym(z, gd)


# --------------------------------------------------------------------------
# uninterpreted transcendental functions with the axioms the proofs use
# --------------------------------------------------------------------------

_UF = {}


def uf(name, *sorts):
    key = (name,) + tuple(str(s) for s in sorts)
    if key not in _UF:
        _UF[key] = z3.Function(name, *sorts)
    return _UF[key]


def const(name, sort):
    return z3.Const(name, sort)


# --------------------------------------------------------------------------
# arithmetic
# --------------------------------------------------------------------------


def _num_pair(a, b):
    za, zb = as_num(a), as_num(b)
    if za.sort() != zb.sort():
        za, zb = as_real(a), as_real(b)
    return za, zb


def _entailed_positive(zb):
    """does the current path condition entail divisor > 0?  (then Python's
    floor division / modulo coincide with z3's Euclidean div / mod)"""
    from . import tensor as T

    st = T.CUR["st"]
    if st is None:
        return False
    cache = st.ghost.setdefault("positive_divisors", {})
    k = zb.get_id()
    if k in cache:
        return cache[k][0]
    s = z3.Solver()
    s.set("timeout", 1000)
    for h in st.pc:
        s.add(h)
    s.add(zb <= 0)
    r = s.check() == z3.unsat
    cache[k] = (r, zb)
    return r


def py_floordiv(a: z3.ArithRef, b: z3.ArithRef):
    """Python floor division / modulo on integers for any sign of divisor:
    z3 div/mod are Euclidean (remainder >= 0)."""
    q = a / b  # z3 int div (euclidean)
    r = a % b
    # python: result of % has the sign of b
    adj = z3.And(b < 0, r != 0)
    return z3.If(adj, q + 1, q), z3.If(adj, r + b, r)


def _is_val(x):
    return isinstance(x, Sym) and x.z.sort() == VAL


def _opaque_arith(op, a, b):
    """`+` / `*` between two opaque payloads (sort Val, e.g. two value tables that
    are never inspected at loop level, DESIGN 4.2): an uninterpreted function of
    the two payloads; the commutativity instance for this pair is assumed."""
    from . import tensor as T

    f = uf({"+": "val_add", "*": "val_mul"}[op], VAL, VAL, VAL)
    z = f(a.z, b.z)
    st = T.CUR["st"]
    if st is not None and not z3.eq(a.z, b.z):
        st.assume(z == f(b.z, a.z))
    return Sym(z)


def binop(op, a, b):
    from . import tensor as T

    if isinstance(a, Anything) or isinstance(b, Anything):
        return Anything("arith")
    if isinstance(a, T.Tensor) or isinstance(b, T.Tensor):
        return T.tensor_binop(op, a, b)
    # concrete fast path
    if not isinstance(a, (Sym, z3.ExprRef)) and not isinstance(
        b, (Sym, z3.ExprRef)
    ):
        return _concrete_binop(op, a, b)
    if op in ("+", "*") and _is_val(a) and _is_val(b):
        return _opaque_arith(op, a, b)
    if op == "*" and (isinstance(a, (list, tuple)) or isinstance(b, (list, tuple))):
        # sequence repetition  [x] * n : with a concrete n it is the python operation, with a symbolic n the length of
        # the result is symbolic - outside the supported subset (never a guess)
        seq, n = (a, b) if isinstance(a, (list, tuple)) else (b, a)
        c = concrete_of(z3.simplify(to_z3(n))) if isinstance(n, (Sym, z3.ExprRef)) else n
        if isinstance(c, int) and not isinstance(c, bool):
            return seq * c
        if isinstance(seq, list) and len(seq) == 1 and isinstance(n, Sym) and n.z.sort() == INT:
            # [x] * n with a symbolic n: the list [x for _ in range(n)] (every element is x)
            _REP_COUNTER[0] += 1
            return SymComp(0, n, z3.Int(f"rep!{_REP_COUNTER[0]}"), seq[0])
        raise Unsupported("sequence repetition with a symbolic count")
    gd = gdeps_of(a, b)
    if op in ("+", "-", "*"):
        za, zb = _num_pair(a, b)
        z = {"+": za + zb, "-": za - zb, "*": za * zb}[op]
        return mk(z, gd)
    if op == "/":
        za, zb = as_real(a), as_real(b)
        return mk(za / zb, gd)
    if op in ("//", "%"):
        za, zb = as_num(a), as_num(b)
        if za.sort() == INT and zb.sort() == INT:
            cb = concrete_of(z3.simplify(zb))
            if (cb is not None and cb > 0) or _entailed_positive(zb):
                return mk(za / zb if op == "//" else za % zb, gd)
            q, r = py_floordiv(za, zb)
            return mk(q if op == "//" else r, gd)
        if REAL_DIVMOD_HOOK["fn"] is not None:
            # real (float) floor division / modulo: library model installed by pyvc/lib/ext_ensemble.py
            q, r = REAL_DIVMOD_HOOK["fn"](as_real(a), as_real(b))
            return mk(q if op == "//" else r, gd)
        raise Unsupported("floor division / modulo on reals")
    if op == "**":
        if isinstance(b, int) and not isinstance(b, bool) and 0 <= b <= 4:
            za = as_num(a)
            z = z3.IntVal(1) if za.sort() == INT else z3.RealVal(1)
            for _ in range(b):
                z = z * za
            return mk(z, gd)
        if isinstance(b, Fraction) and b.denominator == 1 and 0 <= b <= 4:
            return binop("**", a, int(b))
        return pow_term(a, b, gd)
    if op in ("&", "|"):
        if op == "&":
            return mk(z3.And(as_bool(a), as_bool(b)))
        return mk(z3.Or(as_bool(a), as_bool(b)))
    raise Unsupported(f"binary operator {op}")


POW_HOOK = {"st": None}
REAL_DIVMOD_HOOK = {"fn": None}


def pow_term(a, b, gd=frozenset()):
    """x ** a for real exponent: uninterpreted, with the sign / identity /
    monotonicity facts of the real power function added for every pair of
    applications that share the exponent term (assumed library contract)."""
    f = uf("pow", REAL, REAL, REAL)
    x, e = as_real(a), as_real(b)
    y = f(x, e)
    return Sym(y, gd)


def _concrete_binop(op, a, b):
    import operator

    if isinstance(a, float):
        a = frac_of(a)
    if isinstance(b, float):
        b = frac_of(b)
    if isinstance(a, (list, tuple, str)) or isinstance(b, (list, tuple, str)):
        if op == "+":
            return a + b
        if op == "*":
            return a * b
        if op == "%" and isinstance(a, str):
            return a
        raise Unsupported(f"operator {op} on sequences")
    if isinstance(a, (set, frozenset)) and isinstance(b, (set, frozenset)):
        return {"-": operator.sub, "|": operator.or_, "&": operator.and_}[op](
            a, b
        )
    if a is None or b is None:
        raise PyRaise("TypeError", f"unsupported operand None for {op}")
    if op == "/":
        if b == 0:
            raise PyRaise("ZeroDivisionError")
        return Fraction(a) / Fraction(b)
    if op == "**":
        if isinstance(b, Fraction) and b.denominator != 1:
            return pow_term(a, b)
        if isinstance(b, Fraction):
            b = int(b)
        if b < 0:
            return Fraction(a) ** b
        return a**b
    if op in ("//", "%") and b == 0:
        raise PyRaise("ZeroDivisionError")
    fn = {
        "+": operator.add,
        "-": operator.sub,
        "*": operator.mul,
        "//": operator.floordiv,
        "%": operator.mod,
        "&": operator.and_,
        "|": operator.or_,
    }.get(op)
    if fn is None:
        raise Unsupported(f"binary operator {op}")
    return fn(a, b)


def unop(op, a):
    from . import tensor as T

    if isinstance(a, Anything):
        return Anything("arith")
    if isinstance(a, T.Tensor):
        return T.tensor_unop(op, a)
    if op == "-":
        if isinstance(a, Sym):
            return mk(-as_num(a), a.gdeps)
        if isinstance(a, Opaque) and a.tag in ("inf", "-inf"):
            return Opaque("-inf" if a.tag == "inf" else "inf")
        if isinstance(a, float):
            a = frac_of(a)
        return -a
    if op == "+":
        return a
    if op == "not":
        if isinstance(a, Sym):
            return mk(z3.Not(as_bool(a)))
        return not _concrete_truth(a)
    if op == "~":
        if isinstance(a, Sym) and a.is_bool():
            return mk(z3.Not(a.z))
        raise Unsupported("bitwise invert")
    raise Unsupported(f"unary operator {op}")


def _concrete_truth(a):
    if isinstance(a, (Obj, Closure, Builtin, ClassInfo)):
        return True
    return bool(a)


def compare(op, a, b):
    from . import tensor as T

    if (isinstance(a, Anything) or isinstance(b, Anything)) and op not in ("is", "is not"):
        return Anything("cmp")
    if isinstance(a, T.Tensor) or isinstance(b, T.Tensor):
        return T.tensor_compare(op, a, b)
    if op in ("is", "is not"):
        r = identical(a, b)
        return r if op == "is" else (not r)
    if inf_sign(a) or inf_sign(b):
        return _compare_inf(op, a, b)
    sa = isinstance(a, (Sym, z3.ExprRef))
    sb = isinstance(b, (Sym, z3.ExprRef))
    if not sa and not sb:
        return _concrete_compare(op, a, b)
    # None / object vs symbolic
    other = b if sa else a
    if other is None or isinstance(other, (Obj, str)):
        if op == "==":
            return False
        if op == "!=":
            return True
        raise PyRaise("TypeError", f"{op} between term and {other!r}")
    za, zb = to_z3(a), to_z3(b)
    if za.sort() in (VAL, ROW, KEY) or zb.sort() in (VAL, ROW, KEY):
        if za.sort() != zb.sort():
            raise Unsupported("comparison across opaque sorts")
        if op == "==":
            return mk(za == zb)
        if op == "!=":
            return mk(za != zb)
        raise Unsupported("ordering on opaque sort")
    if za.sort() == BOOL and zb.sort() == BOOL and op in ("==", "!="):
        return mk(za == zb if op == "==" else za != zb)
    za, zb = _num_pair(a, b)
    z = {
        "<": lambda: za < zb,
        "<=": lambda: za <= zb,
        ">": lambda: za > zb,
        ">=": lambda: za >= zb,
        "==": lambda: za == zb,
        "!=": lambda: za != zb,
    }[op]()
    return mk(z)


def inf_sign(x):
    """+1 / -1 for the IEEE infinities (Opaque('inf') / Opaque('-inf')), else 0"""
    if isinstance(x, Opaque):
        return 1 if x.tag == "inf" else (-1 if x.tag == "-inf" else 0)
    return 0


def _compare_inf(op, a, b):
    """ordering against +-inf: every Int/Real term denotes a FINITE number
    (reals for floats), so -inf < x < +inf holds for all of them (IEEE 754
    total order on non-NaN values); inf == inf."""
    import operator

    for x in (a, b):
        if inf_sign(x):
            continue
        ok = isinstance(x, (int, Fraction, float)) and not isinstance(x, bool)
        if isinstance(x, (Sym, z3.ExprRef)):
            ok = to_z3(x).sort() in (INT, REAL)
        if not ok:
            if op in ("==", "!="):
                return op == "!="
            raise Unsupported(f"ordering of {type(x).__name__} against an infinity")
    fn = {"<": operator.lt, "<=": operator.le, ">": operator.gt, ">=": operator.ge, "==": operator.eq, "!=": operator.ne}[op]
    return fn(inf_sign(a), inf_sign(b))


def identical(a, b):
    if a is None or b is None:
        if isinstance(a, Sym) or isinstance(b, Sym):
            return False
        return a is b
    if isinstance(a, bool) and isinstance(b, bool):
        return a == b
    if isinstance(a, Sym) or isinstance(b, Sym):
        raise Unsupported("identity comparison of symbolic scalars")
    return a is b


def _concrete_compare(op, a, b):
    import operator

    if isinstance(a, float):
        a = frac_of(a)
    if isinstance(b, float):
        b = frac_of(b)
    if op == "==":
        return _concrete_eq(a, b)
    if op == "!=":
        return not _concrete_eq(a, b)
    if op == "in":
        raise AssertionError
    fn = {
        "<": operator.lt,
        "<=": operator.le,
        ">": operator.gt,
        ">=": operator.ge,
    }[op]
    try:
        return fn(a, b)
    except TypeError:
        raise PyRaise("TypeError", f"{op} not supported between {a!r} and {b!r}")


def _concrete_eq(a, b):
    if isinstance(a, (Obj, Closure, Builtin, ClassInfo, Opaque)) or isinstance(
        b, (Obj, Closure, Builtin, ClassInfo, Opaque)
    ):
        return a is b
    try:
        return a == b
    except Unsupported:
        raise
    except Exception:
        return a is b


def ite(c, a, b):
    """conditional value"""
    from . import tensor as T

    if isinstance(c, bool):
        return a if c else b
    cz = as_bool(c)
    if z3.is_true(cz):
        return a
    if z3.is_false(cz):
        return b
    if isinstance(a, T.Tensor) or isinstance(b, T.Tensor):
        return T.where(Sym(cz), a, b)
    za, zb = to_z3(a), to_z3(b)
    if za.sort() != zb.sort():
        if za.sort() == BOOL or zb.sort() == BOOL:
            za, zb = as_num(a), as_num(b)
        if za.sort() != zb.sort():
            za, zb = as_real(a), as_real(b)
    return mk(z3.If(cz, za, zb), gdeps_of(a, b))


def smin(*xs):
    r = xs[0]
    for x in xs[1:]:
        r = ite(compare("<", x, r), x, r) if _any_sym(x, r) else min(
            _cn(x), _cn(r)
        )
    return r


def smax(*xs):
    r = xs[0]
    for x in xs[1:]:
        r = ite(compare(">", x, r), x, r) if _any_sym(x, r) else max(
            _cn(x), _cn(r)
        )
    return r


def _cn(x):
    return frac_of(x) if isinstance(x, float) else x


def _any_sym(*xs):
    return any(isinstance(x, Sym) for x in xs)


def sabs(x):
    if isinstance(x, Sym):
        z = as_num(x)
        return mk(z3.If(z >= 0, z, -z), x.gdeps)
    return abs(_cn(x))


def conj(xs):
    xs = [as_bool(x) for x in xs]
    return z3.And(*xs) if xs else z3.BoolVal(True)


def implies(a, b):
    return Sym(z3.Implies(as_bool(a), as_bool(b)))


def band(*xs):
    return Sym(conj(xs))


def bor(*xs):
    return Sym(z3.Or(*[as_bool(x) for x in xs]))


def bnot(x):
    return Sym(z3.Not(as_bool(x)))


def iff(a, b):
    return Sym(as_bool(a) == as_bool(b))
