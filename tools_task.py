#!/usr/bin/env python3
"""Developer helper: run ONE task of a property's contract module with obligation tracing.

usage: python3-vt tools_task.py C08 "PrioritizedReplayBuffer.sample_batch"   (PYVC_TRACE=1 is set)
"""
import importlib
import os
import sys
import time

os.environ.setdefault("PYVC_TRACE", "1")
sys.path.insert(0, os.path.dirname(os.path.abspath(__file__)))
from pyvc import engine, runner  # noqa: E402

mod = importlib.import_module(f"contracts.{sys.argv[1]}")
for t in mod.TASKS:
    if t.name == sys.argv[2]:
        t0 = time.time()
        res = engine.run_task(t.name, t.harness, root=runner.REPO, setup=t.setup, allow_raise=t.allow_raise, both=bool(os.environ.get("PYVC_BOTH")))
        for o in res.obligations.values():
            if o["verdict"] != "discharged":
                print(o["verdict"], o["name"], str(o.get("detail"))[:300])
        print("errors", res.errors[:3] if hasattr(res, "errors") else None)
        print(f"{len(res.obligations)} obligations, {time.time() - t0:.1f}s")
        break
else:
    print("no such task; have:", [t.name for t in mod.TASKS])
