"""Replay for C08: drive the real PriorityBuffer / LAP / PrioritizedReplayBuffer /
SubtrajectoryReplayBufferPER through bounded histories of add / sample /
update_priority / reset_max_priority and re-check natively what contracts/C08.py
states, against a slot-level reference model.

* sampling law (inverse CDF): the generator is a stub whose `uniform` returns
  chosen variates u in (0,1) (a grid plus values next to 0 and 1) and records
  what it handed out; the index i returned for the point x (= u*S for the plain
  sampler, = the stratified point low+u*(high-low) for PER) must satisfy
  0 <= i < len, w_i > 0 (never a masked entry) and c[i-1] < x <= c[i] with
  c = cumsum(priority*mask)[:len], S = c[len-1]; the stratified segments must
  be [q*S/B, (q+1)*S/B); the sampled rows are identified from the data the
  batch returns (observation tag), not from the object's bookkeeping, and
  `sampled_indices` must be exactly those rows (what update_priority will write);
* all-masked / empty sampling must raise;
* add: the new slot(s) get the current max_priority, max_priority unchanged;
* update_priority: every slot of the last sampled batch holds one of the values
  supplied for it, every other slot of the priority array is bit-identical, the
  stored transitions are untouched, max_priority >= every supplied value and
  never decreases;
* always: 0 < priority_i <= max_priority for i < len; after reset_max_priority
  max_priority == max(priority[:len]) (the never-written part of the priority
  array is np.empty memory: it is poisoned with huge values after construction,
  which is one of its admissible contents);
* importance weights (PER): in (0,1], maximum 1, non-increasing in priority,
  for beta in {0, 0.4, 1};
* lap_priority / per_priority: positive, non-decreasing in |td error|,
  lap == max(|d|, p_min)**alpha, on a grid of errors / alpha / p_min / epsilon.
Obligations of the multi-task wrapper (name contains "MultiTaskReplayBuffer") are
checked by _multitask.run_multitask (priorities of EVERY task's buffer compared
before / after update_priority and reset_max_priority).
Histories: every operation sequence of length <= 5 over {add, sample(1),
sample(3), update, reset} for capacities 1..3 and seeded random walks for
capacities 2..6 (+ the counter-model's N); priorities supplied to updates
include equal, tiny (1e-3) and huge (1e4) values.
"""
import itertools
import os
import sys
import time

import numpy as np

sys.path.insert(0, os.path.dirname(__file__))
from _common import done, load, model_of

from rl_blox.blox.replay_buffer import LAP, PrioritizedReplayBuffer, PriorityBuffer, SubtrajectoryReplayBufferPER, lap_priority, per_priority

T0 = time.time()
BUDGET_S = 45.0
POISON = 1e30
PATTERN = [0.25, 3.5, 1.0, 1.0, 1e-3, 1e4, 0.5, 2.0]


class Violation(Exception):
    def __init__(self, clause, what):
        super().__init__(what)
        self.clause, self.what = clause, what


class StubRng:
    """hands out chosen variates in the open unit interval and records them"""

    def __init__(self):
        self.calls = []

    @staticmethod
    def units(n):
        u = (np.arange(n) + 0.5) / n
        if n >= 3:
            u[0], u[-1] = 1e-12, 1 - 1e-12
        return u

    def uniform(self, low=0.0, high=1.0, size=None):
        n = int(np.prod(size)) if size is not None else 1
        u = self.units(n)
        x = np.asarray(low) + u * (np.asarray(high) - np.asarray(low))
        self.calls.append(dict(low=np.array(low, dtype=float), high=np.array(high, dtype=float), u=u, x=np.array(x, dtype=float)))
        return x

    def integers(self, low, high=None, size=None, **kw):
        raise Violation("sample.uses_cumsum_and_uniform", "the prioritized sampler drew uniform integers instead of sampling by priority")


def check_law(prefix, idx, weights, xs, stratified=None):
    """interval law for every drawn position"""
    ln = len(weights)
    c = np.cumsum(weights)
    S = c[-1]
    eps = 1e-9 * S
    idx = np.asarray(idx)
    if idx.shape != (len(xs),):
        raise Violation(f"{prefix}.batch_shape", f"indices of shape {idx.shape} for {len(xs)} draws")
    if stratified is not None:
        lo, hi = stratified
        B = len(xs)
        want_lo, want_hi = np.arange(B) * S / B, (np.arange(B) + 1) * S / B
        if lo.shape != (B,) or hi.shape != (B,) or not (np.allclose(lo, want_lo, rtol=1e-9, atol=eps) and np.allclose(hi, want_hi, rtol=1e-9, atol=eps)):
            raise Violation(f"{prefix}.stratified_segments", f"segments low {lo.tolist()} high {hi.tolist()}, expected {want_lo.tolist()} .. {want_hi.tolist()} (total priority {S})")
    for q, (i, x) in enumerate(zip(idx.tolist(), xs.tolist())):
        ctx = f"draw {q}: point {x!r} of total {S!r} -> index {i}; weights {np.asarray(weights).tolist()}"
        if not (0 <= i < ln):
            raise Violation(f"{prefix}.interval_law", ctx + f": outside the filled region [0, {ln})")
        if not weights[i] > 0:
            raise Violation(f"{prefix}.interval_law", ctx + ": a masked / zero-weight entry")
        lo = c[i - 1] if i >= 1 else 0.0
        if not (lo - eps < x <= c[i] + eps):
            raise Violation(f"{prefix}.interval_law", ctx + f": not in ({lo!r}, {c[i]!r}]")


def bits(a):
    return np.asarray(a).tobytes()


# ---------------------------------------------------------------- adapters
def trans(j):
    return dict(observation=np.array([j, j + 0.25]), action=np.array([j + 0.5]), reward=float(j), next_observation=np.array([j + 0.75, j]), termination=j % 2)


class Adapter:
    """reference model: which log row sits in which slot, last sampled batch"""
    name = "?"

    def __init__(self, N):
        self.N = N
        self.g = 0  # rows ever written
        self.last = None  # slots of the most recently sampled batch
        self.ops = []
        self.n_upd = 0

    @property
    def ln(self):
        return min(self.g, self.N)

    def mask(self):
        return None

    def weights(self):
        w = np.array(self.pb.priority[: self.ln], dtype=float)
        m = self.mask()
        return w if m is None else w * np.asarray(m[: self.ln])

    def slot_of_row(self, a):
        if not (max(0, self.g - self.N) <= a < self.g):
            raise Violation("sample.row_is_stored", f"sampled row tagged {a} is not among the live rows [{max(0, self.g - self.N)}, {self.g})")
        return a % self.N

    def data_bits(self):
        return b""

    def prepare(self):
        pass


class PBAdapter(Adapter):
    """PriorityBuffer used directly, with a caller-supplied validity mask"""
    name = "PriorityBuffer"

    def __init__(self, N, masked):
        super().__init__(N)
        self.pb = PriorityBuffer(N)
        if self.pb.max_priority != 1.0:
            raise Violation("init.max_priority_is_one", f"max_priority {self.pb.max_priority}")
        if len(self.pb.priority) != N:
            raise Violation("init.capacity", f"{len(self.pb.priority)} priorities for capacity {N}")
        self.pb.priority[:] = POISON
        self.masked = masked
        self.m = np.ones(N, dtype=int)
        self.k = 0

    def mask(self):
        return self.m if self.masked else None

    def add(self, kind="n"):
        s = self.g % self.N
        self.pb.initialize_priority(s)
        self.g += 1
        return [s]

    def prepare(self):
        if self.masked and self.ln > 0:  # a new mask for every draw, at least one valid entry
            self.k += 1
            r = np.random.default_rng(self.k)
            self.m = (r.random(self.N) < 0.6).astype(int)
            self.m[int(r.integers(0, self.ln))] = 1

    def sample(self, bs, rng):
        idx = self.pb.prioritized_sampling(self.ln, bs, rng, self.mask()) if self.masked else self.pb.prioritized_sampling(self.ln, bs, rng)
        return np.array(idx, copy=True), None


class BufAdapter(Adapter):
    def __init__(self, cls, N):
        super().__init__(N)
        self.name = cls.__name__
        self.buf = cls(N)
        self.pb = self.buf.priority
        self.pb.priority[:] = POISON
        self.beta_k = 0

    def add(self, kind="n"):
        s = self.g % self.N
        self.buf.add_sample(**trans(self.g))
        self.g += 1
        return [s]

    def sample(self, bs, rng):
        ratio = None
        if isinstance(self.buf, PrioritizedReplayBuffer):
            self.beta_k += 1
            self.beta = [0.4, 0.0, 1.0][self.beta_k % 3]
            batch, ratio = self.buf.sample_batch(bs, rng, self.beta)
        else:
            batch = self.buf.sample_batch(bs, rng)
        obs = np.asarray(batch.observation)
        rew = np.asarray(batch.reward)
        rows = [int(obs[q][0]) for q in range(len(obs))]
        for q, a in enumerate(rows):
            if rew[q] != a or obs[q][1] != a + 0.25:
                raise Violation("sample.row_is_stored", f"batch row {q} mixes transitions: observation {obs[q].tolist()}, reward {rew[q]}")
        return np.array([self.slot_of_row(a) for a in rows]), ratio

    def data_bits(self):
        return b"".join(bits(v) for v in self.buf.buffer.values())


class SubAdapter(Adapter):
    name = "SubtrajectoryReplayBufferPER"

    def __init__(self, N, H=1):
        super().__init__(N)
        self.buf = SubtrajectoryReplayBufferPER(N, H)
        self.pb = self.buf.priority
        self.pb.priority[:] = POISON
        self.ep, self.t = 0, 0

    def mask(self):
        return np.asarray(self.buf.mask_)

    def add(self, kind="n"):
        a = self.g
        self.t += 1
        self.buf.add_sample(observation=np.array([a, self.ep, self.t], dtype=float), action=np.array([a + 0.5]), reward=a + 0.25,
                            next_observation=np.array([a + 1, self.ep, self.t + 1], dtype=float), terminated=int(kind == "t"), truncated=int(kind == "x"))
        slots = [a % self.N]
        self.g += 1
        if kind != "n":
            slots.append(self.g % self.N)
            self.g += 1
            self.ep, self.t = self.ep + 1, 0
        return slots

    def sample(self, bs, rng):
        batch = self.buf.sample_batch(bs, 1, True, rng)
        obs = np.asarray(batch.observation)
        return np.array([self.slot_of_row(int(obs[q, 0, 0])) for q in range(len(obs))]), None

    def data_bits(self):
        return b"".join(bits(v) for v in self.buf.buffer.values())


# ---------------------------------------------------------------- operations with their clauses
def pwf(ad, where):
    pr = ad.pb.priority[: ad.ln]
    if not (np.all(pr > 0) and np.all(pr <= ad.pb.max_priority)):
        raise Violation(f"{where}.pwf", f"priorities {pr.tolist()} of the filled region vs max_priority {ad.pb.max_priority}")


def op_add(ad, kind="n"):
    maxp = ad.pb.max_priority
    before = ad.pb.priority.copy()
    slots = ad.add(kind)
    ad.ops.append("add" if kind == "n" else f"add[{kind}]")
    for s in slots:
        if ad.pb.priority[s] != maxp:
            raise Violation("add.new_entry_gets_max_priority", f"slot {s} got priority {float(ad.pb.priority[s])!r}, max_priority was {float(maxp)!r}")
    if ad.pb.max_priority != maxp:
        raise Violation("add.max_unchanged", f"max_priority {float(maxp)!r} -> {float(ad.pb.max_priority)!r}")
    for s in range(ad.N):
        if s not in slots and bits(before[s]) != bits(ad.pb.priority[s]):
            raise Violation("add.pwf", f"adding to slot(s) {slots} changed the priority of slot {s}: {float(before[s])!r} -> {float(ad.pb.priority[s])!r}")
    pwf(ad, "add")


def valid_exists(ad):
    return ad.ln > 0 and bool(np.any(ad.weights() > 0))


def op_sample(ad, bs):
    rng = StubRng()
    ad.prepare()
    ad.ops.append(f"sample({bs})" + (f" mask {ad.mask().tolist()}" if ad.mask() is not None else ""))
    if not valid_exists(ad):
        try:
            ad.sample(bs, rng)
        except Violation:
            raise
        except Exception:
            return
        raise Violation("sampling.all_masked_rejected", "indices were returned although no valid entry exists (empty buffer or every entry masked)")
    w = ad.weights()
    pr_before, max_before, data_before = bits(ad.pb.priority), ad.pb.max_priority, ad.data_bits()
    idx, ratio = ad.sample(bs, rng)
    if not rng.calls:
        raise Violation("sample.uses_cumsum_and_uniform", "no uniform variates drawn")
    call = rng.calls[0]
    prefix = "sampling" if isinstance(ad, PBAdapter) else "sample"
    if call["low"].ndim == 0:  # plain inverse CDF: variates in (0,1) scaled by the total
        check_law(prefix, idx, w, call["u"] * np.cumsum(w)[-1])
    else:
        check_law(prefix, idx, w, call["x"], stratified=(call["low"], call["high"]))
    si = np.asarray(ad.pb.sampled_indices)
    if si.shape != idx.shape or not np.array_equal(si, idx):
        raise Violation(f"{prefix}.remembers_batch", f"sampled rows are slots {idx.tolist()} but update_priority would write {si.tolist()}")
    if bits(ad.pb.priority) != pr_before or ad.pb.max_priority != max_before or ad.data_bits() != data_before:
        raise Violation(f"{prefix}.frame", "sampling changed priorities / stored transitions")
    ad.last = idx
    if ratio is not None:
        r = np.asarray(ratio, dtype=float)
        p = ad.pb.priority[idx]
        ctx = f"beta {ad.beta}, sampled priorities {p.tolist()}, weights {r.tolist()}"
        if r.shape != (bs,) or not (np.all(r > 0) and np.all(r <= 1)):
            raise Violation("importance.in_unit_interval", ctx)
        if r.max() != 1.0:
            raise Violation("importance.max_is_one", ctx)
        for q in range(bs):
            for q2 in range(bs):
                if p[q] <= p[q2] and not r[q] >= r[q2] * (1 - 1e-12):
                    raise Violation("importance.non_increasing_in_priority", ctx + f": positions {q}, {q2}")


def op_update(ad, newp=None):
    if ad.last is None:
        return
    idx = ad.last
    if newp is None:
        newp = np.array([PATTERN[(ad.n_upd + q) % len(PATTERN)] for q in range(len(idx))])
        ad.n_upd += 1
    ad.ops.append(f"update{idx.tolist()}<-{np.asarray(newp).tolist()}")
    before, max_before, data_before = ad.pb.priority.copy(), ad.pb.max_priority, ad.data_bits()
    (ad.buf if hasattr(ad, "buf") else ad.pb).update_priority(newp)
    now = ad.pb.priority
    for s in range(ad.N):
        supplied = [float(p) for p, i in zip(newp, idx) if i == s]
        if supplied:
            if float(now[s]) not in supplied:
                raise Violation("update.batch_entries_set", f"slot {s} of the last batch holds {float(now[s])!r}, supplied for it: {supplied}")
        elif bits(now[s]) != bits(before[s]):
            raise Violation("update.frame_other_slots", f"slot {s} is not in the last batch {idx.tolist()} but changed {float(before[s])!r} -> {float(now[s])!r}")
    if ad.data_bits() != data_before:
        raise Violation("update.frame_transitions_untouched", "update_priority wrote to the stored transitions")
    if not ad.pb.max_priority >= np.max(newp):
        raise Violation("update.max_dominates_supplied", f"max_priority {float(ad.pb.max_priority)!r} < supplied {float(np.max(newp))!r}")
    if not ad.pb.max_priority >= max_before:
        raise Violation("update.max_never_decreases", f"max_priority {float(max_before)!r} -> {float(ad.pb.max_priority)!r}")
    pwf(ad, "update")


def op_reset(ad):
    ad.ops.append("reset")
    before, max_before = bits(ad.pb.priority), ad.pb.max_priority
    if hasattr(ad, "buf"):
        ad.buf.reset_max_priority()
    else:
        ad.pb.reset_max_priority(ad.ln)
    if bits(ad.pb.priority) != before:
        raise Violation("reset.pwf", "reset_max_priority changed stored priorities")
    if ad.ln == 0:
        if ad.pb.max_priority != max_before:
            raise Violation("reset.empty_unchanged", f"max_priority {float(max_before)!r} -> {float(ad.pb.max_priority)!r} on an empty buffer")
        return
    true_max = float(np.max(ad.pb.priority[: ad.ln]))
    if not ad.pb.max_priority >= true_max:
        raise Violation("reset.max_is_upper_bound", f"max_priority {float(ad.pb.max_priority)!r} < stored {true_max!r}")
    if ad.pb.max_priority != true_max:
        raise Violation("reset.max_is_attained", f"max_priority {float(ad.pb.max_priority)!r} after reset, true maximum of the {ad.ln} stored priorities is {true_max!r}")
    pwf(ad, "reset")


def run_ops(make, ops, r=None):
    ad = None
    try:
        ad = make()
        for o in ops:
            if o == "A":
                op_add(ad, "n" if r is None or not isinstance(ad, SubAdapter) else "nnntx"[int(r.integers(0, 5))])
            elif o in ("S1", "S3", "S8"):
                op_sample(ad, int(o[1:]))
            elif o == "U":
                op_update(ad, None if r is None or ad.last is None else r.choice(PATTERN, size=len(ad.last)))
            elif o == "R":
                op_reset(ad)
    except Violation as v:
        return dict(cls=getattr(ad, "name", "PriorityBuffer"), capacity=getattr(ad, "N", None), operations=getattr(ad, "ops", []), violated=v.clause, what=v.what)
    except Exception as e:  # crash of a public operation in a reachable state
        return dict(cls=getattr(ad, "name", "?"), capacity=getattr(ad, "N", None), operations=getattr(ad, "ops", []), violated="no_uncaught_exception", what=f"{type(e).__name__}: {e}")
    return None


def histories(make_for, caps_small, caps_walk, stats, label):
    for N in caps_small:
        for L in range(1, 6):
            for ops in itertools.product(["A", "S1", "S3", "U", "R"], repeat=L):
                if ops[0] not in ("A", "S1", "R") or (L > 1 and "A" not in ops):
                    continue  # without additions only the empty-buffer behaviour is visible (covered by length 1)
                if time.time() - T0 > BUDGET_S:
                    stats["timeout"] = f"{label}: enumeration cut at capacity {N}, length {L}"
                    return None
                w = run_ops(lambda: make_for(N), ops)
                stats["histories"] = stats.get("histories", 0) + 1
                if w:
                    return w
    for N in caps_walk:
        r = np.random.default_rng(100 + N)
        for _ in range(40):
            if time.time() - T0 > BUDGET_S:
                stats["timeout"] = f"{label}: random walks cut at capacity {N}"
                return None
            ops = ["A"] + [["A", "A", "S1", "S3", "S8", "U", "U", "R"][int(r.integers(0, 8))] for _ in range(3 * N + 6)]
            w = run_ops(lambda: make_for(N), ops, r)
            stats["walks"] = stats.get("walks", 0) + 1
            if w:
                return w
    return None


def law_sweep(stats):
    """PriorityBuffer: chosen priority vectors (equal, tiny, huge) x every mask, fine grid of variates"""
    vectors = [[1.0], [1.0, 1.0, 1.0], [0.25, 3.5, 1.0, 1.0], [1e-3, 1e4, 1.0], [1e4, 1e-3, 1e-3, 1e4, 2.0], [0.5, 0.5, 2.0, 0.125, 8.0, 1.0]]
    for vec in vectors:
        n = len(vec)
        for N in (n, n + 2):
            for mask in itertools.product([0, 1], repeat=n):
                ad = None
                try:
                    ad = PBAdapter(N, masked=False)
                    for _ in range(n):
                        op_add(ad)
                    op_sample(ad, n)  # equal priorities: the grid (j+0.5)/n selects every slot once
                    op_update(ad, np.array([vec[i] for i in ad.last]))
                    if ad.pb.priority[:n].tolist() != vec:
                        raise Violation("update.batch_entries_set", f"priorities {ad.pb.priority[:n].tolist()} after writing {vec} to batch {ad.last.tolist()}")
                    m = np.array(list(mask) + [1] * (N - n))
                    w = np.array(vec) * np.array(mask)
                    ad.ops.append(f"prioritized_sampling(len={n}, mask={m.tolist()})")
                    for bs in (1, 7, 64):
                        rng = StubRng()
                        if not w.any():
                            try:
                                ad.pb.prioritized_sampling(n, bs, rng, m)
                            except Exception:
                                continue
                            raise Violation("sampling.all_masked_rejected", "prioritized_sampling returned indices although every entry is masked out")
                        idx = ad.pb.prioritized_sampling(n, bs, rng, m)
                        check_law("sampling", idx, w, rng.calls[0]["u"] * w.sum())
                        if not np.array_equal(np.asarray(ad.pb.sampled_indices), np.asarray(idx)):
                            raise Violation("sampling.remembers_batch", f"returned {np.asarray(idx).tolist()}, remembered {np.asarray(ad.pb.sampled_indices).tolist()}")
                        if bs == 64:  # every valid entry owns an interval of length w_i/S: all of them are hit by a grid this fine when weights are comparable
                            missed = [i for i in range(n) if w[i] / w.sum() > 2 / 64 and i not in set(np.asarray(idx).tolist())]
                            if missed:
                                raise Violation("sampling.interval_law", f"valid entries {missed} (weights {w.tolist()}) are never drawn by a 64-point grid")
                    stats["sweeps"] = stats.get("sweeps", 0) + 1
                except Violation as v:
                    return dict(cls="PriorityBuffer", capacity=N, operations=getattr(ad, "ops", []), violated=v.clause, what=v.what)
                except Exception as e:
                    return dict(cls="PriorityBuffer", capacity=N, operations=getattr(ad, "ops", []), violated="no_uncaught_exception", what=f"{type(e).__name__}: {e}")
    return None


def priority_functions(which, stats):
    import jax.numpy as jnp
    d = np.array([0.0, 1e-8, 1e-3, 0.1, 0.5, 0.999, 1.0, 1.0, 1.001, 2.0, 10.0, 1e4], dtype=np.float32)
    for alpha in (0.1, 0.4, 0.6, 1.0):
        if which in ("lap", "all"):
            for pmin in (0.1, 1.0, 2.0):
                p = np.asarray(lap_priority(jnp.asarray(d), pmin, alpha), dtype=float)
                ctx = f"lap_priority(|d|={d.tolist()}, min_priority={pmin}, alpha={alpha}) = {p.tolist()}"
                if p.shape != d.shape or not np.all(p > 0):
                    return dict(fn="lap_priority", violated="lap.positive", what=ctx)
                if np.any(np.diff(p) < 0):
                    return dict(fn="lap_priority", violated="lap.nondecreasing_in_abs_error", what=ctx)
                want = np.maximum(d.astype(float), pmin) ** alpha
                if not np.allclose(p, want, rtol=1e-4):
                    return dict(fn="lap_priority", violated="lap.formula", what=ctx + f", max(|d|, p_min)**alpha = {want.tolist()}")
        if which in ("per", "all"):
            for eps in (1e-6, 1e-2, 1.0):
                p = np.asarray(per_priority(jnp.asarray(d), alpha, eps), dtype=float)
                ctx = f"per_priority(|d|={d.tolist()}, alpha={alpha}, epsilon={eps}) = {p.tolist()}"
                if p.shape != d.shape or not np.all(p > 0):
                    return dict(fn="per_priority", violated="per.positive", what=ctx)
                if np.any(np.diff(p) < 0):
                    return dict(fn="per_priority", violated="per.nondecreasing_in_abs_error", what=ctx)
        stats["priority_fn_grids"] = stats.get("priority_fn_grids", 0) + 1
    return None


def main():
    p = load()
    m = model_of(p)
    ob = p.get("obligation", "")
    stats = {}
    if "MultiTaskReplayBuffer" in ob:
        # multi-task wrapper (contracts/multitask.py): which task's priorities an update / a reset reaches
        from _multitask import run_multitask

        w, stats = run_multitask(ob, budget_s=40.0, prefer_n=(lambda v: v + 1 if isinstance(v, int) else None)(m.get("n_tasks_minus_1")))
        if w:
            done(True, w)
        done(False, None, note="multi-task wrapper: directed scenarios and seeded random histories (1..3 tasks, capacities 1..3, LAP / PER / uniform task buffers): every update reaches exactly the "
             "slots of the most recent batch in the task that produced it, every reset recomputes every task's maximum", stats=stats, seconds=round(time.time() - T0, 1))
    walk_caps = [2, 3, 4, 5, 6]
    for k, v in m.items():
        if k.startswith("N") and isinstance(v, int) and not isinstance(v, bool) and 1 <= v <= 12 and v not in walk_caps:
            walk_caps.insert(0, v)
    small = [1, 2, 3]
    fam = {
        "pb": lambda: law_sweep(stats) or histories(lambda N: PBAdapter(N, False), small, walk_caps, stats, "PriorityBuffer") or histories(lambda N: PBAdapter(N, True), small, walk_caps, stats, "PriorityBuffer[masked]"),
        "lap": lambda: histories(lambda N: BufAdapter(LAP, N), small, walk_caps, stats, "LAP"),
        "per": lambda: histories(lambda N: BufAdapter(PrioritizedReplayBuffer, N), small, walk_caps, stats, "PrioritizedReplayBuffer"),
        "sub": lambda: histories(lambda N: SubAdapter(N, 1), [2, 3], [n for n in walk_caps if n >= 2], stats, "SubtrajectoryReplayBufferPER") or histories(lambda N: SubAdapter(N, 2), [], [n for n in walk_caps if n >= 3], stats, "SubtrajectoryReplayBufferPER[H=2]"),
        "fn_lap": lambda: priority_functions("lap", stats),
        "fn_per": lambda: priority_functions("per", stats),
    }
    if ".PriorityBuffer." in ob:
        order = ["pb", "sub"]
    elif ".LAP." in ob:
        order = ["lap"]
    elif ".PrioritizedReplayBuffer." in ob:
        order = ["per"]
    elif ".lap_priority." in ob:
        order = ["fn_lap"]
    elif ".per_priority." in ob:
        order = ["fn_per"]
    elif "Subtrajectory" in ob or ".PER." in ob:
        order = ["sub", "pb"]
    else:
        order = ["fn_lap", "fn_per", "pb", "lap", "per", "sub"]
    # budget per family so that every selected family gets its share
    global BUDGET_S
    total = BUDGET_S
    for i, f in enumerate(order):
        BUDGET_S = (time.time() - T0) + (total - (time.time() - T0)) / (len(order) - i)
        w = fam[f]()
        if w:
            done(True, w)
    done(False, None, note=f"families {order}: every bounded history agrees with the reference model (sampling law on the variate grid, add / update / reset bookkeeping, importance weights, priority functions)",
         stats=stats, seconds=round(time.time() - T0, 1))


main()
