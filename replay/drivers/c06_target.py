"""Replay for the function-level tasks of C06 (soft_target_net_update /
hard_target_net_update): call the REAL functions on tiny real nnx modules and
compare every leaf of the parameter trees with the documented law.

* module shapes: `leaf` = rl_blox MLP, `double-q` = ContinuousClippedDoubleQNet
  of two MLPs, `layers` = LayerNormMLP (hidden layers + LayerNorm scale / bias +
  output layer); every leaf of online and target is filled with independent
  random values first (fresh modules share e.g. LayerNorm scale == 1, which
  would hide a swapped tau);
* soft update for tau in {0, 1, 0.005, 0.5} + the counter-model's tau + two
  seeded random tau in (0,1):
    soft.structure                      same tree structure / shapes before and after
    soft.polyak_law_every_leaf[..]      target' == tau*online + (1-tau)*target (float32 tolerance)
    soft.tau1_is_hard_copy[..]          tau == 1: target' == online exactly
    soft.tau0_is_noop[..]               tau == 0: target' == target exactly
    soft.online_network_unchanged       online bit-identical
* hard update: hard.target_equals_online_every_leaf[..] (exact), hard.online_network_unchanged;
* two updates in a row follow the recurrence (no hidden state);
* nnx.clone: the clone has equal values, no shared Variable object, and
  updating the clone (real soft / hard update from a third network) leaves the
  original bit-identical and vice versa (disjoint storage).
"""
import os
import sys
import time

os.environ.setdefault("JAX_PLATFORMS", "cpu")
sys.path.insert(0, os.path.dirname(__file__))
from _common import done, load, model_of

import jax
import numpy as np
from flax import nnx

from rl_blox.blox.double_qnet import ContinuousClippedDoubleQNet
from rl_blox.blox.function_approximator.layer_norm_mlp import LayerNormMLP
from rl_blox.blox.function_approximator.mlp import MLP
from rl_blox.blox.target_net import hard_target_net_update, soft_target_net_update

T0 = time.time()


class Violation(Exception):
    def __init__(self, clause, what):
        super().__init__(what)
        self.clause, self.what = clause, what


def build(shape, seed):
    rngs = nnx.Rngs(seed)
    if shape == "leaf":
        m = MLP(3, 2, [4], "relu", rngs)
    elif shape == "double-q":
        m = ContinuousClippedDoubleQNet(MLP(3, 1, [4], "relu", rngs), MLP(3, 1, [4], "relu", rngs))
    elif shape == "layers":
        m = LayerNormMLP(3, 2, [4, 4], "relu", rngs)
    else:
        raise ValueError(shape)
    randomize(m, seed)
    return m


def randomize(m, seed):
    """every leaf gets its own random values (test set-up, through nnx.update)"""
    st = nnx.state(m)
    leaves, tree = jax.tree_util.tree_flatten(st)
    r = np.random.default_rng(1000 + seed)
    new = [jax.numpy.asarray(r.normal(size=np.shape(x)) * 2.0, dtype=x.dtype) if np.issubdtype(np.asarray(x).dtype, np.floating) else x for x in leaves]
    nnx.update(m, jax.tree_util.tree_unflatten(tree, new))


def snap(m):
    """[(path, numpy copy)] of every leaf of the module's state"""
    flat = jax.tree_util.tree_flatten_with_path(nnx.state(m))[0]
    return [(jax.tree_util.keystr(p), np.array(v, copy=True)) for p, v in flat]


def same_bits(a, b):
    return len(a) == len(b) and all(pa == pb and x.dtype == y.dtype and x.shape == y.shape and x.tobytes() == y.tobytes() for (pa, x), (pb, y) in zip(a, b))


def first_diff(a, b):
    for (pa, x), (pb, y) in zip(a, b):
        if pa != pb or x.shape != y.shape or x.tobytes() != y.tobytes():
            return pa
    return "structure"


def check_soft(shape, tau, seed):
    net, target = build(shape, seed), build(shape, seed + 50)
    n0, t0 = snap(net), snap(target)
    if same_bits(n0, t0):
        raise Violation("driver.setup", "online and target start identical")
    steps = []
    for rep in range(2):  # twice: the second application obeys the same recurrence
        tb = snap(target)
        soft_target_net_update(net, target, tau)
        n1, t1 = snap(net), snap(target)
        ctx = f"shape {shape}, tau {tau!r}, application {rep + 1}"
        if [(p, v.shape, v.dtype) for p, v in t1] != [(p, v.shape, v.dtype) for p, v in tb] or len(t1) != len(n0):
            raise Violation("soft.structure", ctx + ": target tree structure changed")
        if not same_bits(n0, n1):
            raise Violation("soft.online_network_unchanged", ctx + f": online leaf {first_diff(n0, n1)} was written")
        for (p, on), (_, old), (_, new) in zip(n0, tb, t1):
            want = tau * on.astype(np.float64) + (1 - tau) * old.astype(np.float64)
            if not np.allclose(new, want, rtol=2e-6, atol=2e-6):
                i = np.unravel_index(np.argmax(np.abs(new - want)), new.shape) if new.shape else ()
                raise Violation(f"soft.polyak_law_every_leaf[{p}]", ctx + f": leaf {p}{[int(j) for j in i]}: online {float(on[i])!r}, old target {float(old[i])!r}, new target {float(new[i])!r}, tau*online+(1-tau)*target = {float(want[i])!r}")
            if tau == 1 and new.tobytes() != on.tobytes():
                raise Violation(f"soft.tau1_is_hard_copy[{p}]", ctx + f": leaf {p} differs from the online leaf")
            if tau == 0 and new.tobytes() != old.tobytes():
                raise Violation(f"soft.tau0_is_noop[{p}]", ctx + f": leaf {p} changed")
        steps.append(t1)
    if 0 < tau < 1 and same_bits(t0, steps[0]):
        raise Violation("soft.polyak_law_every_leaf", f"shape {shape}, tau {tau!r}: the target did not move at all")


def check_hard(shape, seed):
    net, target = build(shape, seed), build(shape, seed + 50)
    n0 = snap(net)
    hard_target_net_update(net, target)
    n1, t1 = snap(net), snap(target)
    if not same_bits(n0, n1):
        raise Violation("hard.online_network_unchanged", f"shape {shape}: online leaf {first_diff(n0, n1)} was written")
    if len(t1) != len(n0):
        raise Violation("hard.structure", f"shape {shape}: leaf count differs")
    for (p, on), (_, new) in zip(n0, t1):
        if new.shape != on.shape or new.tobytes() != on.tobytes():
            raise Violation(f"hard.target_equals_online_every_leaf[{p}]", f"shape {shape}: target leaf {p} = {new.ravel()[:3].tolist()}..., online {on.ravel()[:3].tolist()}...")


def variables_of(m):
    return {id(v) for _, v in nnx.iter_graph(m) if isinstance(v, nnx.Variable)}


def check_clone(shape, seed):
    net, other = build(shape, seed), build(shape, seed + 77)
    clone = nnx.clone(net)
    n0 = snap(net)
    if clone is net:
        raise Violation("aliasing.clone_is_fresh", f"shape {shape}: nnx.clone returned the same object")
    if not same_bits(n0, snap(clone)):
        raise Violation("aliasing.clone_equal_values", f"shape {shape}: clone differs from the original at {first_diff(n0, snap(clone))}")
    shared = variables_of(net) & variables_of(clone)
    if shared:
        raise Violation("aliasing.disjoint_storage", f"shape {shape}: {len(shared)} Variable objects are shared between a module and its clone")
    soft_target_net_update(other, clone, 0.5)
    if not same_bits(n0, snap(net)):
        raise Violation("aliasing.disjoint_storage", f"shape {shape}: a soft update of the clone changed the original's leaf {first_diff(n0, snap(net))}")
    c1 = snap(clone)
    hard_target_net_update(other, net)
    if not same_bits(c1, snap(clone)):
        raise Violation("aliasing.disjoint_storage", f"shape {shape}: a hard update of the original changed the clone's leaf {first_diff(c1, snap(clone))}")


def main():
    p = load()
    m = model_of(p)
    ob = p.get("obligation", "")
    shapes = ["leaf", "double-q", "layers"]
    for s in list(shapes):
        if f"[{s}]" in ob:
            shapes.remove(s)
            shapes.insert(0, s)
    taus = [0.0, 1.0, 0.005, 0.5]
    mt = m.get("tau")
    if isinstance(mt, (int, float)) and not isinstance(mt, bool) and 0 <= mt <= 1 and float(mt) not in taus:
        taus.insert(0, float(mt))
    r = np.random.default_rng(6)
    taus += [float(x) for x in r.uniform(0.01, 0.99, size=2)]
    hard_first = ".hard_target_net_update" in ob
    n = 0
    try:
        for shape in shapes:
            for kind in (["hard", "soft"] if hard_first else ["soft", "hard"]):
                if kind == "hard":
                    for seed in (1, 2):
                        check_hard(shape, seed)
                        n += 1
                else:
                    for k, tau in enumerate(taus):
                        check_soft(shape, tau, 10 + k)
                        n += 1
            check_clone(shape, 3)
            n += 1
    except Violation as v:
        done(True, dict(violated=v.clause, what=v.what))
    done(False, None, note=f"{n} checks: shapes {shapes}, tau in {taus}: every leaf follows the Polyak / hard-copy law, online unchanged, clones share no storage", seconds=round(time.time() - T0, 1))


main()
