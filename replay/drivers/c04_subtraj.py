"""Replay for C04: drive the real SubtrajectoryReplayBuffer / SubtrajectoryReplayBufferPER
through ALL histories of normal / terminated / truncated steps up to a bounded
length and re-check natively what contracts/C04.py states.

* history tags: the transition stored as log row a carries (a, episode, time)
  in its observation, (a+1, episode, time+1) in its next_observation and a in
  action / reward, so every value a sampled batch returns identifies the log row
  it was read from (and a row assembled from two log rows is visible);
  never-written slots are poisoned with a sentinel right after allocation.
* search: breadth first over histories of length <= 2N+H+2 for capacities
  N in {2..6} (+ the counter-model's N if <= 10) and storage horizons H < N in
  {1,2,3} (+ the counter-model's H).  Two histories are merged only when the
  real object's bookkeeping (insert_idx, current_len, episode_timesteps, mask_,
  priorities) AND the episode structure of all live rows coincide - the code is
  parametric in the payload, so nothing is lost; the first violation is reported
  with the concrete history (string over n/t/x/b = normal / terminated /
  truncated / terminated+truncated) that produced it.
* in every reached state:
    add.wf.*   insert_idx == g mod N, current_len == min(g, N), episode_timesteps,
               mask in {0,1} and only on written slots, every live slot holds its
               log row (all six fields; successor row = next_observation, reward 0),
               every slot marked as a valid start is a live row whose H-window is
               one episode, in order, without truncated / successor row, ends
               before the write position, and is shorter than H only if it ends
               with a terminated step;
    PER        add.new_rows_get_max_priority, 0 < priority <= max_priority;
    sample.*   every start the real `_sample_idx` can return (enumerated with a
               stub generator: integers -> 0,1,2,...; uniform -> a fine grid in
               (0,1); the real `_sample_idx` is wrapped only to record what it
               returned) for every sampling horizon h <= H, intermediate and
               reduced view: start is a live marked row; up to and including the
               first terminated step the window is rows a, a+1, ... of one
               episode in order, never truncated / successor, never beyond the
               write position; all six fields are the stored rows'; everything
               after the first terminated step is still a written slot;
               reduced view: observation / action of the first step,
               next_observation of step h (when the window has h steps), per-step
               reward / terminated / truncated;
    no valid start -> sample_batch (real numpy generator) must raise.
* second phase (PER only): seeded random walks that interleave sampling,
  update_priority and reset_max_priority, same checks.
"""
import copy
import os
import sys
import time

import numpy as np

sys.path.insert(0, os.path.dirname(__file__))
from _common import done, load, model_of

import rl_blox.blox.replay_buffer as RBM
from rl_blox.blox.replay_buffer import SubtrajectoryReplayBuffer, SubtrajectoryReplayBufferPER

KEYS = ["observation", "action", "reward", "next_observation", "terminated", "truncated"]
NORMAL, TERM, TRUNC, SUCC = 0, 1, 2, 3
SENTINEL = -7
BUDGET_S = 45.0
T0 = time.time()

# ---------------------------------------------------------------- recording wrapper around the REAL _sample_idx
RECORDED = {}


def _wrap(cls):
    real = cls.__dict__["_sample_idx"]

    def _sample_idx(self, batch_size, rng):
        r = real(self, batch_size, rng)
        RECORDED["starts"] = np.array(r, copy=True)
        return r

    cls._sample_idx = _sample_idx


_wrap(SubtrajectoryReplayBuffer)
_wrap(SubtrajectoryReplayBufferPER)


class StubRng:
    """deterministic enumeration of everything a generator could select"""

    def integers(self, low, high=None, size=None, **kw):
        if high is None:
            low, high = 0, low
        if high <= low:
            raise ValueError("high <= low")
        n = int(np.prod(size)) if size is not None else 1
        return low + np.arange(n) % (high - low)

    def uniform(self, low=0.0, high=1.0, size=None):
        n = int(np.prod(size)) if size is not None else 1
        u = (np.arange(n) + 0.5) / n
        return low + u * (np.asarray(high) - low)


class Violation(Exception):
    def __init__(self, clause, what):
        super().__init__(what)
        self.clause, self.what = clause, what


# ---------------------------------------------------------------- ghost history
class Ghost:
    def __init__(self, N, H):
        self.N, self.H = N, H
        self.rows = []  # log rows: dict(ep, t, kind, data)
        self.ets = 0
        self.cur = 0
        self.hist = ""

    @property
    def g(self):
        return len(self.rows)

    def live_lo(self):
        return max(0, self.g - self.N)

    def copy(self):
        o = Ghost(self.N, self.H)
        o.rows, o.ets, o.cur, o.hist = list(self.rows), self.ets, self.cur, self.hist
        return o


def payload(a, ep, t, kind):
    return dict(observation=np.array([a, ep, t], dtype=float), action=np.array([a + 0.5]), reward=a + 0.25,
                next_observation=np.array([a + 1, ep, t + 1], dtype=float),
                terminated=int(kind in ("t", "b")), truncated=int(kind in ("x", "b")))


def step(buf, gh, kind):
    """append one transition to the real buffer and to the ghost log"""
    a = gh.g
    p = payload(a, gh.cur, gh.ets + 1, kind)
    k = {"n": NORMAL, "t": TERM, "x": TRUNC, "b": TRUNC}[kind]
    per = isinstance(buf, SubtrajectoryReplayBufferPER)
    maxp = buf.priority.max_priority if per else None
    first = buf.current_len == 0
    ret = buf.add_sample(**p)
    gh.hist += kind
    gh.rows.append(dict(ep=gh.cur, t=gh.ets + 1, kind=k, data=p))
    gh.ets += 1
    if kind != "n":
        s = dict(p)
        s["observation"] = p["next_observation"]
        s["reward"] = 0.0
        gh.rows.append(dict(ep=gh.cur, t=gh.ets + 1, kind=SUCC, data=s))
        gh.ets = 0
        gh.cur += 1
    if first:
        for key in buf.buffer:  # poison what has not been written yet
            buf.buffer[key][buf.current_len:] = SENTINEL
    if per:
        new_slots = [r % gh.N for r in range(a, gh.g)]
        for s_ in new_slots:
            if buf.priority.priority[s_] != maxp:
                raise Violation("add.new_rows_get_max_priority", f"row written to slot {s_} got priority {buf.priority.priority[s_]}, max_priority was {maxp}")
    return ret


def same(x, y):
    return np.array_equal(np.asarray(x, dtype=float), np.asarray(y, dtype=float))


def prefix(gh, a0, h):
    """the rows a window of length h starting at log row a0 has to consist of (up to
    and including the first terminated step); raises the violated clause"""
    if not (gh.live_lo() <= a0 < gh.g):
        raise Violation("sample.starts_are_valid_live_rows", f"start row {a0} is not a live row [{gh.live_lo()}, {gh.g})")
    r0 = gh.rows[a0]
    out = []
    for t in range(h):
        a = a0 + t
        if a >= gh.g:
            raise Violation("sample.prefix_never_crosses_write_position", f"window from row {a0} (episode {r0['ep']}, time {r0['t']}) reaches the write position {gh.g} after {t} steps without a terminated step")
        r = gh.rows[a]
        if r["kind"] == SUCC:
            raise Violation("sample.prefix_has_no_truncated_step", f"window from row {a0} contains the successor row {a} of episode {r['ep']} at offset {t}")
        if r["ep"] != r0["ep"] or r["t"] != r0["t"] + t:
            raise Violation("sample.prefix_is_one_episode_in_order", f"window from row {a0} (episode {r0['ep']}, time {r0['t']}) has row {a} = episode {r['ep']}, time {r['t']} at offset {t}")
        if r["kind"] == TRUNC:
            raise Violation("sample.prefix_has_no_truncated_step", f"window from row {a0} contains the truncated step row {a} (episode {r['ep']}, time {r['t']}) at offset {t}")
        out.append(a)
        if r["kind"] == TERM:
            break
    return out


def check_state(buf, gh, lemma):
    N, H, g = gh.N, gh.H, gh.g
    if not (buf.insert_idx == g % N and buf.current_len == min(g, N)):
        raise Violation("add.wf.scalars", f"insert_idx {buf.insert_idx}, current_len {buf.current_len} after {g} rows (capacity {N})")
    if buf.episode_timesteps != gh.ets:
        raise Violation("add.wf.episode_timesteps", f"episode_timesteps {buf.episode_timesteps}, the current episode has {gh.ets} steps")
    m = np.asarray(buf.mask_)
    if not np.all((m == 0) | (m == 1)):
        raise Violation("add.wf.mask01", f"mask_ {m.tolist()}")
    if np.any(m[buf.current_len:] != 0):
        raise Violation("add.wf.mask_only_on_written_slots", f"mask_ {m.tolist()} marks a slot >= current_len {buf.current_len}")
    for a in range(gh.live_lo(), g):
        for k in KEYS:
            if not same(buf.buffer[k][a % N], gh.rows[a]["data"][k]):
                raise Violation(f"add.wf.data[{k}]", f"slot {a % N} should hold {k} of row {a} = {np.asarray(gh.rows[a]['data'][k]).tolist()}, holds {np.asarray(buf.buffer[k][a % N]).tolist()}")
    if isinstance(buf, SubtrajectoryReplayBufferPER) and g > 0:
        pr = buf.priority.priority[: buf.current_len]
        if not (np.all(pr > 0) and np.all(pr <= buf.priority.max_priority)):
            raise Violation("add.pwf", f"priorities {pr.tolist()} vs max_priority {buf.priority.max_priority}")
    for s in np.nonzero(m)[0]:
        s = int(s)
        a = slot_row(gh, buf, s)
        try:
            rows = prefix(gh, a, H)
        except Violation as v:
            cl = {"sample.starts_are_valid_live_rows": "add.wf.mask_only_on_written_slots", "sample.prefix_never_crosses_write_position": "add.wf.range",
                  "sample.prefix_has_no_truncated_step": "add.wf.window", "sample.prefix_is_one_episode_in_order": "add.wf.window"}[v.clause]
            raise Violation(cl, f"slot {s} is marked as a valid start but: {v.what}") from None
        if len(rows) < H and gh.rows[rows[-1]]["kind"] != TERM:
            raise Violation("add.wf.range", f"slot {s} (row {a}): valid prefix shorter than the horizon does not end terminated")
    if lemma:
        ref = ref_mask(gh)
        if ref != m.tolist():
            raise Violation("add.lemma", f"mask_ {m.tolist()} differs from the documented marking rule {ref}")


def ref_mask(gh):
    """documented marking: a row is a valid start iff the row H steps later belongs to
    its episode, or the episode has ended with a terminated (not truncated) step"""
    N, H = gh.N, gh.H
    eplen, epend = {}, {}
    for r in gh.rows:
        if r["kind"] != SUCC:
            eplen[r["ep"]] = max(eplen.get(r["ep"], 0), r["t"])
            if r["kind"] in (TERM, TRUNC):
                epend[r["ep"]] = r["kind"]
    ref = [0] * N
    for a in range(gh.live_lo(), gh.g):
        r = gh.rows[a]
        if r["kind"] == SUCC:
            continue
        if r["t"] + H <= eplen[r["ep"]] or epend.get(r["ep"]) == TERM:
            ref[a % N] = 1
    return ref


def slot_row(gh, buf, s):
    """log row currently stored in slot s (contract: row(b))"""
    ins, g, N = gh.g % gh.N, gh.g, gh.N
    return g - ins + s if s < ins else g - ins - N + s


def row_of_tags(gh, vals):
    """which live log row do these six field values belong to (None: not a written row)"""
    a = vals["observation"][0]
    if a != int(a):
        return None
    a = int(a)
    # a successor row carries the tag of its predecessor + 1 as well: rows are identified by the observation tag
    if not (gh.live_lo() <= a < gh.g):
        return None
    for k in KEYS:
        if not same(vals[k], gh.rows[a]["data"][k]):
            return None
    return a


def check_sampling(buf, gh, rng, bs):
    N, H = gh.N, gh.H
    m = np.asarray(buf.mask_)
    if not m.any():
        for inter in (True, False):
            try:
                buf.sample_batch(2, 1, inter, np.random.default_rng(0))
            except Exception:
                continue
            raise Violation("sample.no_valid_start_rejected", "a batch was returned although no valid start exists")
        return
    for h in range(1, H + 1):
        for inter in (True, False):
            RECORDED.clear()
            try:
                batch = buf.sample_batch(bs, h, inter, rng)
            except Exception as e:
                raise Violation("sample.no_uncaught_exception", f"sample_batch(horizon={h}, include_intermediate={inter}) raised {type(e).__name__}: {e} although valid starts exist (mask_ {m.tolist()})") from None
            starts = RECORDED.get("starts")
            if starts is None or len(starts) != bs:
                raise Violation("sample.start_slots_identified", "no start indices recorded")
            fields = {k: np.asarray(getattr(batch, k)) for k in KEYS}
            tag = "sample" if inter else "reduced"
            for b in range(bs):
                s = int(starts[b])
                ctx = f"horizon {h}, start slot {s}: "
                if not (0 <= s < buf.current_len and m[s] == 1):
                    raise Violation("sample.starts_are_valid_live_rows", ctx + f"not a marked written slot (current_len {buf.current_len}, mask_ {m.tolist()})")
                a0 = slot_row(gh, buf, s)
                try:
                    rows = prefix(gh, a0, h)
                except Violation as v:
                    raise Violation(v.clause, ctx + v.what) from None
                if len(rows) < h and gh.rows[rows[-1]]["kind"] != TERM:
                    raise Violation("sample.window_shorter_than_horizon_ends_terminated", ctx + "prefix shorter than the horizon without terminated step")
                if inter:
                    for k in KEYS:
                        if fields[k].shape[:2] != (bs, h):
                            raise Violation(f"sample.shape[{k}]", f"{fields[k].shape}")
                    for t in range(h):
                        vals = {k: fields[k][b, t] for k in KEYS}
                        if t < len(rows):
                            for k in KEYS:
                                if not same(vals[k], gh.rows[rows[t]]["data"][k]):
                                    raise Violation(f"sample.prefix_rows_are_the_stored_rows[{k}]", ctx + f"step {t} should be {k} of row {rows[t]} = {np.asarray(gh.rows[rows[t]]['data'][k]).tolist()}, got {vals[k].tolist()}")
                        elif row_of_tags(gh, vals) is None:
                            raise Violation("sample.every_index_is_a_written_slot", ctx + f"step {t} (after the terminated step) is not a written row: observation {vals['observation'].tolist()}, reward {vals['reward'].tolist()}")
                else:
                    want_nd = {"observation": 2, "action": 2, "next_observation": 2, "reward": 2, "terminated": 2, "truncated": 2}
                    for k in KEYS:
                        if fields[k].ndim != want_nd[k] or fields[k].shape[0] != bs or (k in ("reward", "terminated", "truncated") and fields[k].shape[1] != h):
                            raise Violation(f"reduced.shape[{k}]", f"{fields[k].shape}")
                    for k in ("observation", "action"):
                        if not same(fields[k][b], gh.rows[a0]["data"][k]):
                            raise Violation(f"reduced.first_step[{k}]", ctx + f"expected {k} of row {a0} = {np.asarray(gh.rows[a0]['data'][k]).tolist()}, got {fields[k][b].tolist()}")
                    if len(rows) == h and not same(fields["next_observation"][b], gh.rows[a0 + h - 1]["data"]["next_observation"]):
                        raise Violation("reduced.last_step_successor[next_observation]", ctx + f"expected next_observation of row {a0 + h - 1} = {gh.rows[a0 + h - 1]['data']['next_observation'].tolist()}, got {fields['next_observation'][b].tolist()}")
                    for k in ("reward", "terminated", "truncated"):
                        for t in range(h):
                            if t < len(rows):
                                if not same(fields[k][b, t], gh.rows[rows[t]]["data"][k]):
                                    raise Violation(f"reduced.per_step[{k}]", ctx + f"step {t}: expected {k} of row {rows[t]} = {gh.rows[rows[t]]['data'][k]}, got {fields[k][b, t].tolist()}")
                            elif fields[k][b, t] == SENTINEL:
                                raise Violation("sample.every_index_is_a_written_slot", ctx + f"step {t} reads a slot that was never written")


def key_of(buf, gh):
    live = tuple((gh.rows[a]["kind"], gh.cur - gh.rows[a]["ep"]) for a in range(gh.live_lo(), gh.g))
    k = (buf.insert_idx, buf.current_len, buf.episode_timesteps, np.asarray(buf.mask_).tobytes(), min(gh.g, gh.N + 1), gh.ets, live)
    if isinstance(buf, SubtrajectoryReplayBufferPER):
        k += (buf.priority.priority[: buf.current_len].tobytes(), buf.priority.max_priority)
    return k


def witness(cls, gh, v, extra=None):
    w = dict(cls=cls.__name__, capacity=gh.N, storage_horizon=gh.H, history=gh.hist, legend="n normal, t terminated, x truncated, b terminated+truncated",
             violated=v.clause, what=v.what)
    if extra:
        w.update(extra)
    return w


def bfs(cls, N, H, lemma, stats, sample_first=False):
    rng = StubRng()
    per = cls is SubtrajectoryReplayBufferPER
    bs = 8 * N if per else N
    alphabet = "ntxb" if N <= 4 else "ntx"
    buf, gh = cls(N, H), Ghost(N, H)
    try:
        check_state(buf, gh, lemma)
        check_sampling(buf, gh, rng, bs)
    except Violation as v:
        return witness(cls, gh, v)
    frontier = [(buf, gh)]
    seen = {key_of(buf, gh)}
    for depth in range(2 * N + H + 2):
        nxt = []
        for buf, gh in frontier:
            for kind in alphabet:
                if time.time() - T0 > BUDGET_S:
                    stats["timeout"] = f"{cls.__name__} N={N} H={H} stopped at depth {depth}"
                    return None
                b2, g2 = copy.deepcopy(buf), gh.copy()
                try:
                    step(b2, g2, kind)
                    k = key_of(b2, g2)
                    if sample_first and k not in seen:  # a failed sampling obligation: report the sampling clause
                        check_sampling(b2, g2, rng, bs)
                    check_state(b2, g2, lemma)
                    if k in seen:
                        continue
                    seen.add(k)
                    if not sample_first:
                        check_sampling(b2, g2, rng, bs)
                except Violation as v:
                    return witness(cls, g2, v)
                except Exception as e:  # crash of a public operation in a reachable state
                    return witness(cls, g2, Violation("no_uncaught_exception", f"{type(e).__name__}: {e}"))
                nxt.append((b2, g2))
        frontier = nxt
        stats["states"] = stats.get("states", 0) + len(nxt)
    return None


def random_walks(cls, N, H, lemma, n_walks, seed, stats):
    """PER: interleave sampling / update_priority / reset_max_priority with additions"""
    r = np.random.default_rng(seed)
    rng = StubRng()
    for w in range(n_walks):
        if time.time() - T0 > BUDGET_S:
            stats["timeout"] = "random walks cut short"
            return None
        buf, gh = cls(N, H), Ghost(N, H)
        ops = []
        try:
            for _ in range(2 * N + H + 2):
                kind = "nnntxb"[r.integers(0, 6)]
                ops.append(kind)
                step(buf, gh, kind)
                check_state(buf, gh, lemma)
                if np.asarray(buf.mask_).any() and r.random() < 0.6:
                    bsz = int(r.integers(1, 4))
                    buf.sample_batch(bsz, 1, True, np.random.default_rng(int(r.integers(1 << 30))))
                    idx = np.array(buf.priority.sampled_indices, copy=True)
                    before = buf.priority.priority.copy()
                    newp = r.choice([0.5, 0.75, 1.0, 1.5, 2.0], size=bsz)
                    buf.update_priority(newp)
                    ops.append(f"sample+update{idx.tolist()}<-{newp.tolist()}")
                    for s in range(N):
                        allowed = [before[s]] if s not in idx else [p for p, i in zip(newp, idx) if i == s]
                        if buf.priority.priority[s] not in allowed and s < buf.current_len:
                            raise Violation("update.batch_entries_set", f"slot {s} holds {buf.priority.priority[s]} after updating {idx.tolist()} with {newp.tolist()} (before: {before[s]})")
                    if r.random() < 0.3:
                        buf.reset_max_priority()
                        ops.append("reset")
                        if buf.priority.max_priority != np.max(buf.priority.priority[: buf.current_len]):
                            raise Violation("reset.max_is_attained", f"max_priority {buf.priority.max_priority}, stored {buf.priority.priority[:buf.current_len].tolist()}")
                    check_state(buf, gh, lemma)
                check_sampling(buf, gh, rng, 8 * N)
        except Violation as v:
            return witness(cls, gh, v, dict(operations=ops))
        except Exception as e:
            return witness(cls, gh, Violation("no_uncaught_exception", f"{type(e).__name__}: {e}"), dict(operations=ops))
        stats["walks"] = stats.get("walks", 0) + 1
    return None


def main():
    p = load()
    m = model_of(p)
    ob = p.get("obligation", "")
    per = ".PER." in ob
    lemma = ".lemma." in ob
    classes = [SubtrajectoryReplayBufferPER] if per else [SubtrajectoryReplayBuffer]
    caps = [2, 3, 4, 5, 6]
    hs = [1, 2, 3]
    mN, mH = m.get("N"), m.get("H")
    first = []
    isint = lambda v: isinstance(v, int) and not isinstance(v, bool)  # noqa: E731
    if isint(mN) and 2 <= mN <= 10:
        if isint(mH) and 1 <= mH < mN and mH <= 5:
            first.append((mN, mH))
        elif mN not in caps:
            first += [(mN, h) for h in hs if h < mN]
    std = [(N, H) for N in caps for H in hs if H < N and (N, H) not in first]
    # cheap configurations first, then the counter-model's, then the larger ones
    jobs = [("bfs", N, H) for N, H in std if N <= 4]
    if per:
        jobs += [("walk", 3, 2), ("walk", 4, 2)]
    jobs += [("bfs", N, H) for N, H in first] + [("bfs", N, H) for N, H in std if N > 4]
    if per:
        jobs += [("walk", 5, 3), ("walk", 6, 3)] + [("walk", N, H) for N, H in first]
    stats = {}
    completed = []
    cls = classes[0]
    for what, N, H in jobs:
        if time.time() - T0 > BUDGET_S:
            stats.setdefault("timeout", f"jobs from {what} N={N}, H={H} on not run")
            break
        if what == "bfs":
            w = bfs(cls, N, H, lemma, stats, "sample_batch" in ob)
            if not w and "timeout" not in stats:
                completed.append((N, H))
        else:
            w = random_walks(cls, N, H, lemma, 25, 1000 * N + H, stats)
        if w:
            done(True, w)
    done(False, None, note="%s: every history of length <= 2N+H+2 for (N, H) in %s satisfies the invariant and all sampling clauses (all starts, all horizons <= H, both views)" % (
        "/".join(c.__name__ for c in classes), completed), stats=stats, seconds=round(time.time() - T0, 1))


main()
