"""Replay for C09: the property's own observation.

Given a failed effect obligation `C09.<module>.<function>.<clause>` the driver
picks the cheap training routines from which the flagged function is reachable
(`[reached-from=...]` in the obligation detail, else the module name), runs each
of them TWICE with equal seeds, identically initialised networks and an
identically seeded environment (incl. its action-space sampler) on a tiny
configuration, and compares learned parameters, stored experience, returned
counters and logged statistics (wall-clock fields aside) bit for bit.

The two runs are separate interpreter processes (different PYTHONHASHSEED, as
two real runs would have), so hash-order dependence is observable as well.

  stdin : JSON payload (payload["obligation"], payload["verifier_output"]["goal"])
  stdout: {"reproduced": true, "witness": ...} if two runs differ, else {"reproduced": false}
"""
import hashlib
import json
import os
import re
import subprocess
import sys

SUPPORTED = ["train_dqn", "train_q_learning", "train_ddpg", "train_sac"]
MODULE_HINT = {
    "algorithm_dqn": ["train_dqn"], "algorithm_q_learning": ["train_q_learning"], "algorithm_ddpg": ["train_ddpg"],
    "algorithm_sac": ["train_sac"], "blox_replay_buffer": ["train_dqn", "train_ddpg"], "blox_value_policy": ["train_q_learning"],
    "blox_losses": ["train_dqn", "train_ddpg", "train_sac"], "blox_q_policy": ["train_dqn"], "blox_schedules": ["train_dqn"],
    "blox_target_net": ["train_ddpg", "train_sac"], "blox_double_qnet": ["train_sac"],
    "blox_function_approximator_mlp": ["train_dqn", "train_ddpg"], "blox_function_approximator_policy_head": ["train_ddpg", "train_sac"],
    "blox_function_approximator_gaussian_mlp": ["train_sac"], "logging_logger": ["train_dqn"],
}
SEED = 7


# ---------------------------------------------------------------------------
# child: one run -> fingerprint
# ---------------------------------------------------------------------------
def _fingerprint(obj, path, out, depth=0):
    import jax
    import numpy as np
    from flax import nnx

    if depth > 6:
        return
    if obj is None or isinstance(obj, (bool, int, float, str)):
        out[path] = repr(obj)
        return
    if isinstance(obj, (np.ndarray, np.generic)) or isinstance(obj, jax.Array):
        try:
            if isinstance(obj, jax.Array) and jax.dtypes.issubdtype(obj.dtype, jax.dtypes.prng_key):
                obj = jax.random.key_data(obj)
        except Exception:
            pass
        a = np.asarray(obj)
        if a.dtype == object:
            for i, x in enumerate(a.ravel().tolist()):
                _fingerprint(x, f"{path}[{i}]", out, depth + 1)
            return
        out[path] = f"{a.dtype}{list(a.shape)}:" + hashlib.sha256(np.ascontiguousarray(a).tobytes()).hexdigest()[:24]
        return
    if isinstance(obj, (nnx.Module, nnx.Optimizer)):
        try:
            leaves = jax.tree_util.tree_leaves_with_path(nnx.state(obj))
            for p, leaf in leaves:
                _fingerprint(leaf, path + jax.tree_util.keystr(p), out, depth + 1)
            return
        except Exception as e:  # fall through to __dict__
            out[path + ".<state-error>"] = type(e).__name__
    if isinstance(obj, dict):
        for k in obj:  # dict order is part of the observation
            _fingerprint(obj[k], f"{path}[{k!r}]", out, depth + 1)
        out[path + ".<keys>"] = repr(list(obj))
        return
    if isinstance(obj, tuple) and hasattr(obj, "_fields"):
        for k in obj._fields:
            _fingerprint(getattr(obj, k), f"{path}.{k}", out, depth + 1)
        return
    if isinstance(obj, (list, tuple)):
        if len(obj) > 64:
            try:
                a = np.asarray(obj)
                if a.dtype != object:
                    return _fingerprint(a, path, out, depth + 1)
            except Exception:
                pass
        for i, x in enumerate(obj):
            _fingerprint(x, f"{path}[{i}]", out, depth + 1)
        return
    if isinstance(obj, (set, frozenset)):
        out[path] = repr(list(obj))  # iteration order on purpose
        return
    if type(obj).__name__ == "Generator" and hasattr(obj, "bit_generator"):
        out[path] = hashlib.sha256(json.dumps(obj.bit_generator.state, sort_keys=True, default=str).encode()).hexdigest()[:24]
        return
    d = getattr(obj, "__dict__", None)
    if d is not None and type(obj).__module__.startswith("rl_blox"):
        n = d.get("current_len")
        for k, v in d.items():
            if k == "buffer" and isinstance(v, dict) and isinstance(n, int):
                # stored experience = the filled rows (the tail of an np.empty allocation is uninitialised memory)
                v = {kk: (vv[:n] if hasattr(vv, "shape") and vv.shape and vv.shape[0] >= n else vv) for kk, vv in v.items()}
            if k in ("start_time", "stats_loc", "epoch_loc"):  # wall-clock fields aside
                continue
            _fingerprint(v, f"{path}.{k}", out, depth + 1)
        return
    out[path] = f"<{type(obj).__name__}>"


def _env(name, seed):
    import gymnasium as gym

    env = gym.make(name)
    env.reset(seed=seed)
    env.action_space.seed(seed)
    env.observation_space.seed(seed)
    return env


def run_once(routine):
    import optax
    from flax import nnx

    from rl_blox.logging.logger import MemoryLogger

    logger = MemoryLogger()
    logger.verbose = 0
    if routine == "train_dqn":
        from rl_blox.algorithm.dqn import train_dqn
        from rl_blox.blox.function_approximator.mlp import MLP
        from rl_blox.blox.replay_buffer import ReplayBuffer

        env = _env("CartPole-v1", SEED)
        rb = ReplayBuffer(200, discrete_actions=True)
        q_net = MLP(env.observation_space.shape[0], int(env.action_space.n), [16], "relu", nnx.Rngs(SEED))
        opt = nnx.Optimizer(q_net, optax.adam(1e-3), wrt=nnx.Param)
        res = train_dqn(q_net, env, rb, opt, batch_size=16, total_timesteps=300, seed=SEED, logger=logger, progress_bar=False)
    elif routine == "train_q_learning":
        from rl_blox.algorithm.q_learning import train_q_learning
        from rl_blox.blox.value_policy import make_q_table

        import gymnasium as gym

        env = gym.wrappers.RecordEpisodeStatistics(_env("CliffWalking-v1", SEED))
        q_table = make_q_table(env)
        res = train_q_learning(env, q_table, total_timesteps=400, seed=SEED, logger=logger, progress_bar=False)
    elif routine == "train_ddpg":
        from rl_blox.algorithm.ddpg import create_ddpg_state, train_ddpg

        env = _env("Pendulum-v1", SEED)
        st = create_ddpg_state(env, policy_hidden_nodes=[16, 16], q_hidden_nodes=[16, 16], seed=SEED)
        res = train_ddpg(env, st.policy, st.policy_optimizer, st.q, st.q_optimizer, seed=SEED, total_timesteps=260,
                         buffer_size=300, batch_size=16, learning_starts=100, logger=logger, progress_bar=False)
    elif routine == "train_sac":
        from rl_blox.algorithm.sac import create_sac_state, train_sac

        env = _env("Pendulum-v1", SEED)
        st = create_sac_state(env, policy_hidden_nodes=[16, 16], q_hidden_nodes=[16, 16], seed=SEED)
        res = train_sac(env, st.policy, st.policy_optimizer, st.q, st.q_optimizer, seed=SEED, total_timesteps=260,
                        buffer_size=300, batch_size=16, learning_starts=100, logger=logger, progress_bar=False)
    else:
        raise SystemExit(f"unsupported routine {routine}")
    out = {}
    _fingerprint(res, "result", out)
    _fingerprint(logger.stats, "logger.stats", out)
    _fingerprint(logger.n_steps, "logger.n_steps", out)
    _fingerprint(logger.n_episodes, "logger.n_episodes", out)
    return out


# ---------------------------------------------------------------------------
# parent
# ---------------------------------------------------------------------------
def _spawn(routine, hashseed):
    env = dict(os.environ)
    env["PYTHONHASHSEED"] = str(hashseed)
    env.setdefault("JAX_PLATFORMS", "cpu")
    return subprocess.Popen([sys.executable, os.path.abspath(__file__), "--run", routine], stdout=subprocess.PIPE,
                            stderr=subprocess.PIPE, text=True, env=env)


def _result(p):
    try:
        so, se = p.communicate(timeout=420)
    except subprocess.TimeoutExpired:
        p.kill()
        return None, "timeout"
    for line in reversed(so.strip().splitlines()):
        if line.startswith("{"):
            try:
                return json.loads(line), None
            except json.JSONDecodeError:
                pass
    return None, (se or so)[-800:]


def pick_routines(payload):
    ob = payload.get("obligation", "")
    goal = str((payload.get("verifier_output") or {}).get("goal") or "")
    m = re.search(r"\[reached-from=([^\]]*)\]", goal)
    cands = [x for x in (m.group(1).split(",") if m else []) if x]
    parts = ob.split(".")
    task = parts[1] if len(parts) > 1 else ""
    hinted = MODULE_HINT.get(task, [])
    if task.startswith("algorithm_") and hinted:
        chosen = list(hinted)
    else:
        chosen = [r for r in SUPPORTED if r in cands] or list(hinted)
    return chosen[:3], cands


def main():
    if len(sys.argv) >= 3 and sys.argv[1] == "--run":
        print(json.dumps(run_once(sys.argv[2])))
        return
    payload = json.loads(sys.stdin.read() or "{}")
    m = re.search(r"(rl_blox/[\w/]+\.py):\d+: class attribute `(\w+)\.(\w+) =", str((payload.get("verifier_output") or {}).get("goal") or ""))
    if m and "no_shared_mutable_state" in payload.get("obligation", ""):
        # native witness for the shared-state clause: the class-level object IS what two fresh instances' histories go
        # into (identity), shown on the real class without constructing anything
        import importlib

        mod = importlib.import_module(m.group(1)[:-3].replace("/", "."))
        cls, attr = getattr(mod, m.group(2)), m.group(3)
        obj = cls.__dict__.get(attr)
        shared = obj is not None and isinstance(obj, (list, dict, set, bytearray)) or type(obj).__name__ in ("ndarray", "deque", "OrderedDict", "defaultdict")
        import ast
        import inspect
        import textwrap

        try:
            init_ast = ast.parse(textwrap.dedent(inspect.getsource(cls.__dict__["__init__"]))).body[0]
            rebinds = any(isinstance(st, (ast.Assign, ast.AnnAssign)) and any(isinstance(t, ast.Attribute) and t.attr == attr for t in (st.targets if isinstance(st, ast.Assign) else [st.target]))
                          for st in init_ast.body)
        except Exception:  # noqa: BLE001  (no own __init__: nothing rebinds)
            rebinds = False
        a, b = object.__new__(cls), object.__new__(cls)
        shared = shared and getattr(a, attr) is getattr(b, attr)
        if shared and not rebinds:
            print(json.dumps(dict(reproduced=True, witness=dict(cls=f"{mod.__name__}.{cls.__name__}", attribute=attr, class_level_object=repr(type(obj).__name__),
                                                                  what="one mutable object in the class __dict__: every instance that does not rebind it appends to the same object; "
                                                                       "a second run in the same process sees the first run's entries"))))
            return
        print(json.dumps(dict(reproduced=False, note=f"{m.group(2)}.{attr} is not a mutable class-level object on this tree")))
        return
    routines, cands = pick_routines(payload)
    if not routines:
        print(json.dumps(dict(reproduced=False, note="flagged function is not reachable from a routine this driver can run cheaply "
                                                     f"(supported: {SUPPORTED}; reached from: {cands})")))
        return
    procs = [(r, _spawn(r, 1), _spawn(r, 2)) for r in routines]
    notes = []
    for r, p1, p2 in procs:
        a, e1 = _result(p1)
        b, e2 = _result(p2)
        if a is None or b is None:
            notes.append(f"{r}: run failed: {(e1 or e2 or '')[-300:]}")
            continue
        diff = [k for k in sorted(set(a) | set(b)) if a.get(k) != b.get(k)]
        if diff:
            wit = dict(routine=r, seed=SEED, compared=len(a), differing=len(diff),
                       first=[dict(where=k, run1=a.get(k), run2=b.get(k)) for k in diff[:4]])
            print(json.dumps(dict(reproduced=True, witness=wit)))
            return
        notes.append(f"{r}: two runs with seed {SEED} agree on {len(a)} compared leaves")
    print(json.dumps(dict(reproduced=False, note="; ".join(notes))))


if __name__ == "__main__":
    main()
