"""Replay for C18: run the real numeric building blocks of rl_blox on the
verifier's counter-model (when it carries concrete inputs) and on a seeded
random neighbourhood, and evaluate the property's clauses natively (float64).

Clauses are the ones of contracts/C18.py, written independently with numpy.
"""
import os
import sys

sys.path.insert(0, os.path.dirname(__file__))
from _common import done, load, num

import jax

jax.config.update("jax_enable_x64", True)
import jax.numpy as jnp
import numpy as np

from rl_blox.blox import losses, preprocessing, schedules
from rl_blox.blox.function_approximator import norm

RTOL = 1e-7


def close(a, b, scale=1.0):
    a, b = np.asarray(a, float), np.asarray(b, float)
    if not (np.all(np.isfinite(a)) and np.all(np.isfinite(b))):
        return False
    return bool(np.all(np.abs(a - b) <= RTOL * max(1.0, scale, float(np.max(np.abs(b))) if b.size else 1.0)))


def tensor_of(model, name):
    t = model.get(name)
    if not isinstance(t, dict) or "shape" not in t:
        return None
    shape = [int(d) for d in t["shape"]]
    if any(d > 64 for d in shape) or not shape:
        return None
    a = np.zeros(shape)
    for k, v in t["entries"].items():
        idx = tuple(int(i) for i in k.split(","))
        if all(i < d for i, d in zip(idx, shape)):
            a[idx] = float(num(v, 0))
    return a


def scalar_of(model, name, default=None):
    v = model.get(name)
    if v is None or isinstance(v, dict):
        return default
    r = num(v, None)
    return default if r is None else r


# ------------------------------------------------------------------ clauses
def chk_huber(a, delta):
    r = np.asarray(losses.huber_loss(jnp.asarray(a), delta))
    a = np.asarray(a, float)
    exp = np.where(a <= delta, 0.5 * a * a, delta * (a - 0.5 * delta))
    return [] if close(r, exp) else [f"huber_loss({a.tolist()}, {delta}) = {r.tolist()} != {exp.tolist()}"]


def chk_mse(p, t, m):
    p, t, m = (np.asarray(v, float) for v in (p, t, m))
    bad = []
    try:
        got = float(losses.masked_mse_loss(jnp.asarray(p), jnp.asarray(t), jnp.asarray(m)))
    except Exception as e:  # a loud rejection is acceptable for rank-1 input
        return [] if p.ndim == 1 else [f"rank-2 input rejected: {type(e).__name__}"]
    w = m if p.ndim == 1 else m[:, None]
    exp = float(np.sum((p - t) ** 2 * w) / p.size)
    if not close(got, exp):
        bad.append(f"masked_mse_loss(p={p.tolist()}, t={t.tolist()}, mask={m.tolist()}) = {got}, property demands (1/size) sum (p-t)^2 m = {exp}")
    # masked rows must not contribute: perturb them
    p2, t2 = p.copy(), t.copy()
    p2[m == 0] += 10.0
    t2[m == 0] -= 3.0
    got2 = float(losses.masked_mse_loss(jnp.asarray(p2), jnp.asarray(t2), jnp.asarray(m)))
    if not close(got2, got):
        bad.append(f"changing only masked rows changes the loss: {got} -> {got2} (mask={m.tolist()})")
    return bad


def chk_avg_l1(x, eps):
    x = np.asarray(x, float)
    out = np.asarray(norm.avg_l1_norm(jnp.asarray(x), eps))
    bad = []
    if out.shape != x.shape:
        return [f"shape {out.shape} != {x.shape}"]
    mx = np.atleast_1d(np.mean(np.abs(x), axis=-1))
    mo = np.atleast_1d(np.mean(np.abs(out), axis=-1))
    sel = mx >= eps
    if not close(mo[sel], np.ones(int(np.sum(sel)))):
        bad.append(f"mean|out| = {mo.tolist()} != 1 for x={x.tolist()}, eps={eps}")
    if not np.all(np.abs(out) <= np.abs(x) / eps * (1 + 1e-9) + 1e-300):
        bad.append(f"|out| > |x|/eps for x={x.tolist()}, eps={eps}")
    return bad


def chk_schedule(total, start, end, fraction):
    s = np.asarray(schedules.linear_schedule(int(total), start, end, fraction), float)
    bad = []
    if s.shape != (int(total),):
        return [f"length {s.shape} != {total}"]
    k = int(np.floor(total * fraction))
    if not close(s[k:], np.full(max(0, total - k), end)):
        bad.append("not at the end value after the transition")
    if k >= 1 and not close(s[0], start):
        bad.append(f"s[0] = {s[0]} != start = {start} although the transition spans {k} >= 1 steps")
    d = np.diff(s)
    tol = RTOL * max(1.0, abs(start), abs(end))
    if (start >= end and np.any(d > tol)) or (start < end and np.any(d < -tol)):
        bad.append("not monotone")
    lo, hi = min(start, end), max(start, end)
    if np.any(s < lo - tol) or np.any(s > hi + tol):
        bad.append("leaves [start, end]")
    return [f"linear_schedule({total}, {start}, {end}, {fraction}): {b}" for b in bad]


def chk_two_hot(bins, x):
    bins, x = np.asarray(bins, float), np.asarray(x, float)
    th = np.asarray(preprocessing.two_hot_encoding(jnp.asarray(bins), jnp.asarray(x)), float)
    dec = np.asarray(preprocessing.two_hot_decoding(jnp.asarray(bins), jnp.asarray(th)), float)
    bad = []
    for r in range(len(x)):
        row = th[r]
        tag = f"bins={bins.tolist() if len(bins) <= 6 else '[%g..%g]x%d' % (bins[0], bins[-1], len(bins))}, x={x[r]!r}"
        if not np.all(np.isfinite(row)):
            bad.append(f"non-finite row {row.tolist() if len(row) <= 6 else ''} for {tag}")
            continue
        if np.any(row < -1e-12):
            bad.append(f"negative entry for {tag}")
        if not close(np.sum(row), 1.0):
            bad.append(f"row sums to {np.sum(row)} for {tag}")
        nz = np.nonzero(np.abs(row) > 1e-12)[0]
        if len(nz) > 2 or (len(nz) == 2 and nz[1] - nz[0] != 1):
            bad.append(f"non-zero positions {nz.tolist()} for {tag}")
        if not close(dec[r], x[r], scale=float(np.max(np.abs(bins)))):
            bad.append(f"decoding returns {dec[r]} for {tag}")
        hit = np.nonzero(bins == x[r])[0]
        if len(hit) == 1 and not (len(nz) == 1 and nz[0] == hit[0] and close(row[hit[0]], 1.0)):
            bad.append(f"exact edge {hit[0]} not one-hot: non-zero {nz.tolist()} for {tag}")
    return bad


def chk_ce(bins, logits, target):
    bins, logits, target = (np.asarray(v, float) for v in (bins, logits, target))
    ce = np.asarray(preprocessing.two_hot_cross_entropy_loss(jnp.asarray(bins), jnp.asarray(logits), jnp.asarray(target)), float)
    enc = np.asarray(preprocessing.two_hot_encoding(jnp.asarray(bins), jnp.asarray(target)), float)
    mx = logits.max(axis=-1, keepdims=True)
    logp = logits - (mx + np.log(np.sum(np.exp(logits - mx), axis=-1, keepdims=True)))
    exp = -np.sum(enc * logp, axis=-1)
    return [] if close(ce, exp) else [f"cross entropy {ce.tolist()} != -sum(target*log_softmax) {exp.tolist()}"]


def chk_bins(lo, hi, n):
    b = np.asarray(preprocessing.make_two_hot_bins(lo, hi, int(n)), float)
    bad = []
    if b.shape != (int(n),):
        bad.append(f"length {b.shape}")
    elif not np.all(np.diff(b) > 0):
        bad.append(f"make_two_hot_bins({lo}, {hi}, {n}) not strictly increasing")
    return bad


# ------------------------------------------------------------------- driver
def main():
    p = load()
    task = p.get("task", "")
    m = (p.get("verifier_output") or {}).get("model") or {}
    rng = np.random.default_rng(18)
    found = []

    def run(what, f, *a):
        bad = f(*a)
        if bad:
            found.append(dict(source=what, violated=bad[:3]))
            if what == "counter-model":
                done(True, found)  # the verifier's own counter-model fails natively: no search needed
        return bool(bad)

    if task.startswith("huber"):
        a = tensor_of(m, "abs_errors")
        if a is None and scalar_of(m, "abs_error") is not None:
            a = np.array([scalar_of(m, "abs_error")])
        d = scalar_of(m, "delta")
        if a is not None and d is not None and d > 0:
            run("counter-model", chk_huber, np.abs(a), d)
        for _ in range(200):
            d = float(rng.uniform(0.01, 5))
            if run("neighbourhood", chk_huber, np.concatenate([rng.uniform(0, 10, 6), [0.0, d, d * (1 + 1e-9)]]), d):
                break
    elif task.startswith("masked_mse"):
        rank1 = "rank1" in task
        pm, tm, mm = tensor_of(m, "predictions"), tensor_of(m, "targets"), tensor_of(m, "mask")
        if pm is not None and tm is not None and mm is not None and pm.shape == tm.shape and mm.shape == pm.shape[:1]:
            run("counter-model", chk_mse, pm, tm, mm)
        for _ in range(50):
            N, D = int(rng.integers(2, 6)), int(rng.integers(1, 4))
            shape = (N,) if rank1 else (N, D)
            mask = (rng.uniform(size=N) < 0.5).astype(float)
            mask[0], mask[-1] = 1.0, 0.0
            if run("neighbourhood", chk_mse, rng.normal(size=shape), rng.normal(size=shape), mask):
                break
    elif task.startswith("avg_l1"):
        xm, e = tensor_of(m, "x"), scalar_of(m, "eps")
        if xm is not None and e is not None and e > 0:
            run("counter-model", chk_avg_l1, xm, e)
        for _ in range(100):
            shape = (int(rng.integers(1, 7)),) if "batch" not in task else (int(rng.integers(1, 4)), int(rng.integers(1, 7)))
            scale = float(10 ** rng.uniform(-12, 3))
            if run("neighbourhood", chk_avg_l1, rng.normal(size=shape) * scale, float(10 ** rng.uniform(-9, -1))):
                break
        run("neighbourhood", chk_avg_l1, np.zeros(4), 1e-8)
    elif task.startswith("linear_schedule"):
        tot, st, en, fr = (scalar_of(m, k) for k in ("total_timesteps", "start", "end", "fraction"))
        if None not in (tot, st, en, fr) and 1 <= tot <= 10 ** 6 and 0 < fr <= 1:
            run("counter-model", chk_schedule, int(tot), float(st), float(en), float(fr))
        for tot in list(range(1, 25)) + [100, 1000]:
            for fr in (0.01, 0.1, 0.25, 1 / 3, 0.5, 0.9, 1.0):
                for st, en in ((1.0, 0.1), (0.1, 1.0), (0.5, 0.5), (-2.0, 3.0)):
                    if run("neighbourhood", chk_schedule, tot, st, en, fr):
                        break
    elif task.startswith("two_hot_encoding"):
        bm, xm = tensor_of(m, "bins"), tensor_of(m, "x")
        if bm is not None and xm is not None and len(bm) >= 2 and np.all(np.diff(bm) > 0):
            xs = np.clip(xm, bm[0], bm[-1])
            run("counter-model", chk_two_hot, bm, xs)
        wide = "any-range" in task
        if wide:
            run("neighbourhood", chk_two_hot, np.array([0.0, 3e8]), np.array([2e8]))
            b = np.asarray(preprocessing.make_two_hot_bins(-20.0, 20.0, 101), float)
            run("neighbourhood", chk_two_hot, b, np.array([1.0, -2.5e8, 3e8]))
        for _ in range(60):
            n = int(rng.integers(2, 9))
            b = np.sort(rng.uniform(-50, 50, size=n)) if rng.uniform() < 0.5 else np.asarray(preprocessing.make_two_hot_bins(-float(rng.uniform(0.5, 10)), float(rng.uniform(0.5, 10)), n), float)
            if not np.all(np.diff(b) > 1e-6):
                continue
            xs = np.concatenate([rng.uniform(b[0], b[-1], size=5), b, [(b[0] + b[1]) / 2]])
            if run("neighbourhood", chk_two_hot, b, xs):
                break
    elif task.startswith("two_hot_cross_entropy"):
        for _ in range(40):
            n, B = int(rng.integers(2, 8)), int(rng.integers(1, 5))
            b = np.sort(rng.uniform(-20, 20, size=n))
            if not np.all(np.diff(b) > 1e-6):
                continue
            if run("neighbourhood", chk_ce, b, rng.normal(size=(B, n)) * 3, rng.uniform(b[0], b[-1], size=B)):
                break
    elif task.startswith("make_two_hot_bins"):
        lo, hi, n = scalar_of(m, "lower_exponent"), scalar_of(m, "upper_exponent"), scalar_of(m, "n_bin_edges", scalar_of(m, "dim:n_bin_edges"))
        if None not in (lo, hi, n) and lo < hi and 2 <= n <= 10 ** 4 and max(abs(lo), abs(hi)) < 700:
            run("counter-model", chk_bins, float(lo), float(hi), int(n))
        for _ in range(100):
            lo = float(rng.uniform(-12, 11))
            if run("neighbourhood", chk_bins, lo, lo + float(rng.uniform(0.01, 12)), int(rng.integers(2, 200))):
                break
        run("neighbourhood", chk_bins, -10.0, 10.0, 101)
    else:
        done(False, None, note=f"no native clause set for task {task}")
    if found:
        done(True, found[:3])
    done(False, None, note="real functions satisfied every clause on the counter-model and on the seeded neighbourhood")


main()
