"""Replay for C20: drive the real MemoryLogger / StandardLogger / LoggerList /
OrbaxCheckpointer (temporary checkpoint directory) through short call
sequences derived from the verifier's counter-model plus a bounded
enumeration, and evaluate the property's clauses natively against a
list-based reference model:

  * record_stat / get_stat / start_new_episode / stop_episode: every recorded
    value is retrieved in recording order with the episode / step it was
    recorded under (explicit, else the logger's counters), counters advance
    exactly with the start / stop calls, other keys untouched;
  * LoggerList: every member holds identical records (value, episode, step)
    and identical counters, recording stubs receive identical arguments;
  * OrbaxCheckpointer.record_epoch: exactly one checkpoint iff
    floor(step/f) > floor(last/f), none otherwise (intervals 1..5, step
    sequences with repeats, jumps over several intervals, exact multiples);
    StandardLogger.record_epoch: a checkpoint on every f-th recorded epoch;
    every listed path exists on disk and restores to the saved state.
"""
import contextlib
import io
import itertools
import os
import shutil
import sys
import tempfile
import time

sys.path.insert(0, os.path.dirname(__file__))
from _common import done, load, model_of

import numpy as np
import orbax.checkpoint as ocp
from flax import nnx

from rl_blox.logging.checkpointer import OrbaxCheckpointer
from rl_blox.logging.logger import LoggerBase, LoggerList, MemoryLogger, StandardLogger

KEY, OTHER, EPLEN = "return", "loss", "episode_length"
TMP = tempfile.mkdtemp(prefix="c20-replay-")


def small(v, lo, hi, default):
    if v is None or isinstance(v, bool):
        return default
    try:
        return int(max(lo, min(hi, v)))
    except (TypeError, ValueError):
        return default


def as_int(v, default):
    return int(v) if isinstance(v, (int, float)) and not isinstance(v, bool) else default


# ---------------------------------------------------------------- reference model
class Ref:
    """the list-based reference model of the property statement"""

    def __init__(self, n_episodes=0, n_steps=0):
        self.ep, self.st = n_episodes, n_steps
        self.h = {}  # key -> list of (value, episode, step, t | None)

    def start(self):
        self.ep += 1

    def stop(self, n):
        self.st += n
        self.record(EPLEN, n)

    def record(self, key, value, episode=None, step=None, t=None):
        self.h.setdefault(key, []).append((value, self.ep if episode is None else episode, self.st if step is None else step, t))


def compare(logger, ref, where):
    bad = []
    if logger.n_episodes != ref.ep or logger._n_episodes != ref.ep:
        bad.append(f"{where}: episode counter {logger.n_episodes} instead of {ref.ep}")
    if logger.n_steps != ref.st:
        bad.append(f"{where}: step counter {logger.n_steps} instead of {ref.st}")
    if set(logger.stats) != set(ref.h) or set(logger.stats_loc) != set(ref.h):
        bad.append(f"{where}: keys {sorted(logger.stats)} / {sorted(logger.stats_loc)} instead of {sorted(ref.h)}")
        return bad
    for k, recs in ref.h.items():
        if len(logger.stats[k]) != len(logger.stats_loc[k]):
            bad.append(f"{where}: |stats[{k}]| != |stats_loc[{k}]|")
        for xi, xk in enumerate(("episode", "step", "time")):
            x, y = logger.get_stat(k, x_key=xk)
            if len(x) != len(recs) or len(y) != len(recs):
                bad.append(f"{where}: get_stat({k!r}, {xk!r}) returns {len(y)} measurements instead of {len(recs)}")
                break
            if list(y) != [r[0] for r in recs]:
                bad.append(f"{where}: values of {k!r} {list(y)} instead of {[r[0] for r in recs]}")
            want = [r[1 + xi] for r in recs]
            for i, (g, w) in enumerate(zip(list(x), want)):
                if w is not None and g != w:
                    bad.append(f"{where}: {xk} of record {i} of {k!r} is {g} instead of {w}")
        xd, _ = logger.get_stat(k)
        if list(xd) != [r[1] for r in recs]:
            bad.append(f"{where}: default x_key is not 'episode'")
    return bad


def run_ops(cls, ops, state=None):
    """apply a call sequence to the real logger and to the reference"""
    logger = cls() if cls is MemoryLogger else cls(checkpoint_dir=os.path.join(TMP, "std"), verbose=0)
    ref = Ref()
    if state:
        logger._n_episodes, logger.n_steps, logger.start_time = state["ep"], state["st"], state.get("start", 0.0)
        ref.ep, ref.st = state["ep"], state["st"]
        for k, recs in state.get("hist", {}).items():
            logger.stats[k] = [r[0] for r in recs]
            logger.stats_loc[k] = [(r[1], r[2], r[3]) for r in recs]
            ref.h[k] = list(recs)
    for i, op in enumerate(ops):
        if op[0] == "start":
            logger.start_new_episode()
            ref.start()
        elif op[0] == "stop":
            logger.stop_episode(op[1])
            ref.stop(op[1])
        elif op[0] == "record":
            _, key, value, kw = op
            t0 = time.time() - logger.start_time
            logger.record_stat(key, value, **kw)
            t1 = time.time() - logger.start_time
            ref.record(key, value, kw.get("episode"), kw.get("step"), kw.get("t"))
            if kw.get("t") is None:
                got = logger.stats_loc[key][-1][2]
                if not (t0 - 1e-6 <= got <= t1 + 1e-6):
                    return [f"op {i}: implicit time stamp {got} outside [{t0}, {t1}]"]
        bad = compare(logger, ref, f"after op {i} {op}")
        if bad:
            return bad
    return []


def logger_suite(cls, m):
    # (a) the counter-model's state and call
    g = m.get
    n_hist = small(g(f"n[{KEY}]"), 0, 3, 2)
    state = dict(ep=as_int(g("n_episodes"), 3), st=as_int(g("n_steps"), 40), start=float(g("start_time") or 0.0),
                 hist={KEY: [(10.0 + j, j, 5 * j, 0.5 * j) for j in range(n_hist)], OTHER: [(-1.0, 0, 0, 0.0)]})
    kw = {}
    for name in ("episode", "step", "t"):
        given = g(f"{name}_given")
        if given or (given is None and g(name) is not None):
            kw[name] = (float(g(name) or 0.0) if name == "t" else as_int(g(name), 7))
    total = as_int(g("total_steps"), 4)
    seqs = [[("record", KEY, 1.5, kw)], [("stop", total)], [("start",)],
            [("start",), ("record", KEY, 1.0, {}), ("stop", total), ("record", OTHER, 3.0, {}), ("record", KEY, 2.0, {})]]
    for ops in seqs:
        for st in (state, dict(state, hist={OTHER: state["hist"][OTHER]}), None):
            bad = run_ops(cls, ops, st)
            if bad:
                return dict(cls=cls.__name__, state=st, ops=ops, violated=bad[:4])
    # (b) bounded enumeration of call sequences from the constructor
    alphabet = [("start",), ("stop", 3), ("stop", 0), ("record", KEY, 1.0, {}), ("record", OTHER, 2.0, {}),
                ("record", KEY, 3.0, dict(step=11)), ("record", KEY, 4.0, dict(episode=9)), ("record", KEY, 5.0, dict(episode=2, step=2, t=0.25)),
                ("record", EPLEN, 6.0, dict(t=1.0))]
    for n in (1, 2, 3):
        for ops in itertools.product(alphabet, repeat=n):
            bad = run_ops(cls, list(ops))
            if bad:
                return dict(cls=cls.__name__, ops=list(ops), violated=bad[:4])
    # rejected queries
    lg = cls() if cls is MemoryLogger else cls(checkpoint_dir=os.path.join(TMP, "std"))
    lg.record_stat(KEY, 1.0)
    for args in ((OTHER,), (KEY, "epoch")):
        try:
            lg.get_stat(*args)
            return dict(cls=cls.__name__, violated=[f"get_stat{args} returned data"])
        except (AssertionError, KeyError, ValueError):
            pass
    return None


# ---------------------------------------------------------------- LoggerList
class Recorder(LoggerBase):
    def __init__(self):
        self.calls = []

    def start_new_episode(self):
        self.calls.append(("start_new_episode", ()))

    def stop_episode(self, total_steps):
        self.calls.append(("stop_episode", (total_steps,)))

    def define_experiment(self, env_name=None, algorithm_name=None, hparams=None):
        self.calls.append(("define_experiment", (env_name, algorithm_name, hparams)))

    def record_stat(self, key, value, episode=None, step=None, t=None, verbose=None, format_str="{0:.3f}"):
        self.calls.append(("record_stat", (key, value, episode, step, t, verbose, format_str)))

    def define_checkpoint_frequency(self, key, checkpoint_interval):
        self.calls.append(("define_checkpoint_frequency", (key, checkpoint_interval)))

    def record_epoch(self, key, value, episode=None, step=None, t=None):
        self.calls.append(("record_epoch", (key, value, episode, step, t)))


def list_suite(m):
    model = object()
    hp = {"gamma": 0.9}
    for n in (1, 2, 3):
        recs = [Recorder() for _ in range(n)]
        ll = LoggerList(list(recs))
        script = [
            ("start_new_episode", (), {}, ()),
            ("stop_episode", (5,), {}, (5,)),
            ("define_experiment", ("E", "A", hp), {}, ("E", "A", hp)),
            ("record_stat", (KEY, 1.0), dict(episode=3, step=4, t=0.5, verbose=1, format_str="{0:.1f}"), (KEY, 1.0, 3, 4, 0.5, 1, "{0:.1f}")),
            ("record_stat", (KEY, 2.0), {}, (KEY, 2.0, None, None, None, None, "{0:.3f}")),
            ("define_checkpoint_frequency", (KEY, 3), {}, (KEY, 3)),
            ("record_epoch", (KEY, model), dict(step=7), (KEY, model, None, 7, None)),
            ("record_epoch", (KEY, model, 1, 2, 0.5), {}, (KEY, model, 1, 2, 0.5)),
        ]
        for name, a, k, want in script:
            getattr(ll, name)(*a, **k)
            for i, r in enumerate(recs):
                if not r.calls or r.calls[-1][0] != name or len(r.calls[-1][1]) != len(want) or any(x is not y and x != y for x, y in zip(r.calls[-1][1], want)):
                    return dict(members=n, call=name, violated=[f"member {i} received {r.calls[-1:]} instead of {(name, want)}"])
        if any(len(r.calls) != len(script) for r in recs):
            return dict(members=n, violated=[f"members received {[len(r.calls) for r in recs]} calls for {len(script)} list calls"])
    total = as_int(m.get("total_steps"), 4)
    kw = {}
    for name in ("episode", "step", "t"):
        if m.get(f"{name}_given"):
            kw[name] = float(m.get(name) or 0.0) if name == "t" else as_int(m.get(name), 7)
    for n in (2, 3):
        for kws in (kw, {}, dict(step=5), dict(episode=2, step=3, t=1.0)):
            mem = [MemoryLogger() for _ in range(n)]
            ll = LoggerList(list(mem))
            ref = Ref()
            for rep in range(2):
                ll.start_new_episode(); ref.start()
                ll.record_stat(KEY, 1.0 + rep, **kws); ref.record(KEY, 1.0 + rep, kws.get("episode"), kws.get("step"), kws.get("t"))
                ll.stop_episode(total); ref.stop(total)
            if ll.n_episodes != ref.ep:
                return dict(members=n, violated=[f"LoggerList.n_episodes {ll.n_episodes} instead of {ref.ep}"])
            for i, lg in enumerate(mem):
                bad = compare(lg, ref, f"member {i} of {n}")
                if bad:
                    return dict(members=n, kwargs=kws, violated=bad[:4])
    return None


# ---------------------------------------------------------------- cadence
class FakeCheckpointer:
    """records save / wait calls (bounded enumeration without disk traffic)"""

    def __init__(self):
        self.events = []

    def save(self, path, state, *a, **k):
        self.events.append(("save", str(path)))

    def wait_until_finished(self):
        self.events.append(("wait",))


def orbax_sequence(f, steps, last0=0, real=False, model=None, implicit=False):
    d = tempfile.mkdtemp(prefix="orbax-", dir=TMP)
    c = OrbaxCheckpointer(checkpoint_dir=d, verbose=0)
    c.define_experiment("Env", "Alg")
    c.define_checkpoint_frequency(KEY, f)
    if last0:
        c.last_step[KEY] = last0
    if not real:
        c.checkpointer = FakeCheckpointer()
    last = last0
    listed = 0
    for i, s in enumerate(steps):
        ev0 = len(c.checkpointer.events) if not real else 0
        if implicit:
            c.n_steps = s
            c.record_epoch(KEY, model)
        else:
            c.record_epoch(KEY, model, step=s)
        due = (s // f) > (last // f)
        new = len(c.checkpoint_path[KEY]) - listed
        if new != (1 if due else 0):
            return dict(interval=f, steps=list(steps[: i + 1]), previous_step=last, violated=[f"record at step {s} after step {last} with interval {f}: {new} checkpoint(s), expected {1 if due else 0}"])
        if not real:
            ev = c.checkpointer.events[ev0:]
            saves = [e for e in ev if e[0] == "save"]
            if len(saves) != new or (saves and (saves[0][1] != c.checkpoint_path[KEY][-1] or ("wait",) not in ev[ev.index(saves[0]):])):
                return dict(interval=f, steps=list(steps[: i + 1]), violated=[f"listed path is not the saved+committed path: events {ev}, listed {c.checkpoint_path[KEY][-1:]}"])
        if c.last_step[KEY] != s or c.epoch[KEY] != i + 1:
            return dict(interval=f, steps=list(steps[: i + 1]), violated=[f"last_step {c.last_step[KEY]} / epoch {c.epoch[KEY]} after record {i} at step {s}"])
        listed += new
        last = s
    if real:
        want = nnx.state(model)
        for p in c.checkpoint_path[KEY]:
            if not os.path.isdir(p):
                return dict(interval=f, steps=list(steps), violated=[f"listed path {p} does not exist"])
            got = ocp.StandardCheckpointer().restore(p)
            a = [np.asarray(x) for x in __import__("jax").tree_util.tree_leaves(got)]
            b = [np.asarray(x) for x in __import__("jax").tree_util.tree_leaves(want)]
            if len(a) != len(b) or any(not np.array_equal(x, y) for x, y in zip(a, b)):
                return dict(interval=f, steps=list(steps), violated=[f"listed path {p} does not restore to the saved state"])
    shutil.rmtree(d, ignore_errors=True)
    return None


def orbax_suite(m):
    model = nnx.Linear(2, 1, rngs=nnx.Rngs(0))
    g = m.get
    f = as_int(g(f"interval[{KEY}]"), as_int(g("interval"), 3))
    last = as_int(g(f"last_step[{KEY}]"), 0)
    cand = []
    if g("step1") is not None or g("step2") is not None:
        cand.append([as_int(g("step1"), last), as_int(g("step2"), last)])
    for nm in ("step", "n_steps"):
        if g(nm) is not None:
            cand.append([as_int(g(nm), last)])
    if f >= 1:
        for steps in cand:
            if all(b >= a for a, b in zip([last] + steps, steps)):
                w = orbax_sequence(f, steps, last0=last, model=model)
                if w:
                    return w
    for f in range(1, 6):
        seqs = [[0, 0, 1, 2, 3, 4, 5, 6], [f, f, 2 * f, 2 * f + 1, 5 * f, 5 * f], [f - 1, f, f + 1, 3 * f - 1, 3 * f, 3 * f + 1], [1, 1, 7, 7, 8, 23, 24, 25, 26],
                [2 * f + 1, 2 * f + 1, 4 * f - 1, 9 * f], [0, 3 * f + 2, 3 * f + 2, 3 * f + 3]]
        for steps in seqs:
            for implicit in (False, True):
                w = orbax_sequence(f, steps, model=model, implicit=implicit)
                if w:
                    return w
        for steps in itertools.combinations_with_replacement(range(0, 2 * f + 3), 3):
            w = orbax_sequence(f, list(steps), model=model)
            if w:
                return w
        # a few sequences with real Orbax saves: listed paths exist and restore
        w = orbax_sequence(f, [0, f, f, 2 * f + 1, 5 * f], real=True, model=model)
        if w:
            return w
    return None


def standard_suite(m):
    model = nnx.Linear(2, 1, rngs=nnx.Rngs(0))
    want_state = nnx.state(model)
    for f in range(1, 6):
        for e0 in (0, 1, f - 1, f):
            for real in (False, True) if e0 == 0 else (False,):
                d = tempfile.mkdtemp(prefix="std-", dir=TMP)
                lg = StandardLogger(checkpoint_dir=d, verbose=0)
                lg.define_experiment("Env", "Alg")
                for _ in range(e0):
                    lg.record_epoch(KEY, model)
                lg.define_checkpoint_frequency(KEY, f)
                if not real:
                    lg.checkpointer = FakeCheckpointer()
                listed = 0
                for i in range(2 * f + 1):
                    lg.record_epoch(KEY, model, step=10 * i)
                    e = e0 + i + 1
                    due = e % f == 0
                    new = len(lg.checkpoint_path[KEY]) - listed
                    if new != (1 if due else 0) or lg.epoch[KEY] != e or len(lg.epoch_loc[KEY]) != e or lg.epoch_loc[KEY][-1][1] != 10 * i:
                        return dict(interval=f, epochs_before=e0, epoch=e, violated=[f"recorded epoch {e} with interval {f}: {new} checkpoint(s), expected {1 if due else 0}; epoch counter {lg.epoch[KEY]}, epoch_loc {lg.epoch_loc[KEY][-1:]}"])
                    if not real and new:
                        ev = lg.checkpointer.events
                        if ev[-2:] != [("save", lg.checkpoint_path[KEY][-1]), ("wait",)]:
                            return dict(interval=f, violated=[f"listed path is not the saved+committed path: {ev[-2:]} vs {lg.checkpoint_path[KEY][-1]}"])
                    listed += new
                if real:
                    import jax
                    for p in lg.checkpoint_path[KEY]:
                        if not os.path.isdir(p):
                            return dict(interval=f, violated=[f"listed path {p} does not exist"])
                        got = ocp.StandardCheckpointer().restore(p)
                        a, b = jax.tree_util.tree_leaves(got), jax.tree_util.tree_leaves(want_state)
                        if len(a) != len(b) or any(not np.array_equal(np.asarray(x), np.asarray(y)) for x, y in zip(a, b)):
                            return dict(interval=f, violated=[f"listed path {p} does not restore to the saved state"])
                shutil.rmtree(d, ignore_errors=True)
    return None


def counters_suite(m):
    """start / stop on the checkpointer (no records)"""
    c = OrbaxCheckpointer(checkpoint_dir=os.path.join(TMP, "cnt"))
    e, s = as_int(m.get("n_episodes"), 2), as_int(m.get("n_steps"), 10)
    total = as_int(m.get("total_steps"), 4)
    c._n_episodes, c.n_steps = e, s
    c.start_new_episode()
    c.stop_episode(total)
    if (c.n_episodes, c.n_steps) != (e + 1, s + total):
        return dict(violated=[f"OrbaxCheckpointer counters {(c.n_episodes, c.n_steps)} instead of {(e + 1, s + total)}"])
    return None


def main():
    p = load()
    m = {k: v for k, v in model_of(p).items() if v is not None}
    task = p.get("task") or ""
    suites = [("MemoryLogger", lambda: logger_suite(MemoryLogger, m)), ("StandardLogger", lambda: logger_suite(StandardLogger, m)),
              ("LoggerList", lambda: list_suite(m)), ("OrbaxCheckpointer", lambda: orbax_suite(m) or counters_suite(m)),
              ("StandardLogger.cadence", lambda: standard_suite(m))]
    if "record_epoch" in task or "history2" in task or "define_checkpoint" in task or "mixed" in task:
        first = "StandardLogger.cadence" if task.startswith("StandardLogger") else "OrbaxCheckpointer"
    else:
        first = task.split(".")[0]
    suites.sort(key=lambda s: 0 if s[0] == first else 1)
    buf = io.StringIO()
    try:
        for name, run in suites:
            with contextlib.redirect_stdout(buf):
                w = run()
            if w:
                done(True, dict(suite=name, **w))
    finally:
        shutil.rmtree(TMP, ignore_errors=True)
    done(False, None, note="the real loggers satisfied every clause on the counter-model and on the bounded neighbourhood")


main()
