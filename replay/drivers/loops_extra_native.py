"""Native replay for the loop obligations of contracts/loops_extra.py (C01 / C11 / C13 loop clause):
tabular loops, reinforce.sample_trajectories / train_reinforce / train_ac, a2c.collect_trajectories /
train_a2c, util.experiment_helper.generate_rollout.

The REAL routine named in the failed obligation is run on a scripted, recording environment; the update
routines / policies that are module globals of the algorithm module are wrapped by recorders (arguments
converted to python numbers, then the real function is called), and the clause of the obligation is
evaluated on what really happened.  Observations of the scripted environments are unique per (episode, t)
so that "which observation was this" is decidable from the value.
"""
import os
import re
import sys
import warnings

warnings.filterwarnings("ignore")
os.environ.setdefault("JAX_PLATFORMS", "cpu")
sys.path.insert(0, os.path.dirname(__file__))
from _common import done, load

import gymnasium as gym
import jax
import jax.numpy as jnp
import numpy as np

ALG = "rl_blox.algorithm."
N_STATES = 97


class EpisodeOver(RuntimeError):
    pass


class Log:
    def __init__(self):
        self.steps, self.resets, self.violations, self.cur, self.alive = [], [], [], None, False

    def bad(self, clause, detail):
        self.violations.append(dict(clause=clause, detail=detail))


class TabEnv(gym.Env):
    """discrete states 0..N_STATES-1, every visited state is new (a counter); episode lengths follow a script"""

    def __init__(self, log, script, box=False):
        self.log, self.script, self.box = log, script, box
        self.observation_space = gym.spaces.Box(-1e6, 1e6, (2,), np.float32) if box else gym.spaces.Discrete(N_STATES)
        self.action_space = gym.spaces.Box(-1, 1, (1,), np.float32) if box else gym.spaces.Discrete(3)
        self.episode, self.counter = -1, 0

    def _obs(self):
        self.counter += 1
        return np.array([self.episode, self.counter], np.float32) if self.box else self.counter % N_STATES

    def reset(self, *, seed=None, options=None):
        self.episode += 1
        self.t = 0
        self.log.alive = True
        self.log.cur = self._obs()
        self.log.resets.append(len(self.log.steps))
        return self.log.cur, {}

    def step(self, action):
        lg = self.log
        n = len(lg.steps)
        if not lg.alive:
            lg.bad("step.pre.episode_running", f"step #{n} on an episode that has ended / was never reset")
            raise EpisodeOver()
        if n > 400:
            raise EpisodeOver("runaway")
        for h in getattr(lg, "step_hooks", []):
            h(action)
        self.t += 1
        length, kind = self.script[self.episode % len(self.script)]
        ended = self.t >= length
        rec = dict(index=n, before=lg.cur, action=np.array(action).copy(), reward=0.5 + n / 32.0, next=self._obs(),
                   terminated=bool(ended and kind == "term"), truncated=bool(ended and kind == "trunc"), episode=self.episode, t=self.t - 1)
        lg.steps.append(rec)
        lg.cur = rec["next"]
        lg.alive = not ended
        return rec["next"], rec["reward"], rec["terminated"], rec["truncated"], {}


def same(a, b):
    try:
        return bool(np.allclose(np.asarray(a, dtype=float), np.asarray(b, dtype=float)))
    except Exception:
        return False


SCRIPTS = [[(3, "term"), (1, "trunc"), (4, "trunc"), (2, "term")], [(1, "term"), (1, "term"), (5, "trunc")], [(6, "trunc")]]


# ------------------------------------------------------------------ tabular
TAB = {"train_q_learning": "q_learning", "train_sarsa": "sarsa", "train_double_q_learning": "double_q_learning",
       "train_monte_carlo": "monte_carlo", "train_dynaq": "dynaq"}


def run_tabular(routine, total, script):
    import importlib

    mod = importlib.import_module(ALG + TAB[routine])
    lg = Log()
    env = TabEnv(lg, script)
    calls = []  # policy calls since the last env.step: (kind, obs, table)
    current = {"tables": None}
    orig = {}

    def table_ok(q):
        cur = current["tables"]
        if routine == "train_double_q_learning":
            return same(q, cur[0] + cur[1])
        return same(q, cur[0])

    def wrap_policy(kind):
        f = getattr(mod, f"{kind}_policy")

        def w(q_table, observation, *a, **k):
            if isinstance(observation, jax.core.Tracer) or isinstance(q_table, jax.core.Tracer):
                return f(q_table, observation, *a, **k)  # called while a jitted update routine is traced: not an acting site of the loop
            if not same(observation, lg.cur):
                lg.bad(f"act.pre.conditioned_on_current_observation[{kind}_policy]", f"policy called with observation {observation}, environment is at {lg.cur} (after {len(lg.steps)} steps)")
            calls.append((kind, int(observation), np.array(q_table), len(lg.steps)))
            return f(q_table, observation, *a, **k)
        return w

    def on_step(action):
        beh = [c for c in calls if c[0] == "epsilon_greedy" and c[3] == len(lg.steps)]
        if not beh:
            lg.bad("step.pre.action_is_epsilon_greedy_policy_action", f"no epsilon_greedy_policy call before step #{len(lg.steps)}")
        else:
            k, o, q, _ = beh[-1]  # the most recent call: its result is what the loop passes to env.step
            if not same(o, lg.cur):
                lg.bad("step.pre.behaviour_policy_on_current_observation", f"behaviour policy saw {o}, environment is at {lg.cur}")
            if not table_ok(q):
                lg.bad("step.pre.behaviour_policy_on_current_estimate", f"behaviour policy used a table that is not the current estimate at step #{len(lg.steps)}")

    lg.step_hooks = [on_step]

    def check_transition(site, kw):
        if not lg.steps:
            lg.bad(f"store.pre.after_a_step{site}", "update before any step")
            return
        s = lg.steps[-1]
        for name, key in (("observation", "before"), ("action", "action"), ("reward", "reward"), ("next_observation", "next"), ("terminated", "terminated")):
            if name in kw and not same(kw[name], s[key]):
                lg.bad(f"store.pre.{name}_is_what_the_step_produced{site}", f"update got {name}={np.asarray(kw[name]).tolist()}, step #{s['index']} produced {np.asarray(s[key]).tolist()}")

    def wrap_update(name, params, site="", returns_table=True, which=0):
        f = getattr(mod, name)

        def w(*a, **k):
            kw = dict(zip(params, a))
            kw.update(k)
            ren = {"obs": "observation", "act": "action", "next_obs": "next_observation"}
            check_transition(site, {ren.get(p, p): v for p, v in kw.items()})
            if "next_action" in kw:
                later = [c for c in calls if c[3] == len(lg.steps)]
                if not later or not same(later[-1][1], lg.steps[-1]["next"]):
                    lg.bad("update.pre.next_action_from_policy_at_successor_observation", f"no policy call at the successor observation {lg.steps[-1]['next']} before the update of step #{len(lg.steps) - 1}")
            r = f(*a, **k)
            if returns_table:
                if routine == "train_double_q_learning":
                    first = kw["q_table1"]
                    i = 0 if same(first, current["tables"][0]) else 1
                    current["tables"][i] = np.array(r)
                else:
                    current["tables"][0] = np.array(r[0] if isinstance(r, tuple) else r)
            return r
        return w

    import inspect

    sig = lambda name: list(inspect.signature(getattr(mod, name)).parameters)  # noqa: E731
    patches = {}
    for kind in ("epsilon_greedy", "greedy"):
        if hasattr(mod, f"{kind}_policy"):
            patches[f"{kind}_policy"] = wrap_policy(kind)
    q0 = jnp.zeros((N_STATES, 3))
    if routine in ("train_q_learning", "train_sarsa"):
        patches["_update_policy"] = wrap_update("_update_policy", sig("_update_policy"))
    elif routine == "train_double_q_learning":
        patches["_dql_update"] = wrap_update("_dql_update", sig("_dql_update"))
    elif routine == "train_monte_carlo":
        f = mod.update

        def upd(q_table, n_visits, rewards, observations, actions, gamma):
            if lg.alive:
                lg.bad("update.pre.called_when_the_episode_has_ended", f"update after step #{len(lg.steps) - 1} while the episode is running")
            ep = [s for s in lg.steps if s["episode"] == lg.steps[-1]["episode"]]
            for role, arr, key in (("rewards", rewards, "reward"), ("observations", observations, "before"), ("actions", actions, "action")):
                want = [float(np.asarray(s[key])) for s in ep]
                got = np.asarray(arr, dtype=float).tolist()
                if len(got) != len(want):
                    lg.bad(f"update.pre.episode_array_has_episode_length[{role}]", f"{len(got)} rows for an episode of {len(want)} steps")
                elif not same(got, want):
                    lg.bad(f"update.pre.rows_are_the_steps_of_the_finished_episode[{role}]", f"{role} {got} != episode {want}")
            r = f(q_table, n_visits, rewards, observations, actions, gamma)
            current["tables"][0] = np.array(r[0])
            return r
        patches["update"] = upd
    elif routine == "train_dynaq":
        patches["q_learning_update"] = wrap_update("q_learning_update", sig("q_learning_update"), "[q_learning_update]")
        patches["counter_update"] = wrap_update("counter_update", sig("counter_update"), "[counter_update]", returns_table=False)
        patches["model_update"] = wrap_update("model_update", sig("model_update"), "[model_update]", returns_table=False)
        f = mod.planning

        def planning(model_transition, model_reward, obs_buffer, act_buffer, *a, **k):
            # the direct-RL wrapper must not flag the simulated transitions replayed by planning
            real_q = mod.q_learning_update
            mod.q_learning_update = orig["q_learning_update"]
            try:
                n = min(len(lg.steps), buffer_size)
                for role, arr, key in (("obs_buffer", obs_buffer, "before"), ("act_buffer", act_buffer, "action")):
                    want = [float(np.asarray(s[key])) for s in lg.steps[len(lg.steps) - n:]]
                    got = np.asarray(arr, dtype=float).tolist()
                    if len(got) != n:
                        lg.bad(f"planning.pre.buffer_holds_the_last_buffer_size_steps[{role}]", f"{len(got)} entries after {len(lg.steps)} steps, buffer_size {buffer_size}")
                    elif not same(got, want):
                        lg.bad(f"planning.pre.buffer_rows_are_the_visited_pairs[{role}]", f"{got} != visited {want}")
                r = f(model_transition, model_reward, obs_buffer, act_buffer, *a, **k)
            finally:
                mod.q_learning_update = real_q
            current["tables"][0] = np.array(r)
            return r
        patches["planning"] = planning
    buffer_size = 3
    for k, v in patches.items():
        orig[k] = getattr(mod, k)
        setattr(mod, k, v)
    err = None
    try:
        fn = getattr(mod, routine)
        if routine == "train_double_q_learning":
            current["tables"] = [np.array(q0), np.array(q0)]
            fn(env, q0, q0, total_timesteps=total, progress_bar=False)
        elif routine == "train_dynaq":
            current["tables"] = [np.array(q0)]
            fn(env, q0, total_timesteps=total, buffer_size=buffer_size, n_planning_steps=1, progress_bar=False)
        else:
            current["tables"] = [np.array(q0)]
            fn(env, q0, total_timesteps=total, progress_bar=False)
    except EpisodeOver:
        pass
    except Exception as e:  # noqa: BLE001
        err = f"{type(e).__name__}: {e}"
    finally:
        for k, v in orig.items():
            setattr(mod, k, v)
    if len(lg.steps) > total:
        lg.bad("post.budget.steps_within_remaining_budget", f"{len(lg.steps)} steps executed, total_timesteps={total}")
    return lg, err, dict(total_timesteps=total, script=script, executed=len(lg.steps))


# ------------------------------------------------------------ on-policy collectors
def tiny_state(env):
    from rl_blox.algorithm.reinforce import create_policy_gradient_continuous_state

    return create_policy_gradient_continuous_state(env, policy_shared_head=True, policy_hidden_nodes=[4], policy_learning_rate=1e-3,
                                                    value_network_hidden_nodes=[4], value_network_learning_rate=1e-2, seed=0)


def run_pg(routine, total, script, **kw):
    import rl_blox.algorithm.reinforce as rf

    lg = Log()
    env = TabEnv(lg, script, box=True)
    s = tiny_state(env)
    orig_add = rf.EpisodeDataset.add_sample

    def add(self, observation, action, next_observation, reward):
        st = lg.steps[-1] if lg.steps else None
        if st is None:
            lg.bad("store.pre.after_a_step", "row stored before any step")
        else:
            for name, v, key in (("observation", observation, "before"), ("action", action, "action"), ("next_observation", next_observation, "next"), ("reward", reward, "reward")):
                if not same(v, st[key]):
                    lg.bad(f"store.pre.{name}_is_what_the_step_produced", f"stored {name}={np.asarray(v).tolist()}, step #{st['index']} produced {np.asarray(st[key]).tolist()}")
            if len(self.episodes[-1]) != st["t"]:
                lg.bad("store.pre.row_belongs_to_the_current_episode_record", f"row {len(self.episodes[-1])} of the record, step {st['t']} of the episode")
        return orig_add(self, observation, action, next_observation, reward)

    rf.EpisodeDataset.add_sample = add
    err = None
    try:
        if routine == "sample_trajectories":
            rf.sample_trajectories(env, s.policy, jax.random.key(0), None, kw.get("train_after_episode", False), total)
        elif routine == "train_reinforce":
            rf.train_reinforce(env, s.policy, s.policy_optimizer, s.value_function, s.value_function_optimizer, total_timesteps=total, progress_bar=False, **kw)
        else:
            from rl_blox.algorithm.actor_critic import train_ac

            train_ac(env, s.policy, s.policy_optimizer, s.value_function, s.value_function_optimizer, total_timesteps=total, progress_bar=False, **kw)
    except EpisodeOver:
        pass
    except Exception as e:  # noqa: BLE001
        err = f"{type(e).__name__}: {e}"
    finally:
        rf.EpisodeDataset.add_sample = orig_add
    if routine != "sample_trajectories" and len(lg.steps) > total:
        lg.bad("post.budget.steps_within_remaining_budget", f"{len(lg.steps)} environment steps executed, total_timesteps={total} ({len(lg.steps) - total} over budget)")
    return lg, err, dict(total_timesteps=total, script=script, executed=len(lg.steps), **kw)


def run_a2c(routine, total, script, mode, n_envs=2, steps_per_update=5):
    from rl_blox.algorithm import a2c

    logs = [Log() for _ in range(n_envs)]
    mk = [lambda lg=lg: TabEnv(lg, script, box=True) for lg in logs]
    envs = gym.vector.SyncVectorEnv(mk, autoreset_mode=getattr(gym.vector.AutoresetMode, mode))
    s = tiny_state(TabEnv(Log(), script, box=True))
    violations = []
    rows = []
    orig = a2c.ReplayBuffer.add_sample

    def add(self, **kw):
        if "obs" in kw:
            rows.append((np.array(kw["obs"]).copy(), [len(lg.steps) for lg in logs], [lg.steps[-1]["index"] if lg.steps else None for lg in logs]))
        return orig(self, **kw)

    a2c.ReplayBuffer.add_sample = add
    err = None
    try:
        if routine == "train_a2c":
            a2c.train_a2c(envs, s.policy, s.policy_optimizer, s.value_function, s.value_function_optimizer, total_timesteps=total,
                          steps_per_update=steps_per_update, progress_bar=False, log_frequency=None)
        else:
            obs, _ = envs.reset(seed=0)
            a2c.collect_trajectories(envs, s.policy, jax.random.key(0), jnp.array(obs), total)
    except Exception as e:  # noqa: BLE001
        err = f"{type(e).__name__}: {e}"
    finally:
        a2c.ReplayBuffer.add_sample = orig
    # a stored row of sub-environment e is a real transition iff its observation is the obs_before of a recorded step
    for r, (obs, counts, _) in enumerate(rows):
        for e, lg in enumerate(logs):
            if not any(same(obs[e], st["before"]) for st in lg.steps):
                violations.append(dict(clause="store.pre.every_row_is_a_transition_within_one_episode",
                                       detail=f"rollout row {r}, sub-environment {e}: stored observation {obs[e].tolist()} is the FINAL observation of a finished episode "
                                              f"(no environment step starts from it: the vector step was the {mode} autoreset, action ignored, reward 0)"))
    vector_steps = len(rows)
    if routine == "train_a2c" and vector_steps * n_envs > total:
        violations.append(dict(clause="post.budget.steps_within_remaining_budget",
                               detail=f"{vector_steps} vector steps x {n_envs} environments = {vector_steps * n_envs} steps, total_timesteps={total} ({vector_steps * n_envs - total} over budget)"))
    lg = Log()
    lg.violations = violations
    return lg, err, dict(total=total, script=script, autoreset=mode, num_envs=n_envs, steps_per_update=steps_per_update, vector_steps=vector_steps)


def run_ppo(routine, batch, script, with_logger, n_envs=2):
    """real ppo.collect_trajectories / train_ppo on a SAME_STEP vector environment with RecordEpisodeStatistics:
    the observation handed to actor.sample and every stored observation row must be the observation the
    sub-environment returned last (after an episode end: its RESET observation, not the final observation)"""
    from rl_blox.algorithm import ppo

    logs = [Log() for _ in range(n_envs)]
    envs = gym.vector.SyncVectorEnv([lambda lg=lg: TabEnv(lg, script, box=True) for lg in logs], autoreset_mode=gym.vector.AutoresetMode.SAME_STEP)
    out = Log()

    class Actor:
        def sample(self, obs, key):
            for e, lg in enumerate(logs):
                if not same(obs[e], lg.cur):
                    out.bad("act.pre.conditioned_on_current_observation[policy.sample]",
                            f"actor conditioned on {np.asarray(obs[e]).tolist()} for sub-environment {e}, which is at {np.asarray(lg.cur).tolist()} (vector step #{len(lg.steps)})")
            return jnp.zeros((n_envs, 1))

    class Logger:
        n_episodes = 0

        def __getattr__(self, name):
            return lambda *a, **k: None

    critic = lambda o: jnp.zeros((o.shape[0], 1))  # noqa: E731
    logger = Logger() if with_logger else None
    err = None
    try:
        if routine == "train_ppo":
            orig = ppo.update_ppo
            ppo.update_ppo = lambda *a, **k: 0.0
            rows = []
            real_collect = ppo.collect_trajectories

            def collect(*a, **k):
                r = real_collect(*a, **k)
                rows.append(r)
                return r
            ppo.collect_trajectories = collect
            try:
                ppo.train_ppo(envs, Actor(), critic, None, None, iterations=2, batch_size=batch, logger=logger, progress_bar=False)
            finally:
                ppo.update_ppo, ppo.collect_trajectories = orig, real_collect
            results = rows
        else:
            obs0, _ = envs.reset(seed=0)
            wrapped = gym.wrappers.vector.RecordEpisodeStatistics(envs)
            results = [ppo.collect_trajectories(wrapped, Actor(), critic, jax.random.key(0), batch, logger, jnp.array(obs0), 0)]
        t0 = 0
        for r in results:
            ob = np.asarray(r.observation)
            for e, lg in enumerate(logs):
                for t in range(batch):
                    st = lg.steps[t0 + t]
                    if not same(ob[e * batch + t], st["before"]):
                        out.bad("rollout.row_is_what_the_env_produced[observation]",
                                f"sub-environment {e}, vector step {t0 + t}: stored observation {ob[e * batch + t].tolist()}, the environment had returned {np.asarray(st['before']).tolist()}")
            t0 += batch
            for e, lg in enumerate(logs):
                if r is results[-1] and not same(np.asarray(r.last_observation)[e], lg.cur):
                    out.bad("post.returned_observation_is_the_current_one", f"returned last_observation[{e}] = {np.asarray(r.last_observation)[e].tolist()}, environment is at {np.asarray(lg.cur).tolist()}")
    except Exception as e:  # noqa: BLE001
        err = f"{type(e).__name__}: {e}"
    return out, err, dict(batch_size=batch, script=script, logger=with_logger, num_envs=n_envs, vector_steps=len(logs[0].steps))


def run_rollout(script):
    from rl_blox.util.experiment_helper import generate_rollout

    lg = Log()
    env = TabEnv(lg, script, box=True)

    def policy(observation, key):
        if not same(observation, lg.cur):
            lg.bad("act.pre.conditioned_on_current_observation[policy]", f"policy saw {np.asarray(observation).tolist()}, environment is at {np.asarray(lg.cur).tolist()}")
        return 0

    err = None
    try:
        obs, acts, rews = generate_rollout(env, policy)
        n = len(lg.steps)
        if len(obs) != n + 1 or len(acts) != n or len(rews) != n:
            lg.bad("post.one_row_per_step[observations]", f"{len(obs)} observations, {len(acts)} actions, {len(rews)} rewards for {n} steps")
        else:
            for k, st in enumerate(lg.steps):
                if not same(rews[k], st["reward"]):
                    lg.bad("rollout.row_is_what_the_env_produced[rewards]", f"reward row {k} = {float(rews[k])}, step {k} produced {st['reward']}")
                if not same(obs[k + 1], st["next"]) or not same(obs[k], st["before"]):
                    lg.bad("rollout.row_is_what_the_env_produced[observations]", f"observation rows {k}, {k + 1} do not frame step {k}")
    except EpisodeOver:
        pass
    except Exception as e:  # noqa: BLE001
        err = f"{type(e).__name__}: {e}"
    return lg, err, dict(script=script, executed=len(lg.steps))


def family(clause):
    for pref in ("post.budget", "step.pre.within_budget"):
        if clause.startswith(pref):
            return "budget"
    return re.sub(r"\[.*$", "", clause)


def main():
    p = load()
    ob = p.get("obligation") or ""
    m = re.match(r"C\d+\.([A-Za-z0-9_.]+?)((?:\[[^\]]*\])*)\.((?:store|act|step|update|post|planning|rollout|record|no_uncaught|algorithm)\b.*)$", ob)
    if not m:
        done(False, None, note=f"cannot parse obligation {ob!r}")
    routine, scen, clause = m.group(1), m.group(2), m.group(3)
    runs = []
    if routine in TAB:
        runs = [lambda t=t, s=s: run_tabular(routine, t, s) for t in (9, 14) for s in SCRIPTS[:2]]
    elif routine in ("train_reinforce", "train_ac"):
        runs = [lambda: run_pg(routine, 10, SCRIPTS[2], steps_per_update=4), lambda: run_pg(routine, 1, SCRIPTS[0], train_after_episode=True),
                lambda: run_pg(routine, 6, SCRIPTS[0], steps_per_update=2)]
    elif routine == "sample_trajectories":
        runs = [lambda: run_pg(routine, 5, SCRIPTS[0]), lambda: run_pg(routine, 3, SCRIPTS[1], train_after_episode=True)]
    elif routine in ("train_a2c", "a2c.collect_trajectories"):
        mode = "SAME_STEP" if "SAME_STEP" in scen else "NEXT_STEP"
        r = "train_a2c" if routine == "train_a2c" else "collect"
        runs = [lambda: run_a2c(r, 12 if r == "train_a2c" else 8, SCRIPTS[0], mode), lambda: run_a2c(r, 7, SCRIPTS[1], mode, n_envs=3)]
    elif routine in ("ppo.collect_trajectories", "train_ppo"):
        lgr = "logger" in scen
        r = "train_ppo" if routine == "train_ppo" else "collect"
        runs = [lambda: run_ppo(r, 6, SCRIPTS[0], lgr), lambda: run_ppo(r, 5, SCRIPTS[1], lgr, n_envs=3)]
    elif routine == "generate_rollout":
        runs = [lambda s=s: run_rollout(s) for s in ([(3, "term")], [(4, "trunc")], [(1, "term")])]
    else:
        done(False, None, note=f"routine {routine!r} is not driven natively by loops_extra_native")
    tried, other = [], []
    for run in runs:
        lg, err, conf = run()
        tried.append(f"{conf} -> {len(lg.violations)} violations{', error ' + err if err else ''}")
        want_exc = re.match(r"no_uncaught_exception\[(\w+)\]", clause)
        if want_exc and err and err.startswith(want_exc.group(1)):
            done(True, dict(routine=routine, configuration=conf, violated=clause, observed=err))
        for v in lg.violations:
            if v["clause"] == clause or family(v["clause"]) == family(clause):
                done(True, dict(routine=routine, configuration=conf, violated=v["clause"], observed=v["detail"],
                                occurrences_in_this_run=sum(1 for w in lg.violations if w["clause"] == v["clause"]),
                                other_clauses_violated_in_this_run=sorted({w["clause"] for w in lg.violations} - {v["clause"]})))
            other.append(f"{v['clause']}: {v['detail']}")
    done(False, None, note=f"{routine}: clause {clause!r} held natively in {len(tried)} runs of the real routine", configurations=tried,
         other_clauses_violated=sorted(set(other))[:6])


main()
