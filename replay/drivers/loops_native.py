"""Native replay for the training-loop properties C01 / C11 (and the C06 cadence
clauses): run the REAL rl_blox training routine named in the failed obligation
on a scripted, recording Gymnasium environment with a recording subclass of the
REAL replay buffer and tiny real networks, and evaluate the clause of the
obligation on what really happened.

payload["obligation"] e.g.
  C11.train_td3[episode-limit].post.accounting.reported_equals_start_plus_executed
  C01.train_pets.store.pre.observation_is_what_the_step_produced
  C11.train_sac.update.pre.warmup_met[critic]
  C01.train_dqn.act.pre.conditioned_on_current_observation[greedy_policy]

What is observed (all on the real code, nothing interpreted):
 * environment log: every reset / step with arguments and results; observations
   are unique tagged vectors [episode, t, counter]/16, rewards unique per step;
   episode lengths / termination kind follow a cyclic script (length-1 episodes,
   terminations and truncations mixed); step() on an ended episode RAISES.
 * every replay_buffer.add_sample(**kw) (recording subclass of ReplayBuffer /
   LAP / PrioritizedReplayBuffer / SubtrajectoryReplayBufferPER) is compared
   with the environment's record of the step just executed.
 * acting sites: greedy_policy, the sampler returned by make_sample_actions,
   mpc_action (module globals of the algorithm module, wrapped), and for SAC
   policy.sample (jax.debug.callback inside a recording subclass).
 * parameter updates: (a) fingerprints of the online networks taken at every
   env.step() entry and at return - a change is attributed to the number of
   steps executed at that moment; (b) python-level call records of the update
   routines that are module globals (ddpg_update_actor, sac_update_actor,
   EntropyControl.update, td7._train_step, mrq's cached update functions,
   update_dynamics_model; train_step_with_loss is recorded at trace time = its
   first call).
 * target-network updates (hard_/soft_target_net_update module globals, wrapped).
 * TD7 with use_checkpoints (C15 loop obligations assess.pre.* / release.*, C06
   checkpoint copy): arguments and results of assess_performance_and_checkpoint
   and the epoch argument of every _train_step call.
Each routine is run on a small grid: several (total_timesteps, global_step)
pairs incl. start == total, start > total and start > 0, total_episodes in
{None, 1, 2, 3}, four episode scripts, learning_starts in {0, 5, > total}.
"""
import contextlib
import hashlib
import os
import re
import sys
import time
import traceback
import warnings

warnings.filterwarnings("ignore")
os.environ.setdefault("JAX_PLATFORMS", "cpu")
sys.path.insert(0, os.path.dirname(__file__))
from _common import done, load

import gymnasium as gym
import jax
import jax.numpy as jnp
import numpy as np
import optax
from flax import nnx

try:  # identical tiny computations are compiled in every run: share them
    jax.config.update("jax_compilation_cache_dir", os.environ.get("LOOPS_NATIVE_JAX_CACHE", "/tmp/loops_native_jax_cache"))
    jax.config.update("jax_persistent_cache_min_compile_time_secs", 0)
    jax.config.update("jax_persistent_cache_min_entry_size_bytes", -1)
except Exception:
    pass

T0 = time.time()
DEADLINE_S = float(os.environ.get("LOOPS_NATIVE_DEADLINE", 150))
ALG = "rl_blox.algorithm."


# ----------------------------------------------------------------- environment
class EpisodeOver(RuntimeError):
    """env.step() on an episode that has ended (or was never reset)"""


class Runaway(RuntimeError):
    """far more steps than the budget: the loop does not stop"""


class ScriptedEnv(gym.Env):
    metadata = {"render_modes": []}

    def __init__(self, discrete, script, hard_cap):
        self.observation_space = gym.spaces.Box(-np.inf, np.inf, (3,), np.float32)
        if discrete:
            self.action_space = gym.spaces.Discrete(3)
        else:
            self.action_space = gym.spaces.Box(np.array([-1.0, -0.5], np.float32), np.array([2.0, 0.25], np.float32), dtype=np.float32)
        self.discrete = discrete
        self.script = list(script)
        self.hard_cap = hard_cap
        self.steps = []  # one record per executed step
        self.resets = []  # (number of steps executed before, observation)
        self.violations = []
        self.alive = False
        self.cur = None  # the observation the env returned last
        self.episode = -1
        self.t = 0
        self.counter = 0
        self.finished = 0
        self.hooks = []

    def _obs(self):
        self.counter += 1
        return np.array([self.episode, self.t, self.counter], dtype=np.float32) / 16.0

    def reset(self, *, seed=None, options=None):
        super().reset(seed=seed)
        self.episode += 1
        self.t = 0
        self.alive = True
        self.cur = self._obs()
        self.resets.append((len(self.steps), self.cur.copy()))
        return self.cur.copy(), {}

    def step(self, action):
        for h in self.hooks:
            h()
        n = len(self.steps)
        if not self.alive:
            what = "step() before the first reset()" if self.cur is None else "step() after the episode ended, without reset()"
            self.violations.append(dict(clause="step.pre.episode_running", detail=f"{what} (step call #{n}, episode {self.episode})"))
            raise EpisodeOver(what)
        if n >= self.hard_cap:
            raise Runaway(f"{n} steps executed, loop still running")
        self.t += 1
        length, kind = self.script[self.episode % len(self.script)]
        ended = self.t >= length
        terminated = bool(ended and kind == "terminated")
        truncated = bool(ended and kind == "truncated")
        reward = 0.25 + n / 64.0
        before = self.cur
        try:
            act = np.array(action, copy=True)
        except Exception:
            act = action
        nxt = self._obs()
        self.steps.append(dict(index=n, episode=self.episode, obs_before=before.copy(), action=act, reward=reward,
                               next_obs=nxt.copy(), terminated=terminated, truncated=truncated))
        self.cur = nxt
        if ended:
            self.alive = False
            self.finished += 1
        return nxt.copy(), reward, terminated, truncated, {}


# -------------------------------------------------------------------- recorder
def _fp(module):
    h = hashlib.sha1()
    for leaf in jax.tree.leaves(nnx.state(module, nnx.Param)):
        h.update(np.asarray(leaf).tobytes())
    return h.hexdigest()


def _arr(x):
    return np.asarray(x, dtype=np.float64)


def _short(x):
    try:
        a = np.asarray(x)
        return a.tolist() if a.size <= 6 else f"array{a.shape}"
    except Exception:
        return repr(x)[:60]


CANON = {"obs": "observation", "actions": "action", "rewards": "reward", "next_obs": "next_observation",
         "terminated": "termination", "terminations": "termination", "truncations": "truncated"}
KNOWN_FIELDS = {"observation", "action", "reward", "next_observation", "termination", "truncated"}


class Recorder:
    def __init__(self, env, s0):
        self.env = env
        self.s0 = s0
        self.violations = []
        self.n_stores = 0
        self.n_acts = 0
        self.acts_by_site = {}
        self.updates = []  # (label, executed-at-that-moment, source)
        self.targets = []  # dict(kind, net, target, tau, executed)
        self.watched = {}
        self.prints = {}
        # TD7 checkpoint release (C15) / checkpoint copy (C06)
        self.trained = 0
        self.released = 0
        self.epoch0 = 0
        self.in_train_step = False
        self.assess = []  # (executed, update_checkpoint, training_steps)

    def bad(self, clause, detail):
        if len(self.violations) < 50:
            self.violations.append(dict(clause=clause, detail=detail))

    # C01 store ---------------------------------------------------------
    def on_store(self, sample):
        env = self.env
        self.n_stores += 1
        if not env.steps:
            self.bad("store.pre.after_a_step", "add_sample before any environment step")
            return
        rec = env.steps[-1]
        want = dict(observation=rec["obs_before"], action=rec["action"], reward=rec["reward"], next_observation=rec["next_obs"],
                    termination=rec["terminated"], truncated=rec["truncated"])
        have = set()
        for k, v in sample.items():
            c = CANON.get(k, k)
            if c not in KNOWN_FIELDS:
                self.bad(f"store.pre.known_field[{k}]", "unexpected field")
                continue
            have.add(c)
            w = want[c]
            try:
                if c in ("observation", "next_observation"):
                    ok = _arr(v).shape == _arr(w).shape and np.array_equal(_arr(v), _arr(w))
                elif c == "action":
                    if env.discrete:
                        ok = np.asarray(v).size == 1 and int(np.asarray(v).reshape(())) == int(np.asarray(w).reshape(()))
                    else:
                        ok = _arr(v).shape == _arr(w).shape and np.allclose(_arr(v), _arr(w), rtol=1e-6, atol=1e-7)
                elif c == "reward":
                    ok = float(v) == float(w)
                else:
                    ok = bool(v) == bool(w)
            except Exception as e:  # incomparable value
                ok = False
                v = f"{v!r} ({type(e).__name__})"
            if not ok:
                tag = ""
                if c == "observation":
                    prev = env.steps[-2]["next_obs"] if len(env.steps) > 1 else None
                    if prev is not None and _arr(v).shape == prev.shape and np.array_equal(_arr(v), _arr(prev)) and env.steps[-2]["episode"] != rec["episode"]:
                        tag = " = final observation of the PREVIOUS episode, not the reset observation"
                self.bad(f"store.pre.{c}_is_what_the_step_produced",
                         f"step #{rec['index']} (episode {rec['episode']}): stored {k}={_short(v)}, environment says {_short(w)}{tag}")
        for k in sorted({"observation", "action", "reward", "next_observation"} - have):
            self.bad(f"store.pre.{k}_present", "transition stored without this field")
        if "termination" not in have:
            self.bad("store.pre.termination_flag_present", "transition stored without termination flag")

    # C01 act -----------------------------------------------------------
    def on_act(self, where, obs):
        env = self.env
        self.n_acts += 1
        self.acts_by_site[where] = self.acts_by_site.get(where, 0) + 1
        clause = f"act.pre.conditioned_on_current_observation[{where}]"
        try:
            o = _arr(obs)
        except Exception:
            self.bad(clause, f"policy conditioned on {obs!r}")
            return
        n = len(env.steps)
        if env.cur is None:
            self.bad(clause, "acting before the first reset")
        elif o.shape != env.cur.shape or not np.array_equal(o, _arr(env.cur)):
            self.bad(clause, f"before step #{n}: policy conditioned on {_short(o)}, the environment's current observation is {_short(env.cur)}")
        elif not env.alive:
            self.bad(clause, f"before step #{n}: policy conditioned on the final observation of an ended episode (no reset yet)")

    # C11 updates -------------------------------------------------------
    def on_update(self, label, source="call"):
        self.updates.append((label, len(self.env.steps), source))

    def watch(self, label, module):
        self.watched.setdefault(label, []).append(module)

    def snapshot(self):
        for label, mods in self.watched.items():
            for i, m in enumerate(mods):
                f = _fp(m)
                old = self.prints.get((label, i))
                if old is not None and old != f:
                    self.on_update(label, "parameters-changed")
                self.prints[(label, i)] = f

    # C06 ---------------------------------------------------------------
    def on_target(self, kind, net, target, tau=None):
        self.targets.append(dict(kind=kind, net=net, target=target, tau=tau, executed=len(self.env.steps), inner=self.in_train_step))


def recording(cls):
    class Recording(cls):
        _rec = None

        def add_sample(self, **sample):
            if self._rec is not None:
                self._rec.on_store(sample)
            return super().add_sample(**sample)

    Recording.__name__ = "Recording" + cls.__name__
    return Recording


@contextlib.contextmanager
def patched(pairs):
    """pairs: [(object, attribute, replacement)]"""
    saved = []
    try:
        for obj, name, new in pairs:
            saved.append((obj, name, getattr(obj, name)))
            setattr(obj, name, new)
        yield
    finally:
        for obj, name, old in reversed(saved):
            setattr(obj, name, old)


class NnxProxy:
    """stands in for the `nnx` global of rl_blox.algorithm.mrq so that the
    functions produced by nnx.cached_partial are recorded at python level"""

    def __init__(self, rec, labels, act_fns):
        self._rec, self._labels, self._act_fns = rec, labels, act_fns
        self._online = None

    def __getattr__(self, name):
        return getattr(nnx, name)

    def cached_partial(self, f, *cached):
        rec = self._rec
        real = nnx.cached_partial(getattr(f, "_real", f), *cached)
        label = self._labels.get(getattr(f, "_real", f))
        if label is not None and getattr(self, "_online", None):
            # wiring (C05 / C06): the cached arguments are the ONLINE components the routine trains, its target
            # parameters are separate objects
            import inspect

            names = list(inspect.signature(getattr(f, "_real", f)).parameters)
            bound = dict(zip(names, cached))
            for par, want in self._online.get(label, {}).items():
                if bound.get(par) is not want:
                    rec.bad(f"wiring.{label}.trains_the_online_component[{par}]", f"train_mrq binds parameter {par!r} of the {label} update to an object that is not the online component")
            for x, y in (("q", "q_target"), ("encoder", "encoder_target")):
                if x in bound and y in bound and bound[x] is bound[y]:
                    rec.bad(f"wiring.{label}.target_is_a_separate_object[{y}]", f"{x} and {y} are the same object")
        if label is not None:
            def upd(*a, **k):
                rec.on_update(label)
                return real(*a, **k)
            return upd
        if getattr(f, "_acts", False):
            def act(obs, key):
                rec.on_act("sample_actions", obs)
                return real(obs, key)
            return act
        return real


# -------------------------------------------------------------------- routines
def _mod(name):
    import importlib

    return importlib.import_module(ALG + name)


SPEC = {
    # routine: (module, discrete, start parameter, result field, episodes?, family)
    "train_dqn": ("dqn", True, "global_step", "global_step", False, "dqn"),
    "train_nature_dqn": ("nature_dqn", True, "global_step", "global_step", True, "dqn"),
    "train_ddqn": ("ddqn", True, "global_step", "global_step", True, "dqn"),
    "train_ddqn_per": ("per", True, "global_step", None, True, "dqn"),
    "train_ddpg": ("ddpg", False, "global_step", "steps_trained", True, "ddpg"),
    "train_td3": ("td3", False, "global_step", "global_step", True, "td3"),
    "train_td3_lap": ("td3_lap", False, "global_step", "global_step", False, "td3"),
    "train_sac": ("sac", False, "global_step", "global_step", True, "sac"),
    "train_td7": ("td7", False, "global_step", "global_step", True, "td7"),
    "train_mrq": ("mrq", False, "global_step", "global_step", True, "mrq"),
    "train_pets": ("pets", False, None, None, False, "pets"),
}

BATCH = 4


def wrap_acting(mod, rec):
    """wrap the acting entry points that are globals of the algorithm module"""
    pairs = []
    if hasattr(mod, "greedy_policy"):
        real = mod.greedy_policy

        def greedy(q_net, obs):
            rec.on_act("greedy_policy", obs)
            return real(q_net, obs)
        pairs.append((mod, "greedy_policy", greedy))
    if hasattr(mod, "make_sample_actions"):
        real_make = mod.make_sample_actions

        def make(action_space, exploration_noise):
            fn = real_make(action_space, exploration_noise)

            def sampler(policy, obs, key):
                rec.on_act("sample_actions", obs)
                return fn(policy, obs, key)
            sampler._real = fn
            sampler._acts = True
            return sampler
        pairs.append((mod, "make_sample_actions", make))
    if hasattr(mod, "mpc_action"):
        real_mpc = mod.mpc_action

        def mpc(config, state, optimize_fn, obs):
            rec.on_act("mpc_action", obs)
            return real_mpc(config, state, optimize_fn, obs)
        pairs.append((mod, "mpc_action", mpc))
    return pairs


def wrap_updates(mod, rec, labels):
    """labels: {global name of the update routine: label}"""
    pairs = []
    for name, label in labels.items():
        if not hasattr(mod, name):
            continue
        real = getattr(mod, name)

        def w(*a, _real=real, _label=label, **k):
            rec.on_update(_label)
            return _real(*a, **k)
        w._real = real
        pairs.append((mod, name, w))
    return pairs


def wrap_targets(mod, rec):
    pairs = []
    if hasattr(mod, "hard_target_net_update"):
        real_h = mod.hard_target_net_update

        def hard(net, target_net):
            rec.on_target("hard", net, target_net)
            return real_h(net, target_net)
        pairs.append((mod, "hard_target_net_update", hard))
    if hasattr(mod, "soft_target_net_update"):
        real_s = mod.soft_target_net_update

        def soft(net, target_net, tau):
            rec.on_target("soft", net, target_net, tau)
            return real_s(net, target_net, tau)
        pairs.append((mod, "soft_target_net_update", soft))
    return pairs


def build(routine, env, rec, cfg):
    """-> (callable, kwargs, patches, info) for one run of the real routine"""
    modname, discrete, _, _, episodes, family = SPEC[routine]
    mod = _mod(modname)
    fn = getattr(mod, routine)
    from rl_blox.blox import replay_buffer as RB

    kw = dict(total_timesteps=cfg["total"], seed=cfg.get("seed", 1), progress_bar=False)
    if SPEC[routine][2]:
        kw["global_step"] = cfg["start"]
    if episodes:
        kw["total_episodes"] = cfg["episodes"]
    patches = wrap_acting(mod, rec) + wrap_targets(mod, rec)
    info = dict(targets={}, online={})
    ls = cfg["learning_starts"]

    def buffer(cls, *a, **k):
        b = recording(cls)(*a, **k)
        b._rec = rec
        return b

    if family == "dqn":
        from rl_blox.blox.function_approximator.mlp import MLP

        q_net = MLP(3, 3, [8], "relu", nnx.Rngs(0))
        opt = nnx.Optimizer(q_net, optax.adam(1e-2), wrt=nnx.Param)
        cls = RB.PrioritizedReplayBuffer if routine == "train_ddqn_per" else RB.ReplayBuffer
        kw.update(q_net=q_net, env=env, replay_buffer=buffer(cls, 200, discrete_actions=True), optimizer=opt, batch_size=BATCH, gamma=0.9)
        rec.watch("critic", q_net)
        info["online"]["q_net"] = q_net
        if routine != "train_dqn":
            tgt = nnx.clone(q_net)
            kw.update(update_frequency=cfg.get("update_frequency", 2), target_update_frequency=cfg.get("target_update_frequency", 3),
                      learning_starts=ls, q_target_net=tgt)
            info["targets"]["q_net"] = tgt
        patches += wrap_updates(mod, rec, {"train_step_with_loss": "critic"})
        return fn, kw, patches, info

    if family in ("ddpg", "td3"):
        create = _mod("ddpg").create_ddpg_state if family == "ddpg" else _mod("td3").create_td3_state
        st = create(env, policy_hidden_nodes=[8], q_hidden_nodes=[8], policy_learning_rate=1e-2, q_learning_rate=1e-2, seed=0)
        cls = RB.LAP if routine == "train_td3_lap" else RB.ReplayBuffer
        pt, qt = nnx.clone(st.policy), nnx.clone(st.q)
        kw.update(env=env, policy=st.policy, policy_optimizer=st.policy_optimizer, q=st.q, q_optimizer=st.q_optimizer,
                  batch_size=BATCH, gradient_steps=cfg.get("gradient_steps", 1), learning_starts=ls,
                  replay_buffer=buffer(cls, 200), policy_target=pt, q_target=qt, tau=0.3)
        if family == "td3":
            kw["policy_delay"] = cfg.get("policy_delay", 2)
        rec.watch("actor", st.policy)
        rec.watch("critic", st.q)
        info["online"].update(policy=st.policy, q=st.q)
        info["targets"].update(policy=pt, q=qt)
        patches += wrap_updates(mod, rec, {"train_step_with_loss": "critic", "ddpg_update_actor": "actor"})
        return fn, kw, patches, info

    if family == "sac":
        st = mod.create_sac_state(env, policy_hidden_nodes=[8], q_hidden_nodes=[8], policy_learning_rate=1e-2, q_learning_rate=1e-2, seed=0)
        base = type(st.policy)

        class RecordingPolicy(base):
            def sample(self, observation, key):
                if jnp.ndim(observation) == 1:  # the acting call (updates sample on batches)
                    jax.debug.callback(lambda o: rec.on_act("policy.sample", o), observation, ordered=True)
                return super().sample(observation, key)

        st.policy.__class__ = RecordingPolicy
        env.hooks.insert(0, jax.effects_barrier)
        ec = mod.EntropyControl(env, 0.2, cfg.get("autotune", True), 1e-2)
        qt = nnx.clone(st.q)
        kw.update(env=env, policy=st.policy, policy_optimizer=st.policy_optimizer, q=st.q, q_optimizer=st.q_optimizer,
                  batch_size=BATCH, learning_starts=ls, policy_delay=cfg.get("policy_delay", 2),
                  target_network_delay=cfg.get("target_network_delay", 2), autotune=cfg.get("autotune", True),
                  replay_buffer=buffer(RB.ReplayBuffer, 200), q_target=qt, entropy_control=ec, tau=0.3)
        rec.watch("actor", st.policy)
        rec.watch("critic", st.q)
        if ec.autotune:
            rec.watch("temperature", ec._alpha)
        info["online"].update(q=st.q)
        info["targets"].update(q=qt)
        patches += wrap_updates(mod, rec, {"train_step_with_loss": "critic", "sac_update_actor": "actor"})
        real_upd = mod.EntropyControl.update

        def ec_update(self, *a, **k):
            if self.autotune:
                rec.on_update("temperature")
            return real_upd(self, *a, **k)
        patches.append((mod.EntropyControl, "update", ec_update))
        return fn, kw, patches, info

    if family == "td7":
        st = mod.create_td7_state(env, n_embedding_dimensions=8, state_embedding_hidden_nodes=[8], state_action_embedding_hidden_nodes=[8],
                                  policy_sa_encoding_nodes=8, policy_hidden_nodes=[8], q_sa_encoding_nodes=8, q_hidden_nodes=[8],
                                  embedding_learning_rate=1e-2, policy_learning_rate=1e-2, q_learning_rate=1e-2, seed=0)
        kw.update(env=env, embedding=st.embedding, embedding_optimizer=st.embedding_optimizer, actor=st.actor, actor_optimizer=st.actor_optimizer,
                  critic=st.critic, critic_optimizer=st.critic_optimizer, target_delay=cfg.get("target_delay", 3),
                  policy_delay=cfg.get("policy_delay", 2), use_checkpoints=cfg.get("use_checkpoints", False),
                  max_episodes_when_checkpointing=2, steps_before_checkpointing=10, batch_size=BATCH, learning_starts=ls,
                  replay_buffer=buffer(RB.LAP, 200))
        for m in (st.embedding, st.actor, st.critic):
            rec.watch("td7-train-step", m)
        import inspect

        real_step, real_assess = mod._train_step, mod.assess_performance_and_checkpoint
        sig = inspect.signature(real_step)
        rec.epoch0 = max(0, cfg["start"] - ls)

        def train_step(*a, **k):
            rec.on_update("td7-train-step")
            rec.trained += 1
            bound = sig.bind(*a, **k).arguments
            epoch = bound.get("epoch")
            pol, polt = bound.get("policy"), bound.get("policy_target")
            parts = {"embedding": bound.get("embedding"), "critic": bound.get("critic"), "critic_target": bound.get("critic_target"),
                     "policy.actor": getattr(pol, "actor", None), "policy.embedding": getattr(pol, "embedding", None),
                     "policy_target.actor": getattr(polt, "actor", None), "policy_target.embedding": getattr(polt, "embedding", None)}
            keys = sorted(parts)
            same = [(x, y) for i, x in enumerate(keys) for y in keys[i + 1:] if parts[x] is not None and parts[x] is parts[y]]
            if same:
                rec.bad("wiring.online_fixed_and_target_modules_are_distinct_objects", f"train_td7 hands the same module object to its training iteration as {same}")
            if epoch != rec.epoch0 + rec.trained:
                rec.bad("release.epoch_counts_training_iterations",
                        f"training iteration #{rec.trained} of this call runs with epoch={epoch}; epoch at entry max(0, start - learning_starts) = {rec.epoch0}")
            rec.in_train_step = True
            try:
                return real_step(*a, **k)
            finally:
                rec.in_train_step = False

        def assess(checkpoint_state, steps_per_episode, episode_return, epoch, *a, **k):
            ep = [r for r in env.steps if r["episode"] == env.episode]
            if env.alive:
                rec.bad("assess.pre.called_when_episode_ended", f"assessed after {len(env.steps)} steps while the episode is still running")
            if steps_per_episode != len(ep):
                rec.bad("assess.pre.steps_of_the_episode_that_just_ended", f"steps_per_episode={steps_per_episode}, the episode had {len(ep)} steps")
            want = sum(r["reward"] for r in ep)
            if abs(float(episode_return) - want) > 1e-9:
                rec.bad("assess.pre.return_of_the_episode_that_just_ended", f"episode_return={float(episode_return)}, rewards of the episode sum to {want}")
            if epoch != rec.epoch0 + rec.trained:
                rec.bad("assess.pre.epoch_is_training_iteration_count", f"epoch={epoch}, entry epoch {rec.epoch0} + {rec.trained} training iterations so far")
            out = real_assess(checkpoint_state, steps_per_episode, episode_return, epoch, *a, **k)
            rec.released += int(out[1])
            rec.assess.append((len(env.steps), bool(out[0]), int(out[1])))
            return out

        patches += [(mod, "_train_step", train_step), (mod, "assess_performance_and_checkpoint", assess)]
        return fn, kw, patches, info

    if family == "mrq":
        st = mod.create_mrq_state(env, policy_hidden_nodes=[8], q_hidden_nodes=[8], encoder_n_bins=5, encoder_zs_dim=8, encoder_za_dim=4,
                                  encoder_zsa_dim=8, encoder_hidden_nodes=[8], policy_learning_rate=1e-2, q_learning_rate=1e-2,
                                  encoder_learning_rate=1e-2, seed=0)
        pt, qt = nnx.clone(st.policy_with_encoder), nnx.clone(st.q)
        kw.update(env=env, policy_with_encoder=st.policy_with_encoder, encoder_optimizer=st.encoder_optimizer, policy_optimizer=st.policy_optimizer,
                  q=st.q, q_optimizer=st.q_optimizer, the_bins=st.the_bins, target_delay=cfg.get("target_delay", 3), batch_size=BATCH,
                  learning_starts=ls, encoder_horizon=2, q_horizon=2, replay_buffer=buffer(RB.SubtrajectoryReplayBufferPER, 200, horizon=2),
                  policy_with_encoder_target=pt, q_target=qt)
        rec.watch("encoder", st.policy_with_encoder.encoder)
        rec.watch("critic-and-policy", st.q)
        rec.watch("critic-and-policy", st.policy_with_encoder.policy)
        info["online"].update(policy_with_encoder=st.policy_with_encoder, q=st.q)
        info["targets"].update(policy_with_encoder=pt, q=qt)
        labels = {mod.update_model_based_encoder: "encoder", mod.update_critic_and_policy: "critic-and-policy"}
        proxy = NnxProxy(rec, labels, None)
        proxy._online = {"encoder": {"encoder": st.policy_with_encoder.encoder},
                         "critic-and-policy": {"q": st.q, "policy": st.policy_with_encoder.policy, "encoder": st.policy_with_encoder.encoder}}
        patches.append((mod, "nnx", proxy))
        return fn, kw, patches, info

    if family == "pets":
        dm = mod.create_pets_state(env, seed=0, n_ensemble=2, hidden_nodes=[8], learning_rate=1e-2, batch_size=2)

        def reward_model(act, obs):
            return -jnp.sum(jnp.asarray(act) ** 2, axis=-1) - 0.1 * jnp.asarray(obs)[..., 0]

        kw.update(env=env, reward_model=reward_model, dynamics_model=dm, plan_horizon=2, n_particles=2, n_samples=10, n_opt_iter=1,
                  learning_starts=ls, learning_starts_gradient_steps=2, n_steps_per_iteration=cfg.get("n_steps_per_iteration", 4),
                  gradient_steps=1, replay_buffer=buffer(RB.ReplayBuffer, 200))
        rec.watch("dynamics-model", dm.model)
        patches += wrap_updates(mod, rec, {"update_dynamics_model": "dynamics-model"})
        return fn, kw, patches, info
    raise KeyError(routine)


# ---------------------------------------------------------- documented cadence
def documented_targets(routine, kw, s0):
    """role -> (kind, when(step index), times) as documented (contracts/loops.py)"""
    fam = SPEC[routine][5]
    ls = kw.get("learning_starts", 0)
    if fam == "dqn" and routine != "train_dqn":
        f = kw["target_update_frequency"]
        return {"q_net": ("hard", lambda s: s > kw["batch_size"] and s % f == 0, 1)}
    if fam == "ddpg":
        w = lambda s: s >= ls  # noqa: E731
        return {"policy": ("soft", w, kw["gradient_steps"]), "q": ("soft", w, kw["gradient_steps"])}
    if fam == "td3":
        w = lambda s: s >= ls and s % kw["policy_delay"] == 0  # noqa: E731
        return {"policy": ("soft", w, kw["gradient_steps"]), "q": ("soft", w, kw["gradient_steps"])}
    if fam == "sac":
        return {"q": ("soft", lambda s: s >= ls and s % kw["target_network_delay"] == 0, 1)}
    if fam == "mrq":
        def w(s):
            epoch = max(0, s0 - ls) + (s - max(s0, ls)) + 1
            return s >= ls and epoch % kw["target_delay"] == 0
        return {"policy_with_encoder": ("hard", w, 1), "q": ("hard", w, 1)}
    return {}


# --------------------------------------------------------------------- one run
SCRIPTS = {
    "S1": [(1, "terminated"), (3, "truncated"), (2, "terminated"), (6, "truncated")],
    "S2": [(4, "truncated"), (1, "truncated"), (1, "terminated"), (9, "terminated")],
    "S3": [(7, "terminated"), (2, "truncated")],
    "S4": [(1000, "truncated")],
}


def warm_ok(routine, kw, s0, executed):
    fam = SPEC[routine][5]
    s = s0 + executed - 1
    if fam == "dqn":
        return s > kw["batch_size"], f"step index {s} > batch_size {kw['batch_size']}"
    if fam == "pets":
        return executed >= kw["learning_starts"], f"executed steps {executed} >= learning_starts {kw['learning_starts']}"
    return s >= kw["learning_starts"], f"step index {s} >= learning_starts {kw['learning_starts']}"


def run_once(routine, cfg):
    modname, discrete, start_param, ret, episodes, fam = SPEC[routine]
    s0 = cfg["start"] if start_param else 0
    budget = max(0, cfg["total"] - s0)
    env = ScriptedEnv(discrete, SCRIPTS[cfg["script"]], hard_cap=budget + 25)
    rec = Recorder(env, s0)
    fn, kw, patches, info = build(routine, env, rec, cfg)
    env.hooks.append(rec.snapshot)
    rec.snapshot()
    out = dict(cfg=dict(cfg), violations=[], error=None)
    result = None
    raised = None
    t0 = time.time()
    with patched(patches):
        try:
            result = fn(**kw)
        except (EpisodeOver, Runaway) as e:
            raised = e
        except Exception as e:  # noqa: BLE001
            raised = e
            out["error"] = f"{type(e).__name__}: {str(e)[:300]}"
            out["traceback"] = traceback.format_exc()[-1500:]
    try:
        jax.effects_barrier()
        rec.snapshot()
    except Exception:
        pass
    out["seconds"] = round(time.time() - t0, 2)
    executed = len(env.steps)
    V = out["violations"]
    V += env.violations
    V += rec.violations
    conf = f"total_timesteps={cfg['total']}, start={s0}, total_episodes={cfg['episodes'] if episodes else None}, learning_starts={cfg['learning_starts']}, episode script {cfg['script']}={SCRIPTS[cfg['script']]}"
    # budget
    if executed > budget or isinstance(raised, Runaway):
        d = f"executed {executed} environment steps{' and still running' if isinstance(raised, Runaway) else ''}, remaining budget max(0, {cfg['total']} - {s0}) = {budget}"
        V.append(dict(clause="post.budget.steps_within_remaining_budget", detail=d))
        V.append(dict(clause="step.pre.within_budget", detail=d))
    # episodes
    te = cfg["episodes"] if episodes else None
    if te is not None and env.finished > te:
        V.append(dict(clause="post.episodes.stops_at_requested_episodes", detail=f"{env.finished} episodes finished, total_episodes={te}"))
    # accounting
    if ret is not None and result is not None:
        got = getattr(result, ret, None)
        if got is None:
            V.append(dict(clause="post.accounting.reported_count", detail="no step count returned"))
        elif int(got) != s0 + executed:
            V.append(dict(clause="post.accounting.reported_equals_start_plus_executed",
                          detail=f"result.{ret} = {int(got)}, start {s0} + executed {executed} = {s0 + executed}"))
    # warm-up
    seen = set()
    for label, ex, source in rec.updates:
        ok, why = warm_ok(routine, kw, s0, ex)
        if not ok and (label, ex) not in seen:
            seen.add((label, ex))
            V.append(dict(clause=f"update.pre.warmup_met[{label}]", detail=f"{label} update ({source}) after {ex} executed steps; documented warm-up: {why} - not met"))
    # C06 cadence
    doc = documented_targets(routine, kw, s0)
    if doc and raised is None:
        role_of = {id(v): k for k, v in info["online"].items()}
        counts = {}
        for t in rec.targets:
            role = role_of.get(id(t["net"]))
            if role is None or role not in doc:
                V.append(dict(clause=f"target.only_documented_targets_change[{role or type(t['net']).__name__}]", detail=f"undocumented {t['kind']} target update after {t['executed']} steps"))
                continue
            if t["net"] is t["target"]:
                V.append(dict(clause=f"target.disjoint_storage[{role}]", detail="target network is the online network object"))
            if t["target"] is not info["targets"][role]:
                V.append(dict(clause=f"target.update_args_online_then_target[{role}]", detail="update does not write the documented target"))
            if t["kind"] != doc[role][0] or (t["kind"] == "soft" and t["tau"] != kw.get("tau")):
                V.append(dict(clause=f"target.rule[{role}]", detail=f"{t['kind']} update (tau={t['tau']}) where {doc[role][0]} (tau={kw.get('tau')}) is documented"))
            s = s0 + t["executed"] - 1
            counts[(role, s)] = counts.get((role, s), 0) + 1
        for role, (kind, when, times) in doc.items():
            for i in range(executed):
                s = s0 + i
                want = times if when(s) else 0
                got = counts.get((role, s), 0)
                if want != got:
                    V.append(dict(clause=f"target.cadence.changes_exactly_at_documented_points[{role}]",
                                  detail=f"step index {s}: {got} target update(s), documented {want}"))
                    break
    if fam == "td7" and kw.get("use_checkpoints") and raised is None:
        # C15 "none lost": every episode whose last step was taken once learning had started (terminated OR
        # truncated) is handed to the assessment exactly once, right after that step
        assessed_after = [a[0] for a in rec.assess]
        for stp in env.steps:
            if (stp["terminated"] or stp["truncated"]) and s0 + stp["index"] >= kw.get("learning_starts", 0):
                n_after = assessed_after.count(stp["index"] + 1)
                if n_after != 1:
                    V.append(dict(clause="assess.every_episode_ending_after_warmup_is_assessed",
                                  detail=f"episode {stp['episode']} ended at step index {s0 + stp['index']} ({'terminated' if stp['terminated'] else 'truncated'}), "
                                         f"learning_starts={kw.get('learning_starts', 0)}: assessed {n_after} time(s)"))
                    break
        if rec.trained != rec.released:
            V.append(dict(clause="release.training_iterations_equal_released_steps",
                          detail=f"{rec.trained} training iterations run, assess_performance_and_checkpoint released {rec.released}"))
        copies = {}
        for t in rec.targets:
            if not t["inner"]:  # the checkpoint copy in train_td7 itself
                copies[t["executed"]] = copies.get(t["executed"], 0) + 1
                if t["kind"] != "hard":
                    V.append(dict(clause="target.rule[policy]", detail="checkpoint copy is not a hard update"))
                if t["net"] is t["target"]:
                    V.append(dict(clause="target.disjoint_storage[policy]", detail="checkpoint is the acting policy object"))
        due = {}
        for ex, upd, _ in rec.assess:
            due[ex] = due.get(ex, 0) + (1 if upd else 0)
        for ex in sorted(set(copies) | set(due)):
            if copies.get(ex, 0) != due.get(ex, 0):
                V.append(dict(clause="target.cadence.changes_exactly_at_documented_points[policy]",
                              detail=f"after {ex} steps: {copies.get(ex, 0)} checkpoint copies, update_checkpoint returned True {due.get(ex, 0)} time(s)"))
                break
    out["conf"] = conf
    out["stats"] = dict(executed=executed, finished_episodes=env.finished, stores=rec.n_stores, acts=rec.acts_by_site,
                        updates=len(rec.updates), first_update_after=min((u[1] for u in rec.updates), default=None),
                        target_updates=len(rec.targets), **({"trained": rec.trained, "released": rec.released, "assessed": len(rec.assess), "checkpoints": sum(a[1] for a in rec.assess)} if fam == "td7" else {}), reported=(int(getattr(result, ret)) if ret and result is not None and getattr(result, ret, None) is not None else None))
    out["exception_type"] = type(raised).__name__ if raised is not None and not isinstance(raised, (EpisodeOver, Runaway)) else None
    return out


# ------------------------------------------------------------------------ grid
def grid(routine, scen):
    _, _, start_param, _, episodes, fam = SPEC[routine]
    base = [
        # total, start, episodes, script, learning_starts
        (30, 0, None, "S1", 5),
        (30, 0, 2, "S1", 5),
        (40, 12, 1, "S2", 5),
        (30, 30, None, "S1", 5),
        (30, 30, 1, "S1", 5),
        (30, 41, None, "S2", 5),
        (36, 7, None, "S2", 5),
        (30, 0, 2, "S3", 5),
        (30, 0, 1, "S4", 5),
        (30, 3, None, "S4", 0),
        (25, 0, 3, "S2", 0),
        (24, 0, None, "S3", 100),
        (30, 9, 2, "S1", 12),
    ]
    out, seen = [], set()
    for total, start, eps, script, ls in base:
        c = dict(total=total, start=start if start_param else 0, episodes=eps if episodes else None, script=script, learning_starts=ls)
        if fam == "pets":
            c["learning_starts"] = {0: 2, 5: 6, 100: 100, 12: 9}[ls]
        k = tuple(sorted(c.items(), key=lambda kv: kv[0]))
        if k in seen:
            continue
        seen.add(k)
        out.append(c)
    extra = []
    if fam == "td7":  # training is released by the checkpoint logic at episode ends
        if "use_checkpoints" in scen:
            out = [dict(c, use_checkpoints=True) for c in out] + [out[0], out[2]]
        else:
            extra = [dict(out[0], use_checkpoints=True), dict(out[1], use_checkpoints=True), dict(out[6], use_checkpoints=True), dict(out[7], use_checkpoints=True)]
    if fam in ("ddpg", "td3"):
        extra = [dict(out[0], gradient_steps=2)]
    if fam == "sac":
        extra = [dict(out[0], autotune=False)]
    out = out[:3] + extra + out[3:]
    if "episode-limit" in scen:
        out.sort(key=lambda c: c["episodes"] is None)
    return out


FAMILIES = [
    ("post.accounting", "accounting"), ("post.budget", "budget"), ("step.pre.within_budget", "budget"), ("post.episodes", "episodes"),
    ("step.pre.episode_running", "typestate"), ("update.pre.warmup_met", "warmup"), ("store.pre.", "store"), ("act.pre.", "act"),
    ("target.", "target"), ("no_uncaught_exception", "exception"), ("assess.pre.", "td7-release"), ("assess.every", "td7-release"), ("release.", "td7-release"), ("wiring.online", "td7-release"), ("wiring.", "wiring"),
]


def family(clause):
    for pref, f in FAMILIES:
        if clause.startswith(pref):
            return f
    return None


def matches(clause, v):
    """does the native violation v reproduce the failed clause?"""
    if not clause or family(clause) is None:
        return "any"
    if v["clause"] == clause:
        return "exact"
    if family(clause) == "budget" and family(v["clause"]) == "budget":
        return "exact"
    return None


def main():
    p = load()
    ob = p.get("obligation") or ""
    m = re.search(r"(train_[a-z0-9_]+?)((?:\[[^\]]*\])*)\.(.*)$", ob)
    routine = m.group(1) if m else None
    scen = m.group(2) if m else ""
    clause = m.group(3) if m else ""
    if routine not in SPEC:
        done(False, None, note=f"routine {routine!r} of obligation {ob!r} is not driven natively by loops_native (supported: {sorted(SPEC)})")
    tried, errors, other = [], [], []
    want_exc = re.match(r"no_uncaught_exception\[(\w+)\]", clause)
    for cfg in grid(routine, scen):
        if time.time() - T0 > DEADLINE_S:
            break
        try:
            r = run_once(routine, cfg)
        except Exception as e:  # driver-side failure for this configuration
            errors.append(f"{cfg}: driver error {type(e).__name__}: {str(e)[:200]}")
            continue
        st = r["stats"]
        tried.append(f"{r['conf']}{''.join(f', {k}={v}' for k, v in r['cfg'].items() if k not in ('total', 'start', 'episodes', 'script', 'learning_starts'))}"
                     f" -> executed={st['executed']} finished_episodes={st['finished_episodes']} reported={st['reported']} stores={st['stores']}"
                     f" acts={sum(st['acts'].values())} updates={st['updates']} first_update_after={st['first_update_after']}{''.join(f' {k}={st[k]}' for k in ('trained', 'released', 'assessed', 'checkpoints') if k in st)} ({r['seconds']} s)")
        if r["error"]:
            errors.append(f"{r['cfg']}: {r['error']}")
        if want_exc and r["exception_type"] == want_exc.group(1):
            done(True, dict(routine=routine, configuration=r["conf"], violated=clause, observed=r["error"], traceback=r.get("traceback")))
        for v in sorted(r["violations"], key=lambda v: v["clause"] != clause):
            how = matches(clause, v)
            if how:
                same = [w["detail"] for w in r["violations"] if w["clause"] == v["clause"]]
                done(True, dict(routine=routine, configuration=r["conf"], violated=v["clause"], match=how, observed=v["detail"],
                                occurrences_in_this_run=len(same), run=r["stats"],
                                other_clauses_violated_in_this_run=sorted({w["clause"] for w in r["violations"]} - {v["clause"]})))
            other.append(f"{v['clause']}: {v['detail']} [{r['conf']}]")
    n_grid = len(grid(routine, scen))
    note = (f"{routine}: clause {clause!r} held natively in {len(tried)} of {n_grid} planned runs of the real routine "
            f"(scripted env, recording buffer; {round(time.time() - T0)} s)")
    done(False, None, note=note, configurations=tried, routine_exceptions=errors[:6],
         other_clauses_violated=sorted(set(other))[:6])


main()
