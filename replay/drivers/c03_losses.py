"""Replay for C03: run the REAL loss functions of /repo on tiny real nnx networks
and compare with a float64 numpy re-computation of the DOCUMENTED formula from
the same forward passes (value, aux outputs), plus the corollaries of the
property checked natively: zero jax-gradient w.r.t. target networks / target
policies / bootstrap inputs, no bootstrap term for terminated transitions
(2-copy: changing next_obs must not change the loss), batch-order invariance,
batch size 1 gives the documented value or raises.

Networks cannot be read off a counter-model (they are uninterpreted there), so
the driver uses the concrete dimensions of the counter-model ("dim:N", ...)
when present and a bounded neighbourhood of random batches, termination
patterns (mixed / all terminated / none) and seeds.
"""
import os
import re
import sys
from collections import namedtuple

sys.path.insert(0, os.path.dirname(__file__))
from _common import done, load, model_of

import jax
import jax.numpy as jnp
import numpy as np
from flax import nnx

from rl_blox.blox import losses as LS
from rl_blox.blox.double_qnet import ContinuousClippedDoubleQNet
from rl_blox.blox.function_approximator.mlp import MLP
from rl_blox.blox.function_approximator.policy_head import StochasticPolicyBase

RTOL, ATOL = 2e-4, 2e-5


def f64(x):
    return np.asarray(x, dtype=np.float64)


def close(a, b):
    a, b = f64(a), f64(b)
    return a.shape == b.shape and np.allclose(a, b, rtol=RTOL, atol=ATOL)


def mlp(n_in, n_out, seed):
    return MLP(n_in, n_out, [8], "tanh", nnx.Rngs(seed))


def dq(n_in, seed):
    return ContinuousClippedDoubleQNet(mlp(n_in, 1, seed), mlp(n_in, 1, seed + 100))


class TinyGaussian(StochasticPolicyBase):
    """diagonal Gaussian policy with an MLP mean and unit variance"""

    def __init__(self, net):
        self.net = net

    def sample(self, observation, key):
        m = self.net(observation)
        return m + jax.random.normal(key, m.shape)

    def log_probability(self, observation, action):
        m = self.net(observation)
        return jnp.sum(-0.5 * (action - m) ** 2 - 0.5 * jnp.log(2 * jnp.pi), axis=-1)


def huber_ref(e, d):
    a = np.abs(e)
    return np.where(a <= d, 0.5 * a * a, 0.5 * d * d + d * (a - d))


def grad_max(fn, args, k):
    """max |d fn(*args) / d args[k]| with every module passed explicitly (nnx trace levels)"""
    g = nnx.grad(fn, argnums=k)(*args)
    if not isinstance(g, (nnx.State,)) and not hasattr(g, "shape"):
        g = nnx.state(g)
    leaves = jax.tree_util.tree_leaves(g)
    return max([float(jnp.max(jnp.abs(x))) for x in leaves] + [0.0])


class Ctx:
    def __init__(self, N, D, A, nA, seed, pattern):
        self.N, self.D, self.A, self.nA = N, D, A, nA
        r = np.random.default_rng(seed)
        self.r = r
        self.obs = jnp.asarray(r.normal(size=(N, D)), jnp.float32)
        self.nobs = jnp.asarray(r.normal(size=(N, D)), jnp.float32)
        self.nobs2 = jnp.asarray(r.normal(size=(N, D)) * 3 + 1, jnp.float32)
        self.act = jnp.asarray(r.normal(size=(N, A)), jnp.float32)
        self.nact = jnp.asarray(r.normal(size=(N, A)), jnp.float32)
        self.dact = jnp.asarray(r.integers(0, nA, size=(N,)), jnp.int32)
        self.rew = jnp.asarray(r.normal(size=(N,)), jnp.float32)
        t = {"mixed": r.integers(0, 2, size=(N,)), "all": np.ones(N, int), "none": np.zeros(N, int)}[pattern]
        if pattern == "mixed" and N >= 2:
            t[0], t[1] = 1, 0
        self.term = jnp.asarray(t, jnp.int32)
        self.gamma = 0.9
        self.seed = seed
        self.pattern = pattern
        self.perm = np.asarray(r.permutation(N))


def common_corollaries(bad, c, loss_fn, mods, target_idx, cont, tag):
    """loss_fn(*mods, obs, act, rew, nobs, term, nact) -> scalar loss; target_idx: {name: index into mods} whose gradient must vanish"""
    a0 = c.act if cont else c.dact
    arrs = (c.obs, a0, c.rew, c.nobs, c.term, c.nact)
    base = loss_fn(*mods, *arrs)
    for nm, k in target_idx.items():
        g = grad_max(loss_fn, tuple(mods) + arrs, k)
        if g > 1e-12:
            bad.append(f"{tag}: gradient w.r.t. {nm} is {g:.3g}, not zero")
    gno = grad_max(loss_fn, tuple(mods) + arrs, len(mods) + 3)
    if gno > 1e-12:
        bad.append(f"{tag}: gradient w.r.t. next_obs is {gno:.3g}")
    if cont:
        gna = grad_max(loss_fn, tuple(mods) + arrs, len(mods) + 5)
        if gna > 1e-12:
            bad.append(f"{tag}: gradient w.r.t. next_action is {gna:.3g}")
    if c.pattern == "all":
        other = loss_fn(*mods, c.obs, a0, c.rew, c.nobs2, c.term, c.nact)
        if not close(base, other):
            bad.append(f"{tag}: all transitions terminated but the loss depends on next_obs: {float(base)} vs {float(other)}")
    p = c.perm
    permuted = loss_fn(*mods, c.obs[p], a0[p], c.rew[p], c.nobs[p], c.term[p], c.nact[p])
    if not close(base, permuted):
        bad.append(f"{tag}: loss changes under a permutation of the batch: {float(base)} vs {float(permuted)}")


# ----------------------------------------------------------------- per function
def case_discrete(fn, c, bad):
    q, qt = mlp(c.D, c.nA, c.seed), mlp(c.D, c.nA, c.seed + 7)
    w = jnp.asarray(c.r.uniform(0.2, 1.5, size=(c.N,)), jnp.float32)
    f = getattr(LS, fn)

    def call(q_, qt_, obs, act, rew, nobs, term):
        b = (obs, act, rew, nobs, term)
        if fn == "dqn_loss":
            return f(q_, b, c.gamma)
        if fn == "ddqn_per_loss":
            return f(q_, qt_, b, c.gamma, w)
        return f(q_, qt_, b, c.gamma)

    out = call(q, qt, c.obs, c.dact, c.rew, c.nobs, c.term)
    Q, Qn, Qtn = f64(q(c.obs)), f64(q(c.nobs)), f64(qt(c.nobs))
    if fn == "dqn_loss":
        boot = Qn.max(1)
    elif fn == "nature_dqn_loss":
        boot = Qtn.max(1)
    else:
        boot = Qtn[np.arange(c.N), Qn.argmax(1)]
    y = f64(c.rew) + (1 - f64(c.term)) * c.gamma * boot
    pred = Q[np.arange(c.N), np.asarray(c.dact)]
    if fn == "ddqn_per_loss":
        loss, (qm, tdm) = out
        if not close(loss, np.mean(f64(w) * (pred - y) ** 2)):
            bad.append(f"{fn}: loss {float(loss)} != documented {np.mean(f64(w) * (pred - y) ** 2)}")
        if not close(tdm, np.mean(np.abs(pred - y))):
            bad.append(f"{fn}: td error mean {float(tdm)} != {np.mean(np.abs(pred - y))}")
    else:
        loss, qm = out
        if not close(loss, np.mean((pred - y) ** 2)):
            bad.append(f"{fn}: loss {float(loss)} != documented {np.mean((pred - y) ** 2)}")
    if not close(qm, pred.mean()):
        bad.append(f"{fn}: q_mean {float(qm)} != {pred.mean()}")
    if fn == "ddqn_per_loss":
        return  # per-sample weights are part of the batch: permutation check below would need permuted weights
    loss_fn = lambda q_, qt_, o, a, r, no, t, na: call(q_, qt_, o, a, r, no, t)[0]  # noqa: E731
    common_corollaries(bad, c, loss_fn, (q, qt), {} if fn == "dqn_loss" else {"q_target": 1}, False, fn)


def case_continuous(fn, c, bad):
    n_in = c.D + c.A
    key = jax.random.key(c.seed)
    alpha = 0.3
    delta = 0.7
    if fn == "ddpg_loss":
        q, qt, pit = mlp(n_in, 1, c.seed), mlp(n_in, 1, c.seed + 5), mlp(c.D, c.A, c.seed + 9)
    else:
        q, qt = dq(n_in, c.seed), dq(n_in, c.seed + 5)
    pol = TinyGaussian(mlp(c.D, c.A, c.seed + 11))

    def call(q_, qt_, pi_, obs, act, rew, nobs, term, nact):
        b = (obs, act, rew, nobs, term)
        if fn == "ddpg_loss":
            return LS.ddpg_loss(q_, qt_, pi_, b, c.gamma)
        if fn == "td3_loss":
            return LS.td3_loss(q_, qt_, nact, b, c.gamma)
        if fn == "td3_lap_loss":
            return LS.td3_lap_loss(q_, qt_, nact, b, c.gamma, delta)
        return LS.sac_loss(q_, qt_, pi_, key, alpha, b, c.gamma)

    pi_arg = pit if fn == "ddpg_loss" else pol
    out = call(q, qt, pi_arg, c.obs, c.act, c.rew, c.nobs, c.term, c.nact)
    xa = jnp.concatenate((c.obs, c.act), -1)
    if fn == "ddpg_loss":
        xn = jnp.concatenate((c.nobs, pit(c.nobs)), -1)
        boot = f64(qt(xn))[:, 0]
    elif fn == "sac_loss":
        na = pol.sample(c.nobs, key)
        xn = jnp.concatenate((c.nobs, na), -1)
        boot = np.minimum(f64(qt.q1(xn))[:, 0], f64(qt.q2(xn))[:, 0]) - alpha * f64(pol.log_probability(c.nobs, na))
    else:
        xn = jnp.concatenate((c.nobs, c.nact), -1)
        boot = np.minimum(f64(qt.q1(xn))[:, 0], f64(qt.q2(xn))[:, 0])
    y = f64(c.rew) + (1 - f64(c.term)) * c.gamma * boot
    if fn == "ddpg_loss":
        pred = f64(q(xa))[:, 0]
        loss, qm = out
        want, wantq = np.mean((pred - y) ** 2), pred.mean()
    else:
        p1, p2 = f64(q.q1(xa))[:, 0], f64(q.q2(xa))[:, 0]
        wantq = np.minimum(p1, p2).mean()
        if fn == "td3_lap_loss":
            loss, (qm, td) = out
            want = huber_ref(p1 - y, delta).mean() + huber_ref(p2 - y, delta).mean()
            if not close(td, np.maximum(np.abs(p1 - y), np.abs(p2 - y))):
                bad.append(f"{fn}: max_abs_td_error shape {np.shape(td)} / values differ from the documented per-sample maximum")
        else:
            loss, qm = out
            want = np.mean((p1 - y) ** 2) + np.mean((p2 - y) ** 2)
    if np.shape(loss) != () or not close(loss, want):
        bad.append(f"{fn}: loss {np.asarray(loss)} != documented {want}")
    if not close(qm, wantq):
        bad.append(f"{fn}: q_mean {float(qm)} != {wantq}")
    loss_fn = lambda q_, qt_, pi_, o, a, r, no, t, na: call(q_, qt_, pi_, o, a, r, no, t, na)[0]  # noqa: E731
    targets = {"q_target": 1}
    if fn in ("ddpg_loss", "sac_loss"):
        targets["the (target) policy of the bootstrap"] = 2
    if fn == "sac_loss":
        # the sampled noise is tied to the batch position: permutation invariance holds only up to the noise
        c.perm = np.arange(c.N)
    common_corollaries(bad, c, loss_fn, (q, qt, pi_arg), targets, True, fn)


def case_blocks(fn, c, bad):
    n_in = c.D + c.A
    y = jnp.asarray(c.r.normal(size=(c.N,)), jnp.float32)
    if fn == "mse_continuous_action_value_loss":
        q = mlp(n_in, 1, c.seed)
        loss, qm = LS.mse_continuous_action_value_loss(c.obs, c.act, y, q)
        pred = f64(q(jnp.concatenate((c.obs, c.act), -1)))[:, 0]
        if not close(loss, np.mean((pred - f64(y)) ** 2)) or not close(qm, pred.mean()):
            bad.append(f"{fn}: ({float(loss)}, {float(qm)}) != documented ({np.mean((pred - f64(y)) ** 2)}, {pred.mean()})")
    elif fn == "mse_discrete_action_value_loss":
        q = mlp(c.D, c.nA, c.seed)
        loss, qm = LS.mse_discrete_action_value_loss(c.obs, c.dact, y, q)
        pred = f64(q(c.obs))[np.arange(c.N), np.asarray(c.dact)]
        if not close(loss, np.mean((pred - f64(y)) ** 2)) or not close(qm, pred.mean()):
            bad.append(f"{fn}: ({float(loss)}, {float(qm)}) != documented ({np.mean((pred - f64(y)) ** 2)}, {pred.mean()})")
    elif fn == "_mse_clipped_double_q_loss":
        q = dq(n_in, c.seed)
        loss, qm = LS._mse_clipped_double_q_loss(y, q, c.act, c.obs)
        xa = jnp.concatenate((c.obs, c.act), -1)
        p1, p2 = f64(q.q1(xa))[:, 0], f64(q.q2(xa))[:, 0]
        want = np.mean((p1 - f64(y)) ** 2) + np.mean((p2 - f64(y)) ** 2)
        if np.shape(loss) != () or not close(loss, want) or not close(qm, np.minimum(p1, p2).mean()):
            bad.append(f"{fn}: ({np.asarray(loss)}, {float(qm)}) != documented ({want}, {np.minimum(p1, p2).mean()})")
    elif fn == "huber_loss":
        a = jnp.abs(jnp.asarray(c.r.normal(size=(c.N,)) * 2, jnp.float32))
        for d in (0.5, 1.0, 2.5):
            if not close(LS.huber_loss(a, d), huber_ref(f64(a), d)):
                bad.append(f"huber_loss(delta={d}) differs from the piecewise definition")
    elif fn == "masked_mse_loss":
        F = 3
        p = jnp.asarray(c.r.normal(size=(c.N, F)), jnp.float32)
        t = jnp.asarray(c.r.normal(size=(c.N, F)), jnp.float32)
        m = jnp.asarray(c.r.integers(0, 2, size=(c.N,)), jnp.float32)
        got = LS.masked_mse_loss(p, t, m)
        want = np.mean(f64(m)[:, None] * (f64(p) - f64(t)) ** 2)
        if not close(got, want):
            bad.append(f"masked_mse_loss 2-D: {float(got)} != {want}")
        p2 = jnp.where(m[:, None] == 0, p + 10.0, p)
        if not close(LS.masked_mse_loss(p2, t, m), got):
            bad.append(f"masked_mse_loss: masked rows contribute ({float(got)} vs {float(LS.masked_mse_loss(p2, t, m))})")
        # one feature per sample given as a vector (how model_based_encoder_loss calls it)
        got1 = LS.masked_mse_loss(p[:, 0], t[:, 0], m)
        want1 = np.mean(f64(m) * (f64(p[:, 0]) - f64(t[:, 0])) ** 2)
        if not close(got1, want1):
            bad.append(f"masked_mse_loss with 1-D predictions: {float(got1)} != per-sample masked mean {want1} (mask {np.asarray(m)})")
    elif fn == "ContinuousClippedDoubleQNet":
        q = dq(n_in, c.seed)
        xa = jnp.concatenate((c.obs, c.act), -1)
        if not close(q(xa), np.minimum(f64(q.q1(xa)), f64(q.q2(xa)))) or not close(q.mean(xa), 0.5 * (f64(q.q1(xa)) + f64(q.q2(xa)))):
            bad.append("ContinuousClippedDoubleQNet: __call__/mean differ from min / average of the two critics")


def case_td7(fn, c, bad):
    from rl_blox.algorithm.td7 import _sum_of_qnet_losses, td7_update_critic
    from rl_blox.blox.embedding.sale import SALE, CriticSALE, state_action_embedding_loss
    import optax

    Z, Hn = 4, 5
    rngs = nnx.Rngs(c.seed)

    def sale(seed):
        return SALE(mlp(c.D, Z, seed), mlp(Z + c.A, Z, seed + 1))

    def critic(seed):
        return ContinuousClippedDoubleQNet(CriticSALE(mlp(Hn + 2 * Z, 1, seed), c.D, c.A, Hn, nnx.Rngs(seed)),
                                           CriticSALE(mlp(Hn + 2 * Z, 1, seed + 1), c.D, c.A, Hn, nnx.Rngs(seed + 1)))

    delta = 0.8
    if fn == "state_action_embedding_loss":
        emb = sale(c.seed)
        got = state_action_embedding_loss(emb, c.obs, c.act, c.nobs)
        zsa, _ = emb(c.obs, c.act)
        want = np.mean((f64(zsa) - f64(emb.state_embedding(c.nobs))) ** 2)
        if not close(got, want):
            bad.append(f"{fn}: {float(got)} != documented {want}")
        g = grad_max(lambda e_, o, a, no: state_action_embedding_loss(e_, o, a, no), (emb, c.obs, c.act, c.nobs), 3)
        if g > 1e-12:
            bad.append(f"{fn}: the target embedding is not gradient-stopped")
        return
    emb, embt, cr, crt = sale(c.seed), sale(c.seed + 3), critic(c.seed + 5), critic(c.seed + 8)
    zsa, zs = emb(c.obs, c.act)
    xa = jnp.concatenate((c.obs, c.act), -1)
    p1, p2 = f64(cr.q1(xa, zsa=zsa, zs=zs))[:, 0], f64(cr.q2(xa, zsa=zsa, zs=zs))[:, 0]
    if fn == "_sum_of_qnet_losses":
        y = jnp.asarray(c.r.normal(size=(c.N,)), jnp.float32)
        loss, td = _sum_of_qnet_losses(c.obs, c.act, zsa, zs, y, delta, cr)
        want = huber_ref(p1 - f64(y), delta).mean() + huber_ref(p2 - f64(y), delta).mean()
        if not close(loss, want) or not close(td, np.maximum(np.abs(p1 - f64(y)), np.abs(p2 - f64(y)))):
            bad.append(f"{fn}: loss {float(loss)} != documented {want} (or td errors differ)")
        return
    qmin, qmax = -0.3, 0.4
    nzsa, nzs = embt(c.nobs, c.nact)
    xn = jnp.concatenate((c.nobs, c.nact), -1)
    boot = np.clip(np.minimum(f64(crt.q1(xn, zsa=nzsa, zs=nzs))[:, 0], f64(crt.q2(xn, zsa=nzsa, zs=nzs))[:, 0]), qmin, qmax)
    y = f64(c.rew) + (1 - f64(c.term)) * c.gamma * boot
    want = huber_ref(p1 - y, delta).mean() + huber_ref(p2 - y, delta).mean()
    before_t = jax.tree_util.tree_leaves(nnx.state(crt))
    opt = nnx.Optimizer(cr, optax.sgd(1e-2), wrt=nnx.Param)
    loss, td, yout = td7_update_critic(emb, embt, cr, crt, opt, c.gamma, c.obs, c.act, c.nobs, c.nact, c.rew, c.term, delta, qmin, qmax)
    if not close(yout, y):
        bad.append(f"{fn}: target {np.asarray(yout)} != documented {y}")
    if not close(loss, want) or not close(td, np.maximum(np.abs(p1 - y), np.abs(p2 - y))):
        bad.append(f"{fn}: loss {float(loss)} != documented {want} (or td errors differ)")
    if c.pattern == "all" and not close(yout, c.rew):
        bad.append(f"{fn}: terminated transitions carry a bootstrap term")
    after_t = jax.tree_util.tree_leaves(nnx.state(crt))
    if any(not np.array_equal(np.asarray(a), np.asarray(b)) for a, b in zip(before_t, after_t)):
        bad.append(f"{fn}: the target critic was modified")


def case_mrq(fn, c, bad):
    from rl_blox.algorithm.mrq import mrq_loss
    from rl_blox.blox.embedding.model_based_encoder import ModelBasedEncoder, model_based_encoder_loss
    from rl_blox.blox.preprocessing import make_two_hot_bins, two_hot_cross_entropy_loss, two_hot_decoding

    H = c.H
    N, D, A = c.N, c.D, c.A

    def enc(seed):
        return ModelBasedEncoder(D, A, n_bins=5, zs_dim=4, za_dim=3, zsa_dim=6, hidden_nodes=[8], activation="elu",
                                 encoder_activation_in_last_layer=False, rngs=nnx.Rngs(seed))

    e, et = enc(c.seed), enc(c.seed + 1)
    r = c.r
    rew = jnp.asarray(r.normal(size=(N, H)), jnp.float32)
    term = np.zeros((N, H), int)
    if c.pattern == "all":
        term[np.arange(N), r.integers(0, H, size=N)] = 1
    elif c.pattern == "mixed":
        term[0, 0] = 1
        if N > 2:
            term[2, H - 1] = 1
    term = jnp.asarray(term, jnp.int32)
    if fn == "mrq_loss":
        q, qt = dq(6, c.seed), dq(6, c.seed + 4)
        s, st = 1.7, 0.6

        def call(qt_, nobs, q_=None, e_=None, et_=None):
            return mrq_loss(q_ or q, qt_, e_ or e, et_ or et, c.nact, (c.obs, c.act, rew, nobs, term, jnp.zeros_like(term)), c.gamma, s, st)

        loss, (zs, qm, td) = call(qt, c.nobs)
        R, disc = np.zeros(N), np.ones(N)
        for t in range(H):
            R = R + disc * f64(rew[:, t])
            disc = disc * c.gamma * (1 - f64(term[:, t]))
        nz = et.encode_zsa(et.encode_zs(c.nobs), c.nact)
        boot = np.minimum(f64(qt.q1(nz))[:, 0], f64(qt.q2(nz))[:, 0])
        y = (R + disc * boot * st) / s
        z = e.encode_zsa(e.encode_zs(c.obs), c.act)
        p1, p2 = f64(q.q1(z))[:, 0], f64(q.q2(z))[:, 0]
        want = huber_ref(p1 - y, 1.0).mean() + huber_ref(p2 - y, 1.0).mean()
        if not close(loss, want) or not close(qm, np.minimum(p1, p2).mean()) or not close(td, np.maximum(np.abs(p1 - y), np.abs(p2 - y))):
            bad.append(f"{fn}: loss {float(loss)} != documented {want} (or aux outputs differ)")
        full = lambda q_, qt_, e_, et_, no: call(qt_, no, q_, e_, et_)[0]  # noqa: E731
        for nm, k in (("q_target", 1), ("encoder_target", 3), ("next_obs", 4)):
            g = grad_max(full, (q, qt, e, et, c.nobs), k)
            if g > 1e-12:
                bad.append(f"{fn}: gradient w.r.t. {nm} is {g:.3g}")
        if c.pattern == "all" and not close(call(qt, c.nobs2)[0], loss):
            bad.append(f"{fn}: every sub-trajectory terminates but the loss depends on next_obs")
        return
    bins = make_two_hot_bins(-2.0, 2.0, 5)
    Batch = namedtuple("Batch", ["observation", "action", "reward", "next_observation", "terminated", "truncated"])
    obs = jnp.asarray(r.normal(size=(N, H, D)), jnp.float32)
    act = jnp.asarray(r.normal(size=(N, H, A)), jnp.float32)
    nobs = jnp.asarray(r.normal(size=(N, H, D)), jnp.float32)
    batch = Batch(obs, act, rew, nobs, term, jnp.zeros_like(term))
    wd, wr, wt = 1.0, 0.1, 0.3
    for env_term in (True, False):
        for norm in (True, False):
            total, (dyn, rl, dl, rmse) = model_based_encoder_loss(e, et, bins, batch, H, wd, wr, wt, env_term, norm)
            m = np.ones(N)
            z = e.encode_zs(obs[:, 0])
            s_dyn = s_rew = s_done = s_rmse = 0.0
            for t in range(H):
                d_hat, z, logits = e.model_head(z, act[:, t])
                ztgt = et.encode_zs(nobs[:, t]) if norm else et.zs(nobs[:, t])
                s_dyn += np.mean(m[:, None] * (f64(z) - f64(ztgt)) ** 2)
                s_rew += np.mean(f64(two_hot_cross_entropy_loss(bins, logits, rew[:, t])) * m)
                if env_term:
                    s_done += np.mean(m * (f64(d_hat) - f64(term[:, t])) ** 2)
                r_hat = two_hot_decoding(bins, jax.nn.softmax(logits))
                s_rmse += np.mean(m * (f64(r_hat) - f64(rew[:, t])) ** 2)
                m = m * (1 - f64(term[:, t]))
            for nm, got, want in (("dynamics_loss", dyn, s_dyn), ("reward_loss", rl, s_rew), ("done_loss", dl, s_done), ("reward_mse", rmse, s_rmse),
                                  ("total", total, wd * s_dyn + wr * s_rew + wt * s_done)):
                if not close(got, want):
                    bad.append(f"{fn}[env_terminates={env_term}, normalize={norm}, terminated={np.asarray(term).tolist()}]: {nm} {float(got):.6f} != documented {want:.6f}")
    g = grad_max(lambda e_, et_: model_based_encoder_loss(e_, et_, bins, batch, H, wd, wr, wt, True, True)[0], (e, et), 1)
    if g > 1e-12:
        bad.append(f"{fn}: gradient w.r.t. the target encoder {g}")


DISCRETE = ("dqn_loss", "nature_dqn_loss", "ddqn_loss", "ddqn_per_loss")
CONT = ("ddpg_loss", "td3_loss", "td3_lap_loss", "sac_loss")
BLOCKS = ("mse_continuous_action_value_loss", "mse_discrete_action_value_loss", "_mse_clipped_double_q_loss", "huber_loss", "masked_mse_loss",
          "ContinuousClippedDoubleQNet")
TD7 = ("_sum_of_qnet_losses", "td7_update_critic", "state_action_embedding_loss")
MRQ = ("mrq_loss", "model_based_encoder_loss")


def run_case(fn, c, bad):
    if fn in DISCRETE:
        case_discrete(fn, c, bad)
    elif fn in CONT:
        case_continuous(fn, c, bad)
    elif fn in BLOCKS:
        case_blocks(fn, c, bad)
    elif fn in TD7:
        case_td7(fn, c, bad)
    elif fn in MRQ:
        case_mrq(fn, c, bad)
    else:
        return False
    return True


def main():
    p = load()
    m = model_of(p)
    task = p.get("task") or ""
    fn = task.split("[")[0]
    if fn == "avg_l1_norm":
        done(False, None, note="avg_l1_norm is covered by C18's replay")
    batch1 = "N=1" in task
    act1 = "D_act=1" in task
    hm = re.search(r"horizon=(\d+)", task)
    dims = dict(N=m.get("dim:N"), D=m.get("dim:D_obs"), A=m.get("dim:D_act"), nA=m.get("dim:n_actions"))
    sizes = []
    for N in ([1] if batch1 else [dims["N"] or 3, 2, 5]):
        sizes.append((N, dims["D"] or 3, 1 if act1 else (dims["A"] or 2), dims["nA"] or 3))
    tried = 0
    for (N, D, A, nA) in sizes:
        for pattern in ("mixed", "all", "none"):
            for seed in (0, 1):
                c = Ctx(N, D, A, nA, seed, pattern)
                c.H = int(hm.group(1)) if hm else 2
                bad = []
                try:
                    known = run_case(fn, c, bad)
                except Exception as e:  # a loud rejection
                    if batch1:
                        tried += 1
                        continue
                    done(True, dict(function=fn, dims=dict(N=N, D_obs=D, D_act=A, n_actions=nA), pattern=pattern, seed=seed,
                                    violated=[f"raises {type(e).__name__}: {str(e)[:200]}"]))
                if not known:
                    done(False, None, note=f"no native case for {fn}")
                tried += 1
                if bad:
                    done(True, dict(function=fn, dims=dict(N=N, D_obs=D, D_act=A, n_actions=nA), pattern=pattern, seed=seed, violated=bad[:6]))
    done(False, None, note=f"real {fn} agreed with the documented formula on {tried} batches (sizes {sizes}, termination patterns mixed/all/none)")


main()
