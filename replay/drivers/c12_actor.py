"""Replay for C12: run the REAL actor objectives of rl_blox with tiny real nnx
networks / real policy heads on concrete sizes taken from the verifier's
counter-model (keys "dim:N", "dim:D_obs", "dim:D_act"; tensor inputs such as
returns / advantages / old_logps / clip where the model fixes them) and on a
small bounded neighbourhood (several sizes and seeds), and compare the result
with a float64 numpy re-computation of the DOCUMENTED formula (log-probabilities,
entropies, critic and Q outputs are read from the real components).

Checked natively: ppo_loss (critic outputs (N,) and (N,1)),
stochastic_policy_gradient_pseudo_loss (+ reinforce / actor-critic / a2c
gradients against a jax reference with constant weights),
deterministic_policy_gradient_loss, mse_value_loss, sac_actor_loss,
sac_exploration_loss / _update_entropy_coefficient (sign of the alpha step).
"""
import os
import sys
import warnings

warnings.filterwarnings("ignore")
sys.path.insert(0, os.path.dirname(__file__))
from _common import done, load, model_of, num

import gymnasium as gym
import jax
import jax.numpy as jnp
import numpy as np
import optax
from flax import nnx

from rl_blox.blox.double_qnet import ContinuousClippedDoubleQNet
from rl_blox.blox.function_approximator.gaussian_mlp import GaussianMLP
from rl_blox.blox.function_approximator.mlp import MLP
from rl_blox.blox.function_approximator.policy_head import DeterministicTanhPolicy, GaussianTanhPolicy, SoftmaxPolicy

RTOL = 2e-4
ATOL = 2e-5


class Flat(nnx.Module):
    """value network with outputs of shape (N,)"""

    def __init__(self, net):
        self.net = net

    def __call__(self, x):
        return self.net(x).squeeze(-1)


def close(a, b):
    return bool(np.allclose(np.asarray(a, dtype=np.float64), np.asarray(b, dtype=np.float64), rtol=RTOL, atol=ATOL))


def tensor_from_model(raw, name, n, default):
    """vector input fixed by the counter-model (entries missing -> default)"""
    t = raw.get(name)
    out = np.array(default, dtype=np.float64)
    if isinstance(t, dict) and "entries" in t:
        for k, v in t["entries"].items():
            try:
                i = int(k)
            except ValueError:
                continue
            if i < n:
                x = num(v, None)
                if x is not None:
                    out[i] = float(x)
    return out


def box(A):
    return gym.spaces.Box(low=-2.0 * np.ones(A, dtype=np.float32), high=np.ones(A, dtype=np.float32))


def stochastic_heads(D, A, seed):
    """(name, policy, action sampler)"""
    rng = np.random.default_rng(seed)
    K = max(2, A)
    soft = SoftmaxPolicy(MLP(D, K, [8], "tanh", nnx.Rngs(seed)))
    gt = GaussianTanhPolicy(GaussianMLP(False, D, A, [8], "tanh", nnx.Rngs(seed + 1)), box(A))
    return [
        ("softmax", soft, lambda n: jnp.asarray(rng.integers(0, K, size=n))),
        ("gaussian_tanh", gt, lambda n: jnp.asarray(rng.normal(size=(n, A)), dtype=jnp.float32)),
    ]


# ------------------------------------------------------------------ ppo_loss
def check_ppo(N, D, A, seed, fixed):
    from rl_blox.algorithm.ppo import ppo_loss

    bad = []
    rng = np.random.default_rng(seed)
    obs = jnp.asarray(rng.normal(size=(N, D)), dtype=jnp.float32)
    for head, actor, draw in stochastic_heads(D, A, seed):
        act = draw(N)
        logp = np.asarray(actor.log_probability(obs, act), dtype=np.float64)
        if logp.shape != (N,):
            continue
        ent_raw = np.asarray(actor.entropy(obs), dtype=np.float64)
        old = fixed.get("old") if fixed.get("old") is not None else logp + rng.normal(scale=0.4, size=N)
        adv = fixed.get("adv") if fixed.get("adv") is not None else rng.normal(size=N)
        ret = fixed.get("ret") if fixed.get("ret") is not None else rng.normal(size=N) * 2
        eps = fixed.get("eps") or 0.2
        for cshape in fixed.get("cshapes") or ("(N,)", "(N,1)"):
            mlp = MLP(D, 1, [8], "tanh", nnx.Rngs(seed + 7))
            critic = Flat(mlp) if cshape == "(N,)" else mlp
            try:
                got = float(ppo_loss(actor, critic, jnp.asarray(old, dtype=jnp.float32), obs, act, jnp.asarray(adv, dtype=jnp.float32),
                                     jnp.asarray(ret, dtype=jnp.float32), eps))
            except Exception as e:  # noqa: BLE001
                bad.append(dict(function="ppo_loss", head=head, critic=cshape, N=N, raised=f"{type(e).__name__}: {e}"[:200]))
                continue
            v = np.asarray(mlp(obs), dtype=np.float64)[:, 0]
            r = np.exp(logp - old)
            phi = np.minimum(r * adv, np.clip(r, 1 - eps, 1 + eps) * adv)
            value_term = np.mean((ret - v) ** 2)  # (1/N) sum_i (R_i - V(o_i))^2
            want = -np.mean(phi) + 0.5 * value_term - 0.01 * np.mean(ent_raw)
            if not close(got, want):
                vb = np.mean((ret[None, :] - v[:, None]) ** 2)
                bad.append(dict(function="ppo_loss", head=head, critic_output_shape=cshape, N=N, seed=seed, clip=eps, ppo_loss=got, documented=float(want),
                                value_term_documented=float(value_term), value_term_as_NxN_broadcast=float(vb),
                                matches_NxN_broadcast=close(got, -np.mean(phi) + 0.5 * vb - 0.01 * np.mean(ent_raw)),
                                returns=[float(x) for x in ret], values=[float(x) for x in v]))
    return bad


# ------------------------------------------------------ stochastic pseudo-loss
def check_pseudo(N, D, A, seed, fixed):
    from rl_blox.algorithm.a2c import a2c_policy_gradient
    from rl_blox.algorithm.actor_critic import actor_critic_policy_gradient
    from rl_blox.algorithm.reinforce import reinforce_gradient
    from rl_blox.blox.losses import stochastic_policy_gradient_pseudo_loss

    bad = []
    rng = np.random.default_rng(seed)
    obs = jnp.asarray(rng.normal(size=(N, D)), dtype=jnp.float32)
    nobs = jnp.asarray(rng.normal(size=(N, D)), dtype=jnp.float32)
    for head, pol, draw in stochastic_heads(D, A, seed):
        act = draw(N)
        logp = np.asarray(pol.log_probability(obs, act), dtype=np.float64)
        if logp.shape != (N,):
            continue
        w = fixed.get("w") if fixed.get("w") is not None else rng.normal(size=N)
        wj = jnp.asarray(w, dtype=jnp.float32)
        got = float(stochastic_policy_gradient_pseudo_loss(obs, act, wj, pol))
        want = -np.mean(w * logp)
        if not close(got, want):
            bad.append(dict(function="stochastic_policy_gradient_pseudo_loss", head=head, N=N, got=got, documented=float(want)))
        # weights of shape (N,1) must be rejected
        try:
            stochastic_policy_gradient_pseudo_loss(obs, act, wj[:, None], pol)
            if N > 1:
                bad.append(dict(function="stochastic_policy_gradient_pseudo_loss", head=head, N=N, note="weights (N,1) accepted silently"))
        except Exception:  # noqa: BLE001
            pass

        # gradients: weights are constants, gradient is w.r.t. the policy
        def ref(p, weights):
            return -jnp.mean(jax.lax.stop_gradient(weights) * p.log_probability(obs, act))

        def same_grads(g1, g2):
            l1 = jax.tree.leaves(nnx.state(g1) if not isinstance(g1, nnx.State) else g1)
            l2 = jax.tree.leaves(nnx.state(g2) if not isinstance(g2, nnx.State) else g2)
            return len(l1) == len(l2) and all(close(a, b) for a, b in zip(l1, l2))

        vf = MLP(D, 1, [8], "tanh", nnx.Rngs(seed + 3))
        ret = jnp.asarray(rng.normal(size=N), dtype=jnp.float32)
        gdisc = jnp.asarray(0.9 ** np.arange(N), dtype=jnp.float32)
        rew = jnp.asarray(rng.normal(size=N), dtype=jnp.float32)
        cases = [
            ("reinforce_gradient", lambda: reinforce_gradient(pol, vf, obs, act, ret, gdisc), (ret - vf(obs).squeeze()) * gdisc),
            ("reinforce_gradient[no baseline]", lambda: reinforce_gradient(pol, None, obs, act, ret, None), ret),
            ("actor_critic_policy_gradient", lambda: actor_critic_policy_gradient(pol, vf, obs, act, nobs, rew, gdisc, 0.97),
             gdisc * (rew + 0.97 * vf(nobs).squeeze() - vf(obs).squeeze())),
            ("a2c_policy_gradient", lambda: a2c_policy_gradient(pol, obs, act, ret), ret),
        ]
        for fname, run, weights in cases:
            if N == 1 and "no baseline" not in fname and fname != "a2c_policy_gradient":
                continue  # squeeze() of a (1,1) baseline: rejected by chex (loud) - not a value mismatch
            try:
                loss, grad = run()
            except Exception as e:  # noqa: BLE001
                bad.append(dict(function=fname, head=head, N=N, raised=f"{type(e).__name__}: {e}"[:200]))
                continue
            rl, rg = nnx.value_and_grad(ref)(pol, weights)
            if not close(loss, rl) or not close(loss, -np.mean(np.asarray(weights, dtype=np.float64) * logp)):
                bad.append(dict(function=fname, head=head, N=N, loss=float(loss), documented=float(rl)))
            elif not same_grads(grad, rg):
                bad.append(dict(function=fname, head=head, N=N, note="gradient differs from the gradient with constant weights w.r.t. the policy"))
    return bad


# ------------------------------------------------------------- DPG / value
def check_dpg(N, D, A, seed, fixed):
    from rl_blox.blox.losses import deterministic_policy_gradient_loss, mse_value_loss

    bad = []
    rng = np.random.default_rng(seed)
    obs = jnp.asarray(rng.normal(size=(N, D)), dtype=jnp.float32)
    q = MLP(D + A, 1, [8], "tanh", nnx.Rngs(seed))
    for head, pol in (("mlp", MLP(D, A, [8], "tanh", nnx.Rngs(seed + 1))),
                      ("deterministic_tanh", DeterministicTanhPolicy(MLP(D, A, [8], "tanh", nnx.Rngs(seed + 2)), box(A)))):
        got = float(deterministic_policy_gradient_loss(q, obs, pol))
        a = np.asarray(pol(obs))
        qv = np.asarray(q(jnp.concatenate((obs, jnp.asarray(a)), axis=-1)), dtype=np.float64)[:, 0]
        want = -np.mean(qv)
        if not close(got, want):
            bad.append(dict(function="deterministic_policy_gradient_loss", head=head, N=N, got=got, documented=float(want)))
    if N >= 2:
        v = MLP(D, 1, [8], "tanh", nnx.Rngs(seed + 5))
        tgt = rng.normal(size=N)
        got = float(mse_value_loss(obs, jnp.asarray(tgt, dtype=jnp.float32), v))
        want = np.sum((np.asarray(v(obs), dtype=np.float64)[:, 0] - tgt) ** 2) / (2 * N)
        if not close(got, want):
            bad.append(dict(function="mse_value_loss", N=N, got=got, documented=float(want)))
    return bad


# ------------------------------------------------------------- TD7 (SALE)
def check_td7_sale(N, D, A, seed, fixed):
    """value AND gradient of the TD7 actor loss against the documented  -mean 0.5 (Q1 + Q2)(o, a, g(f(o), a), f(o)),
    a = pi(o, f(o)), differentiated w.r.t. the actor only (reference written out here, jax autodiff of the reference)"""
    from rl_blox.algorithm.td7 import deterministic_policy_gradient_loss_sale
    from rl_blox.blox.embedding.sale import SALE, ActorSALE, CriticSALE

    bad = []
    Z, H = 4, 5
    rng = np.random.default_rng(seed)
    obs = jnp.asarray(rng.normal(size=(N, D)), dtype=jnp.float32)
    emb = SALE(MLP(D, Z, [6], "tanh", nnx.Rngs(seed)), MLP(Z + A, Z, [6], "tanh", nnx.Rngs(seed + 1)))
    actor = ActorSALE(MLP(H + Z, A, [6], "tanh", nnx.Rngs(seed + 2)), D, H, nnx.Rngs(seed + 3))
    c1 = CriticSALE(MLP(H + 2 * Z, 1, [6], "tanh", nnx.Rngs(seed + 4)), D, A, H, nnx.Rngs(seed + 5))
    c2 = CriticSALE(MLP(H + 2 * Z, 1, [6], "tanh", nnx.Rngs(seed + 6)), D, A, H, nnx.Rngs(seed + 7))
    critic = ContinuousClippedDoubleQNet(c1, c2)

    def ref(emb_, c1_, c2_, obs_, actor_):
        zs = emb_.state_embedding(obs_)
        a = actor_(obs_, zs)
        zsa = emb_.state_action_embedding(jnp.concatenate((zs, a), axis=-1))
        oa = jnp.concatenate((obs_, a), axis=-1)
        return -jnp.mean(0.5 * (c1_(oa, zsa, zs) + c2_(oa, zsa, zs)))

    lv, lg = nnx.value_and_grad(deterministic_policy_gradient_loss_sale, argnums=3)(emb, critic, obs, actor)
    rv, rg = nnx.value_and_grad(ref, argnums=4)(emb, c1, c2, obs, actor)
    if not close(float(lv), float(rv)):
        bad.append(dict(function="deterministic_policy_gradient_loss_sale", N=N, got=float(lv), documented=float(rv)))
    la, ra = jax.tree_util.tree_leaves(lg), jax.tree_util.tree_leaves(rg)
    num_, den_ = sum(float(jnp.sum((x - y) ** 2)) for x, y in zip(la, ra)), sum(float(jnp.sum(y ** 2)) for y in ra)
    rel = (num_ / den_) ** 0.5 if den_ > 0 else (0.0 if num_ == 0 else float("inf"))
    if len(la) != len(ra) or rel > 1e-3:
        bad.append(dict(function="deterministic_policy_gradient_loss_sale", N=N, clause="gradient w.r.t. the actor != gradient of the documented loss",
                        relative_error=rel, loss_value=float(lv)))
    return bad


# ----------------------------------------------------------------------- SAC
def check_sac(N, D, A, seed, fixed):
    from rl_blox.algorithm.sac import EntropyCoefficient, _update_entropy_coefficient, sac_actor_loss, sac_exploration_loss

    bad = []
    rng = np.random.default_rng(seed)
    obs = jnp.asarray(rng.normal(size=(N, D)), dtype=jnp.float32)
    pol = GaussianTanhPolicy(GaussianMLP(False, D, A, [8], "tanh", nnx.Rngs(seed)), box(A))
    q = ContinuousClippedDoubleQNet(MLP(D + A, 1, [8], "tanh", nnx.Rngs(seed + 1)), MLP(D + A, 1, [8], "tanh", nnx.Rngs(seed + 2)))
    key = jax.random.key(seed)
    alpha = float(abs(rng.normal())) + 0.05
    a = pol.sample(obs, key)
    logp = np.asarray(pol.log_probability(obs, a), dtype=np.float64)
    oa = jnp.concatenate((obs, a), axis=-1)
    qmin = np.minimum(np.asarray(q.q1(oa), dtype=np.float64)[:, 0], np.asarray(q.q2(oa), dtype=np.float64)[:, 0])
    got = float(sac_actor_loss(pol, q, alpha, key, obs))
    want = np.mean(alpha * logp - qmin)
    if not close(got, want):
        bad.append(dict(function="sac_actor_loss", N=N, got=got, documented=float(want)))
    # temperature: L = -exp(lambda) * mean(log pi + H_target); a descent step raises alpha iff -mean(log pi) < H_target
    est = -float(np.mean(logp))
    for h_target in (est - 0.7, est + 0.7):
        coef = EntropyCoefficient(jnp.asarray([float(rng.normal() * 0.3)]))
        lam = float(coef.log_alpha.value[0])
        got = float(sac_exploration_loss(pol, h_target, key, obs, coef))
        want = -np.exp(lam) * np.mean(logp + h_target)
        if not close(got, want):
            bad.append(dict(function="sac_exploration_loss", N=N, got=got, documented=float(want)))
        for tx_name, tx in (("sgd", optax.sgd(1e-2)), ("adam", optax.adam(1e-2))):
            coef2 = EntropyCoefficient(jnp.asarray([lam]))
            opt = nnx.Optimizer(coef2, tx, wrt=nnx.Param)
            a0 = float(coef2()[0])
            _update_entropy_coefficient(opt, pol, h_target, key, obs, coef2)
            a1 = float(coef2()[0])
            if (a1 > a0) != (est < h_target):
                bad.append(dict(function="_update_entropy_coefficient", optimizer=tx_name, N=N, alpha_before=a0, alpha_after=a1,
                                entropy_estimate=est, target_entropy=h_target))
    return bad


CHECKS = [
    ("ppo_loss", check_ppo),
    ("stochastic_policy_gradient_pseudo_loss", check_pseudo),
    ("reinforce_gradient", check_pseudo),
    ("actor_critic_policy_gradient", check_pseudo),
    ("a2c_policy_gradient", check_pseudo),
    ("train_policy_a2c", check_pseudo),
    ("deterministic_policy_gradient_loss_sale", check_td7_sale),
    ("td7_update_actor", check_td7_sale),
    ("deterministic_policy_gradient_loss", check_dpg),
    ("ddpg_update_actor", check_dpg),
    ("mse_value_loss", check_dpg),
    ("sac_actor_loss", check_sac),
    ("sac_update_actor", check_sac),
    ("sac_exploration_loss", check_sac),
    ("_update_entropy_coefficient", check_sac),
    ("EntropyControl", check_sac),
    ("EntropyCoefficient", check_sac),
]


def main():
    p = load()
    m = model_of(p)
    raw = (p.get("verifier_output") or {}).get("model") or {}
    task = p.get("task") or p.get("obligation", "").split("C12.", 1)[-1]
    fn = None
    for pref, f in CHECKS:
        if task.startswith(pref):
            fn = f
            break
    if fn is None:
        done(False, None, note=f"no native check for task {task!r} (TD7 / MR.Q objectives are checked symbolically only)")
    dim = lambda k, d: int(m.get(f"dim:{k}")) if isinstance(m.get(f"dim:{k}"), (int, float)) else d  # noqa: E731
    N0, D0, A0 = dim("N", 3), dim("D_obs", 3), dim("D_act", 2)
    if "batch 1" in task:
        N0 = 1
    fixed = dict(
        old=tensor_from_model(raw, "old_logps", N0, np.zeros(N0)) if "old_logps" in raw else None,
        adv=(np.zeros(N0) if "value_term" in task else (tensor_from_model(raw, "advantages", N0, np.zeros(N0)) if "advantages" in raw else None)),
        ret=tensor_from_model(raw, "returns", N0, np.zeros(N0)) if "returns" in raw else None,
        w=tensor_from_model(raw, "weight", N0, np.zeros(N0)) if "weight" in raw else None,
        eps=float(m["clip"]) if isinstance(m.get("clip"), (int, float)) and 0 < m["clip"] < 1 else None,
    )
    # the critic-output scenario of the failed task (both when the task does not fix one)
    cshapes = ("(N,1)",) if "(N,1)" in task else (("(N,)",) if task.startswith("ppo_loss") else None)
    fixed["cshapes"] = cshapes
    # the counter-model itself (sizes and the tensor inputs it fixes; network parameters are uninterpreted there)
    bad = fn(N0, D0, A0, 0, fixed)
    if bad:
        done(True, dict(source="counter-model sizes/inputs", sizes=dict(N=N0, D_obs=D0, D_act=A0), violated=bad[:3]))
    # bounded neighbourhood: sizes x seeds with random inputs
    for N in sorted({N0, 2, 3, 5} if "batch 1" not in task else {1}):
        for seed in (1, 2, 3):
            bad = fn(N, D0, A0, seed, dict(cshapes=cshapes))
            if bad:
                done(True, dict(source="bounded neighbourhood", sizes=dict(N=N, D_obs=D0, D_act=A0), seed=seed, violated=bad[:3]))
    done(False, None, note="real functions matched the documented formulas on the counter-model sizes and the bounded neighbourhood")


main()
