"""Replay for C15: run the real assess_performance_and_checkpoint on the
verifier's counter-model (and, if that does not fail, on a bounded search
around it) and evaluate the property's clauses natively."""
import itertools
import os
import sys

sys.path.insert(0, os.path.dirname(__file__))
from _common import done, load, model_of

from rl_blox.blox.checkpointing import CheckpointState, assess_performance_and_checkpoint

INF = 1e8


def check(eps, ts, mx, mn, best, spe, ret, epoch, rw, mxc, sbc):
    cs = CheckpointState(eps, ts, mx, mn, best)
    upd, tr = assess_performance_and_checkpoint(cs, spe, ret, epoch, rw, mxc, sbc)
    W = ts + spe
    wmin = min(mn, ret)
    cut = ret < best
    complete = eps + 1 == mx
    release = cut or complete
    switch = release and epoch < sbc <= epoch + W
    bad = []
    if release != (tr > 0):
        bad.append("release.iff")
    if release and tr != W:
        bad.append(f"released {tr} iterations for {W} collected steps")
    if not release and tr != 0:
        bad.append("iterations released without a release condition")
    if release and (cs.episodes_since_udpate, cs.timesteps_since_upate, cs.min_return) != (0, 0, INF):
        bad.append("counters not reset")
    if not release and (cs.episodes_since_udpate, cs.timesteps_since_upate, cs.min_return) != (eps + 1, W, wmin):
        bad.append("counters do not accumulate")
    if upd != (complete and wmin >= best):
        bad.append("checkpoint update condition")
    exp_best = (wmin if upd else best) * (rw if switch else 1)
    if abs(cs.best_min_return - exp_best) > 1e-9 * max(1, abs(exp_best)):
        bad.append("best_min_return")
    if cs.max_episodes_before_update != (mxc if switch else mx):
        bad.append("window switch")
    return bad


def main():
    p = load()
    m = model_of(p)
    g = lambda k, d: m.get(k) if m.get(k) is not None else d  # noqa: E731
    base = dict(eps=g("episodes_since_update", 0), ts=g("timesteps_since_update", 0), mx=g("max_episodes_before_update", 1),
                mn=g("min_return", INF), best=g("best_min_return", -INF), spe=g("steps_per_episode", 1), ret=g("episode_return", 0.0),
                epoch=g("epoch", 0), rw=g("reset_weight", 0.9), mxc=g("max_episodes_when_checkpointing", 20), sbc=g("steps_before_checkpointing", 10))
    bad = check(**base)
    if bad:
        done(True, dict(inputs=base, violated=bad))
    # bounded search on the real function (precondition CWF respected)
    for eps, mx, ts_extra, spe, ret, best, mn, epoch, sbc in itertools.product(
            range(0, 6), range(1, 7), range(0, 3), (1, 2, 5), (-1.0, 0.5, 2.0), (-INF, 0.0, 1.0), (INF, 0.5, 1.5), (0, 3, 9), (5, 10)):
        if not (eps < mx and mn >= best):
            continue
        a = dict(eps=eps, ts=eps + ts_extra, mx=mx, mn=mn, best=best, spe=spe, ret=ret, epoch=epoch, rw=0.5, mxc=4, sbc=sbc)
        bad = check(**a)
        if bad:
            done(True, dict(inputs=a, violated=bad))
    done(False, None, note="real function satisfied every clause on the counter-model and on the bounded neighbourhood")


main()
