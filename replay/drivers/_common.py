"""helpers for replay drivers (run under /venv/bin/python against /repo)"""
import json
import sys
from fractions import Fraction


def load():
    return json.loads(sys.stdin.read())


def num(s, default=0):
    if s is None:
        return default
    s = str(s).strip().replace("?", "")
    if s in ("True", "False"):
        return s == "True"
    try:
        if "/" in s:
            return float(Fraction(s))
        if "." in s or "e" in s:
            return float(s)
        return int(s)
    except ValueError:
        try:
            return float(Fraction(s))
        except Exception:
            return default


def model_of(payload):
    m = (payload.get("verifier_output") or {}).get("model") or {}
    return {k: num(v, None) for k, v in m.items()}


def done(reproduced, witness=None, **kw):
    print(json.dumps(dict(reproduced=bool(reproduced), witness=witness, **kw), default=str))
    sys.exit(0)
