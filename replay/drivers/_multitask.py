"""Native bounded check of the multi-task clauses of C02 / C08 on the REAL
MultiTaskReplayBuffer wrapping REAL ReplayBuffer / LAP / PrioritizedReplayBuffer
instances (used by the drivers c02_buffers and c08_priority for obligations whose
name contains "MultiTaskReplayBuffer"; see contracts/multitask.py for the clauses).

Reference model: per task the list of transition ids added to it (every stored
transition carries a globally unique id in every field), the selected task, and
- identified from the DATA of the returned batch, never from the wrapper's
bookkeeping - the task and slots of the most recently sampled batch.

After every operation of a history:
  * buffer t holds exactly the most recent min(n_t, N) transitions added to task t
    (=> additions go only to the selected task; the per-task copies are independent);
  * len(wrapper) == sum_t min(n_t, N);
  * active_buffers == {t | n_t > 0}  (representation invariant; in particular a task
    that was only selected is not active, and task 0 is active after an addition
    without any select_task call);
  * select_task(id) with id outside [0, n_tasks) raises ValueError and changes nothing;
  * sample_batch: raises when no task has data, otherwise succeeds; all rows are whole
    transitions of ONE task that has data, inside that task's retained window; the batch
    has the requested number of rows; the task is drawn with the caller's generator
    (one `choice` over exactly the tasks with data) and the same generator is used for
    the rows;
  * update_priority(p): in the buffer of the task that produced the most recent batch
    every slot of that batch holds one of the values supplied for it and every other
    slot is bit-identical; the priority arrays and max_priority of EVERY OTHER task
    are bit-identical; stored transitions untouched;
  * reset_max_priority(): for every task with data max_priority == max(priority[:len]).
Histories: directed scenarios (default task, selected-but-empty task, update after
re-selection, stale maxima in every task) and seeded random walks over
{select, select-invalid, add, sample, update, reset} for 1..3 tasks, capacities 1..3.
"""
import time

import numpy as np

from rl_blox.blox.replay_buffer import LAP, MultiTaskReplayBuffer, PrioritizedReplayBuffer, ReplayBuffer


class Violation(Exception):
    def __init__(self, clause, what):
        super().__init__(what)
        self.clause, self.what = clause, what


class RecRng:
    """a real numpy Generator behind a recording proxy: which generator methods the code consulted"""

    def __init__(self, seed):
        self._g = np.random.default_rng(seed)
        self.calls = []

    def __getattr__(self, name):
        f = getattr(self._g, name)

        def wrapped(*a, **k):
            r = f(*a, **k)
            self.calls.append((name, a, k, r))
            return r
        return wrapped


def trans(j):
    return dict(observation=np.array([j, j + 0.25]), action=np.array([j + 0.5]), reward=float(j), next_observation=np.array([j + 0.75, j]), termination=j % 2)


def row_ids(batch, r):
    return {int(np.floor(float(np.asarray(batch.observation)[r][0]))), int(np.floor(float(np.asarray(batch.action)[r][0]))),
            int(float(np.asarray(batch.reward)[r])), int(np.floor(float(np.asarray(batch.next_observation)[r][1])))}


class Model:
    def __init__(self, cls, n_tasks, N):
        self.cls, self.n, self.N = cls, n_tasks, N
        self.mt = MultiTaskReplayBuffer(cls(N), n_tasks)
        self.ref = [[] for _ in range(n_tasks)]
        self.selected = 0
        self.next_id = 0
        self.last = None  # (task, [slot per row]) of the most recent batch
        self.ops = [f"MultiTaskReplayBuffer({cls.__name__}({N}), n_tasks={n_tasks})"]
        self.prioritized = cls is not ReplayBuffer
        self.soft = None  # first violation of the (white-box) active-set invariant: reported unless an observable clause fails first
        self.invariants("init")

    # ------------------------------------------------------------ helpers
    def held(self, t):
        b = self.mt.buffers[t]
        return [int(x) for x in np.asarray(b.buffer["reward"][: len(b)])]

    def window(self, t):
        return self.ref[t][max(0, len(self.ref[t]) - self.N):]

    def prios(self):
        if not self.prioritized:
            return None
        return [(np.array(b.priority.priority, copy=True), float(b.priority.max_priority)) for b in self.mt.buffers]

    def invariants(self, after):
        mt = self.mt
        if len(set(map(id, mt.buffers))) != self.n or len(mt.buffers) != self.n:
            raise Violation("init.one_buffer_per_task", f"{len(mt.buffers)} buffers / {len(set(map(id, mt.buffers)))} distinct objects for {self.n} tasks")
        for t in range(self.n):
            if sorted(self.held(t)) != sorted(self.window(t)):
                raise Violation("add.stored_in_selected_task", f"after {after}: buffer of task {t} holds transitions {sorted(self.held(t))}, the reference model (additions to task {t}, capacity {self.N}) holds {sorted(self.window(t))}")
        want = sum(min(len(r), self.N) for r in self.ref)
        if len(mt) != want:
            raise Violation("len.is_sum_of_task_buffer_lengths", f"after {after}: len = {len(mt)}, sum of per-task lengths = {want}")
        act = {t for t in range(self.n) if self.ref[t]}
        if set(mt.active_buffers) != act and self.soft is None:
            self.soft = Violation("inv.active_iff_task_has_data", f"after {after}: active_buffers = {sorted(mt.active_buffers)}, tasks that received data = {sorted(act)}")

    # ------------------------------------------------------------ operations
    def select(self, t):
        self.ops.append(f"select_task({t})")
        if 0 <= t < self.n:
            self.mt.select_task(t)
            self.selected = t
        else:
            try:
                self.mt.select_task(t)
            except ValueError:
                pass
            else:
                raise Violation("select.accepts_only_valid_ids", f"select_task({t}) accepted with {self.n} tasks")
        self.invariants(self.ops[-1])

    def add(self):
        j = self.next_id
        self.next_id += 1
        self.ops.append(f"add_sample(id={j}) [selected task {self.selected}]")
        self.mt.add_sample(**trans(j))
        self.ref[self.selected].append(j)
        self.invariants(self.ops[-1])

    def sample(self, bs, seed, kwargs_style):
        rng = RecRng(seed)
        has_data = [t for t in range(self.n) if self.ref[t]]
        beta = {"beta": 0.4} if self.cls is PrioritizedReplayBuffer and kwargs_style else {}
        self.ops.append(f"sample_batch({bs}, {'rng=rng' if kwargs_style else 'rng'}{', beta=0.4' if beta else ''})")
        try:
            out = self.mt.sample_batch(bs, rng=rng, **beta) if kwargs_style else self.mt.sample_batch(bs, rng)
        except Exception as e:
            if not has_data:
                self.invariants(self.ops[-1])
                return
            raise Violation("sample.succeeds_when_some_task_has_data", f"sample_batch raised {type(e).__name__}: {e} although tasks {has_data} have data (active_buffers = {sorted(self.mt.active_buffers)})")
        if not has_data:
            raise Violation("sample.no_data_rejected", "sample_batch returned a batch although no task has data")
        batch = out[0] if isinstance(out, tuple) and not hasattr(out, "_fields") else out
        rows = np.asarray(batch.reward).shape[0]
        if rows != bs:
            raise Violation("sample.remaining_arguments_passed_unmodified", f"requested {bs} rows, got {rows}")
        ids = []
        for r in range(rows):
            s = row_ids(batch, r)
            if len(s) != 1:
                raise Violation("sample.batch_from_exactly_one_task_buffer", f"row {r} mixes transitions {sorted(s)}")
            ids.append(next(iter(s)))
        owners = {t for t in range(self.n) for i in ids if i in self.ref[t]}
        if len(owners) != 1:
            raise Violation("sample.batch_from_exactly_one_task_buffer", f"batch rows {ids} belong to tasks {sorted(owners)}")
        T = next(iter(owners))
        if not set(ids) <= set(self.window(T)):
            raise Violation("sample.sampled_task_has_data", f"rows {ids} are not among the retained transitions {self.window(T)} of task {T}")
        ch = [c for c in rng.calls if c[0] == "choice"]
        if len(ch) != 1 or sorted(int(x) for x in ch[0][1][0]) != has_data:
            raise Violation("sample.task_drawn_among_active_tasks", f"Generator.choice calls on the caller's generator: {[(c[1], c[2]) for c in ch]}; tasks with data {has_data}")
        if int(np.asarray(ch[0][3]).reshape(-1)[0]) != T:
            raise Violation("sample.batch_from_the_drawn_task", f"generator drew task {ch[0][3]}, batch came from task {T}")
        if not [c for c in rng.calls if c[0] != "choice"]:
            raise Violation("sample.same_generator_passed_on", "the rows were not drawn with the caller's generator")
        held = self.held(T)
        self.last = (T, [held.index(i) for i in ids])
        self.invariants(self.ops[-1])

    def update(self, values):
        if not self.prioritized or self.last is None:
            return
        T, slots = self.last
        p = np.asarray(values[: len(slots)], dtype=float)
        self.ops.append(f"update_priority({p.tolist()}) [last batch: task {T}, slots {slots}; selected task {self.selected}]")
        before = self.prios()
        data = [self.held(t) for t in range(self.n)]
        try:
            self.mt.update_priority(p)
        except Exception as e:
            raise Violation("update.goes_to_task_of_last_sampled_batch", f"update_priority raised {type(e).__name__}: {e} for the batch just sampled from task {T} (slots {slots}) while task {self.selected} is selected")
        after = self.prios()
        for t in range(self.n):
            pb, mb = before[t]
            pa, ma = after[t]
            if t != T:
                if not (np.array_equal(pb, pa) and mb == ma):
                    changed = [i for i in range(len(pb)) if pb[i] != pa[i]]
                    raise Violation("update.goes_to_task_of_last_sampled_batch", f"the last batch came from task {T} (slots {slots}) but priorities of task {t} changed at slots {changed} (max_priority {mb} -> {ma})")
                continue
            ln = len(self.mt.buffers[t])
            for s in range(ln):
                sup = [float(p[q]) for q in range(len(slots)) if slots[q] == s]
                if sup and float(pa[s]) not in sup:
                    raise Violation("update.goes_to_task_of_last_sampled_batch", f"slot {s} of task {T} belongs to the last batch (supplied {sup}) but holds priority {float(pa[s])} (before: {float(pb[s])})")
                if not sup and pa[s] != pb[s]:
                    raise Violation("update.frame.other_slots", f"slot {s} of task {T} is not in the last batch {slots} but its priority changed {float(pb[s])} -> {float(pa[s])}")
        if data != [self.held(t) for t in range(self.n)]:
            raise Violation("update.frame.transitions_untouched", "update_priority changed stored transitions")
        self.invariants(self.ops[-1])

    def reset(self):
        if not self.prioritized:
            return
        self.ops.append("reset_max_priority()")
        self.mt.reset_max_priority()
        for t, b in enumerate(self.mt.buffers):
            ln = len(b)
            if ln and float(b.priority.max_priority) != float(np.max(b.priority.priority[:ln])):
                raise Violation("reset.every_task_buffer_recomputes_its_maximum", f"task {t}: max_priority = {float(b.priority.max_priority)}, true maximum of its {ln} priorities = {float(np.max(b.priority.priority[:ln]))}")
        self.invariants(self.ops[-1])


def scenario_default_task(m):
    """addition without any select_task call -> task 0 has data, is active and can be sampled"""
    m.add()
    m.sample(2, 1, False)
    m.sample(1, 2, True)
    return m


def scenario_selected_but_empty(m):
    """a task that is merely selected has no data: it must never be sampled from"""
    n = m.n
    m.add()
    for t in range(n - 1, -1, -1):
        m.select(t)
        for seed in range(6):
            m.sample(2, 10 * t + seed, bool(seed % 2))
    m.select(n)
    m.select(-1)
    return m


def scenario_update_after_reselect(m):
    """sample from the only task with data, select another task, add there, update: the update belongs to the batch"""
    n = m.n
    for _ in range(2):
        m.add()
    m.sample(2, 3, False)
    for t in range(n - 1, -1, -1):
        m.select(t)
        m.update([7.0 + t, 9.0 + t])
    m.select(n - 1)
    m.add()
    m.update([0.5, 0.25])
    for seed in range(8):
        m.sample(2, 100 + seed, True)
        m.select(seed % n)
        m.update([50.0 + seed, 60.0 + seed])
    return m


def scenario_stale_maxima(m):
    """every task gets a huge priority that is overwritten by small ones: all maxima are stale before the reset"""
    n, N = m.n, m.N
    for t in range(n):
        m.select(t)
        for _ in range(N):
            m.add()
    for phase, val in enumerate((1e4, 0.5)):
        seen = set()
        for seed in range(200):
            m.sample(4 * N, 1000 * phase + seed, False)
            m.update([val] * (4 * N))
            seen.add(m.last[0])
            if len(seen) == n and seed > 6 * n:
                break
    m.select(0)
    m.reset()
    return m


def random_walk(m, seed, steps):
    g = np.random.default_rng(seed)
    n = m.n
    for _ in range(steps):
        op = g.choice(["select", "select_bad", "add", "add", "sample", "sample", "update", "reset"])
        if op == "select":
            m.select(int(g.integers(0, n)))
        elif op == "select_bad":
            m.select(int(g.choice([-2, -1, n, n + 1])))
        elif op == "add":
            m.add()
        elif op == "sample":
            m.sample(int(g.integers(1, 4)), int(g.integers(0, 10**6)), bool(g.integers(0, 2)))
        elif op == "update":
            m.update([float(x) for x in g.choice([1e-3, 0.5, 1.0, 2.0, 1e4], size=4)])
        else:
            m.reset()
    return m


def run_multitask(obligation="", budget_s=40.0, seed=0, prefer_n=None):
    """returns (witness | None, stats); prefer_n: number of tasks of the verifier's counter-model (tried first)"""
    t0 = time.time()
    stats = dict(histories=0)
    classes = [LAP, PrioritizedReplayBuffer, ReplayBuffer]
    plans = []
    for cls in classes:
        for n in (1, 2, 3):
            for N in (1, 2, 3):
                for sc in (scenario_default_task, scenario_selected_but_empty, scenario_update_after_reselect, scenario_stale_maxima):
                    plans.append((sc.__name__, sc, cls, n, N))
    for s in range(12):
        for cls in classes:
            for n in (2, 3, 1):
                N = 1 + (s + n) % 3
                plans.append((f"random_walk(seed={seed + s})", lambda m, s=s: random_walk(m, seed + s, 100), cls, n, N))
    if prefer_n in (1, 2, 3):
        plans.sort(key=lambda pl: pl[3] != prefer_n)  # stable: the counter-model's task count first
    # the scenario that exercises the operation the failed obligation is about comes first
    first = None
    for key, sc in ((".select_task.", "scenario_selected_but_empty"), (".update_priority.", "scenario_update_after_reselect"),
                    (".update_after_history.", "scenario_update_after_reselect"), (".reset_max_priority.", "scenario_stale_maxima")):
        if key in obligation:
            first = sc
    if first:
        plans.sort(key=lambda pl: pl[0] != first)
    soft_only = None
    for name, thunk, cls, n, N in plans:
        if time.time() - t0 > budget_s:
            break
        m = None
        try:
            m = Model(cls, n, N)
            thunk(m)
            stats["histories"] += 1
            if m.soft is not None and soft_only is None:
                # only the white-box invariant is broken in this history: keep looking for an observable consequence
                soft_only = dict(cls=f"MultiTaskReplayBuffer[{cls.__name__}]", n_tasks=n, capacity=N, scenario=name, operations=m.ops[-12:], violated=m.soft.clause, what=m.soft.what)
        except Violation as v:
            w = dict(cls=f"MultiTaskReplayBuffer[{cls.__name__}]", n_tasks=n, capacity=N, scenario=name, operations=getattr(m, "ops", [])[-12:], violated=v.clause, what=v.what)
            if getattr(m, "soft", None) is not None and m.soft is not v:
                w["invariant_broken_earlier"] = m.soft.what
            return w, stats
        except Exception as e:
            return dict(cls=f"MultiTaskReplayBuffer[{cls.__name__}]", n_tasks=n, capacity=N, scenario=name, operations=getattr(m, "ops", [])[-12:], violated="no_uncaught_exception", what=f"{type(e).__name__}: {e}"), stats
    stats["seconds"] = round(time.time() - t0, 1)
    return soft_only, stats
