"""Replay for C02: drive the real replay-buffer classes through bounded
operation histories (capacity from the counter-model when small, plus 1..4)
against the property's list-based reference model.  Obligations of the multi-task
wrapper (name contains "MultiTaskReplayBuffer") are checked by _multitask.run_multitask."""
import os
import sys

import numpy as np

sys.path.insert(0, os.path.dirname(__file__))
from _common import done, load, model_of

from rl_blox.blox.replay_buffer import LAP, MultiTaskReplayBuffer, PrioritizedReplayBuffer, ReplayBuffer

KEYS = ["observation", "action", "reward", "next_observation", "termination"]


def trans(j):
    # every field carries the transition id so that mixed rows are visible
    return dict(observation=np.array([j, j + 0.25]), action=np.array([j + 0.5]), reward=float(j), next_observation=np.array([j + 0.75, j]), termination=j % 2)


def tid(batch, r):
    ids = {int(np.floor(float(np.asarray(batch.observation)[r][0]))), int(np.floor(float(np.asarray(batch.action)[r][0]))),
           int(float(np.asarray(batch.reward)[r])), int(np.floor(float(np.asarray(batch.next_observation)[r][1])))}
    return ids


def run(cls, N, steps, rng):
    buf = cls(N)
    ref = []
    for j in range(steps):
        if len(buf) != min(len(ref), N):
            return f"len {len(buf)} != min({len(ref)},{N})"
        if len(ref) > 0:
            out = buf.sample_batch(4, rng)
            batch = out[0] if isinstance(out, tuple) and not hasattr(out, "_fields") else out
            window = set(range(max(0, len(ref) - N), len(ref)))
            for r in range(4):
                ids = tid(batch, r)
                if len(ids) != 1:
                    return f"row {r} mixes transitions {ids} after {len(ref)} additions, capacity {N}"
                if not ids <= window:
                    return f"row {r} is transition {ids}, not among the most recent {window} (capacity {N})"
        else:
            try:
                buf.sample_batch(2, rng)
                return "sampling an empty buffer returned a batch"
            except Exception:
                pass
        buf.add_sample(**trans(j))
        ref.append(j)
        held = sorted(int(x) for x in np.asarray(buf.buffer["reward"][: len(buf)]))
        if held != sorted(range(max(0, len(ref) - N), len(ref))):
            return f"contents {held} != most recent {min(len(ref), N)} of {len(ref)} (capacity {N})"
    return None


def narrow_first(cls, N):
    """'unmodified up to the DOCUMENTED storage dtype': the first transition arrives with narrower dtypes (python
    ints, float32 / int arrays), later ones carry fractional float64 values; storage must have the declared dtype
    (float for everything except the int 'termination') and return the later values unmodified"""
    buf = cls(N)
    buf.add_sample(observation=np.array([1, 2], dtype=np.int64), action=np.array([0], dtype=np.float32), reward=1,
                   next_observation=np.array([2, 3], dtype=np.int64), termination=0)
    for k, want in (("observation", np.float64), ("action", np.float64), ("reward", np.float64), ("next_observation", np.float64)):
        if buf.buffer[k].dtype != want:
            return f"storage of {k!r} has dtype {buf.buffer[k].dtype} after a first transition with a narrower dtype, documented {np.dtype(want)}"
    t = dict(observation=np.array([0.625, 1.375]), action=np.array([0.1 + 1e-12]), reward=0.625, next_observation=np.array([2.125, 0.875]), termination=1)
    for _ in range(N):
        buf.add_sample(**t)  # now every slot holds t
    out = buf.sample_batch(2, np.random.default_rng(1))
    batch = out[0] if isinstance(out, tuple) and not hasattr(out, "_fields") else out
    for k in ("observation", "action", "reward", "next_observation"):
        got = np.asarray(batch._asdict()[k] if hasattr(batch, "_asdict") else getattr(batch, k))[0]
        if not np.allclose(np.asarray(got, dtype=np.float64), np.asarray(t[k], dtype=np.float32), rtol=0, atol=1e-6):
            return f"field {k!r} of a stored transition comes back as {got!r}, stored {t[k]!r} (first transition had a narrower dtype)"
    return None


def multitask(p):
    """obligations of the multi-task wrapper (contracts/multitask.py): bounded native check of the same
    clauses on the real MultiTaskReplayBuffer over real ReplayBuffer / LAP / PrioritizedReplayBuffer instances"""
    from _multitask import run_multitask

    w, stats = run_multitask(p.get("obligation", ""), budget_s=40.0, prefer_n=(lambda v: v + 1 if isinstance(v, int) else None)(model_of(p).get("n_tasks_minus_1")))
    if w:
        done(True, w)
    done(False, None, note="multi-task wrapper: directed scenarios and seeded random histories (1..3 tasks, capacities 1..3, uniform / LAP / PER task buffers) all satisfy the reference model", stats=stats)


def main():
    p = load()
    if "MultiTaskReplayBuffer" in p.get("obligation", ""):
        multitask(p)
    m = model_of(p)
    caps = [1, 2, 3, 4]
    for k, v in m.items():
        if k.startswith("N") and isinstance(v, int) and 1 <= v <= 12 and v not in caps:
            caps.append(v)
    rng = np.random.default_rng(0)
    for cls in (ReplayBuffer, LAP, PrioritizedReplayBuffer):
        if cls.__name__ not in p["obligation"] and "ReplayBuffer." in p["obligation"] and cls is not ReplayBuffer:
            continue
        try:
            bad = narrow_first(cls, 3)
        except Exception as e:
            bad = f"{type(e).__name__}: {e}"
        if bad:
            done(True, dict(cls=cls.__name__, capacity=3, what=bad))
        for N in caps:
            try:
                bad = run(cls, N, 3 * N + 3, rng)
            except Exception as e:  # a crash of a public operation in a reachable state
                bad = f"{type(e).__name__}: {e}"
            if bad:
                done(True, dict(cls=cls.__name__, capacity=N, what=bad))
    done(False, None, note="bounded histories (capacities %s, 3N+3 additions, sampling after each) all satisfy the reference model" % caps)


main()
