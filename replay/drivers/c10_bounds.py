"""Replay for C10: run the REAL action samplers / tanh policy head / CEM planner
natively on the verifier's counter-model (asymmetric per-dimension bounds, noise
levels, network outputs) and on a random neighbourhood of it, with tiny real
networks and with arbitrary callables that return huge outputs, and evaluate the
property's clauses on the results.

Float caveat of the property ("up to floating-point rounding of the bound
itself"): comparisons use a tolerance of a few float32 ulps of the bound.
"""
import os
import sys

sys.path.insert(0, os.path.dirname(__file__))
from _common import done, load, num

import gymnasium as gym
import jax
import jax.numpy as jnp
import numpy as np
from flax import nnx

from rl_blox.algorithm.ddpg import make_sample_actions
from rl_blox.algorithm.td3 import make_sample_target_actions
from rl_blox.blox.cross_entropy_method import cem_sample, cem_update, optimize_cem
from rl_blox.blox.function_approximator.mlp import MLP
from rl_blox.blox.function_approximator.policy_head import DeterministicTanhPolicy

jax.config.update("jax_disable_jit", True)  # same semantics, no per-configuration compilation

EPS32 = float(np.finfo(np.float32).eps)
NOTES = {}


def tol(*arrs):
    m = max([1e-30] + [float(np.max(np.abs(np.asarray(a, dtype=np.float64)))) for a in arrs])
    return 8 * EPS32 * m


def inside(x, low, high):
    x = np.asarray(x, dtype=np.float64)
    t = tol(low, high)
    return bool(np.all(x >= np.asarray(low, dtype=np.float64) - t) and np.all(x <= np.asarray(high, dtype=np.float64) + t))


def close(a, b, scale=1.0):
    a, b = np.asarray(a, dtype=np.float64), np.asarray(b, dtype=np.float64)
    if a.shape != b.shape:
        return False
    return bool(np.all(np.abs(a - b) <= 64 * EPS32 * (np.maximum(np.abs(a), np.abs(b)) + scale)))


# ------------------------------------------------------------------ model
def tensor_vec(m, key, n=None):
    v = m.get(key)
    if not isinstance(v, dict):
        return None
    ent = v.get("entries", {})
    dims = v.get("shape", [len(ent)])
    k = dims[0] if n is None else n
    k = max(1, min(int(k), 6))
    out = []
    for i in range(k):
        out.append(float(num(ent.get(str(i), "0"), 0.0) or 0.0))
    return np.array(out, dtype=np.float64)


def boxes_from_model(m, rng):
    """bounds configurations: the counter-model's (when it is a finite well-formed box)
    plus asymmetric / tiny / large / degenerate ones and random perturbations"""
    out = []
    low, high = tensor_vec(m, "action_space.low"), tensor_vec(m, "action_space.high")
    if low is not None and high is not None:
        n = min(len(low), len(high))
        low, high = low[:n], high[:n]
        if np.all(np.isfinite(low)) and np.all(np.isfinite(high)) and np.all(low <= high) and np.max(np.abs(np.r_[low, high])) < 1e30:
            out.append((low, high))
            for _ in range(4):
                l2 = low + rng.normal(size=n) * (0.1 + np.abs(low) * 0.1)
                h2 = np.maximum(l2, high + rng.normal(size=n) * (0.1 + np.abs(high) * 0.1))
                out.append((l2, h2))
    out += [
        (np.array([-1.0, 2.0, -1e-3]), np.array([3.0, 2.5, 1e3])),
        (np.array([0.5]), np.array([0.75])),
        (np.array([-2.0, -2.0]), np.array([2.0, 2.0])),
        (np.array([1.0, -7.0]), np.array([1.0, -3.0])),  # zero-width component
        (np.array([-1e4, 1e-4, 10.0, -5.0]), np.array([1e4, 2e-4, 11.0, 50.0])),
    ]
    return out


class Arbitrary(nnx.Module):
    """'network' with arbitrary (huge) outputs"""

    def __init__(self, values):
        self.values = nnx.Variable(jnp.asarray(values, dtype=jnp.float32))

    def __call__(self, obs):
        obs = jnp.asarray(obs)
        return jnp.broadcast_to(self.values.value, obs.shape[:-1] + self.values.value.shape)


def policies(box, n_obs, rng):
    A = box.shape[0]
    net = MLP(n_obs, A, [8], "relu", nnx.Rngs(int(rng.integers(1 << 30))))
    yield "tanh(mlp)", DeterministicTanhPolicy(net, box)
    yield "raw mlp", net
    for scale in (1.0, 1e6, 1e30):
        yield f"arbitrary*{scale:g}", Arbitrary(rng.normal(size=A) * scale)
    yield "arbitrary(+-huge)", Arbitrary(np.where(rng.random(A) < 0.5, -3e38, 3e38))


# ----------------------------------------------------------------- checks
def check_samplers(m, rng, which):
    sig0 = num(m.get("exploration_noise"), 0.2) or 0.2
    nc0 = num(m.get("noise_clip"), 0.5)
    nc0 = 0.5 if nc0 is None else nc0
    sigmas = [float(sig0), 0.0, 0.1, 1.0, 25.0, -0.3]
    clips = [max(float(nc0), 0.0), 0.0, 0.5, 3.0]
    n_obs = 3
    for low, high in boxes_from_model(m, rng):
        box = gym.spaces.Box(low.astype(np.float32), high.astype(np.float32))
        lo, hi = box.low.astype(np.float64), box.high.astype(np.float64)
        scale = (hi - lo) / 2
        for pname, pol in policies(box, n_obs, rng):
            for sigma in sigmas:
                for batch in ((), (4,)):
                    obs = jnp.asarray(rng.normal(size=batch + (n_obs,)), dtype=jnp.float32)
                    key = jax.random.key(int(rng.integers(1 << 30)))
                    pi = np.asarray(pol(obs), dtype=np.float64)
                    z = np.asarray(jax.random.normal(key, pi.shape), dtype=np.float64)
                    ctx = dict(low=low.tolist(), high=high.tolist(), policy=pname, exploration_noise=sigma, batch=batch)
                    if which in ("explore", "both"):
                        a = np.asarray(make_sample_actions(box, sigma)(pol, obs, key))
                        want = np.clip(pi + sigma * scale * z, lo, hi)
                        if a.shape != pi.shape:
                            return dict(ctx, violated="explore.shape", got=a.shape)
                        if not inside(a, lo, hi):
                            return dict(ctx, violated="explore.bounds", action=a.tolist())
                        if np.all(np.abs(pi) < 1e30) and not close(a, want, float(np.max(np.abs(np.r_[lo, hi])))):
                            return dict(ctx, violated="explore.value (clip(pi + sigma*scale*z))", action=a.tolist(), expected=want.tolist())
                    if which in ("smooth", "both"):
                        for c in clips:
                            a = np.asarray(make_sample_target_actions(box, sigma, c)(pol, obs, key))
                            noise = np.clip(sigma * scale * z, -c * scale, c * scale)
                            want = np.clip(pi + noise, lo, hi)
                            if a.shape != pi.shape:
                                return dict(ctx, noise_clip=c, violated="smooth.shape", got=a.shape)
                            if not inside(a, lo, hi):
                                return dict(ctx, noise_clip=c, violated="smooth.bounds", action=a.tolist())
                            finite = np.all(np.abs(pi) < 1e30)
                            if finite and not close(a, want, float(np.max(np.abs(np.r_[lo, hi])))):
                                return dict(ctx, noise_clip=c, violated="smooth.value", action=a.tolist(), expected=want.tolist())
                            # smoothing noise never exceeds noise_clip * half range (observable where the outer clip is inactive)
                            inner = (a > lo + tol(lo, hi)) & (a < hi - tol(lo, hi))
                            if finite and np.any(inner & (np.abs(a - pi) > c * scale + 64 * EPS32 * (np.abs(pi) + np.abs(a) + scale))):
                                return dict(ctx, noise_clip=c, violated="smooth.noise_bound", action=a.tolist(), policy_action=pi.tolist())
    return None


def check_tanh(m, rng):
    for low, high in boxes_from_model(m, rng):
        box = gym.spaces.Box(low.astype(np.float32), high.astype(np.float32))
        lo, hi = box.low.astype(np.float64), box.high.astype(np.float64)
        A = len(lo)
        net = MLP(3, A, [8], "relu", nnx.Rngs(0))
        pol = DeterministicTanhPolicy(net, box)
        if not close(pol.action_scale.value, (hi - lo) / 2) or not close(pol.action_bias.value, (hi + lo) / 2):
            return dict(low=low.tolist(), high=high.tolist(), violated="tanh.init", scale=np.asarray(pol.action_scale.value).tolist(), bias=np.asarray(pol.action_bias.value).tolist())
        ys = [rng.normal(size=(5, A)) * s for s in (1.0, 10.0, 1e3, 1e30)] + [np.full((1, A), 3e38), np.full((1, A), -3e38), np.zeros((1, A))]
        for y in ys:
            out = np.asarray(pol.scale_output(jnp.asarray(y, dtype=jnp.float32)), dtype=np.float64)
            if not inside(out, lo, hi):
                return dict(low=low.tolist(), high=high.tolist(), violated="tanh.scale_output.bounds", y=y.tolist(), out=out.tolist())
            want = lo + (np.tanh(y.astype(np.float32).astype(np.float64)) + 1) * (hi - lo) / 2
            if not close(out, want, float(np.max(np.abs(np.r_[lo, hi])))):
                return dict(low=low.tolist(), high=high.tolist(), violated="tanh.scale_output.value", y=y.tolist(), out=out.tolist(), expected=want.tolist())
        obs = jnp.asarray(rng.normal(size=(4, 3)) * 1e3, dtype=jnp.float32)
        if not inside(pol(obs), lo, hi):
            return dict(low=low.tolist(), high=high.tolist(), violated="tanh.call.bounds")
    return None


def cem_cases(m, rng):
    for low, high in boxes_from_model(m, rng):
        for H in (None, 1, 3):
            lb = low if H is None else np.tile(low, (H, 1))
            ub = high if H is None else np.tile(high, (H, 1))
            for where in ("middle", "at_lb", "at_ub", "random"):
                u = {"middle": 0.5, "at_lb": 0.0, "at_ub": 1.0}.get(where)
                u = rng.random(lb.shape) if u is None else u
                mean = lb + u * (ub - lb)
                for vs in (0.0, 1e-6, 1.0, 1e8):
                    var = np.full(lb.shape, vs) * (1 + rng.random(lb.shape))
                    yield lb.astype(np.float32), ub.astype(np.float32), mean.astype(np.float32), var.astype(np.float32)


def check_cem(m, rng, which):
    for lb, ub, mean, var in cem_cases(m, rng):
        mean = np.clip(mean, lb, ub)
        key = jax.random.key(int(rng.integers(1 << 30)))
        n_pop = 12
        ctx = dict(lb=lb.tolist(), ub=ub.tolist(), mean=mean.tolist(), var=var.tolist())
        samples = np.asarray(cem_sample(jnp.asarray(mean), jnp.asarray(var), key, n_pop, jnp.asarray(lb), jnp.asarray(ub)))
        if samples.shape != (n_pop,) + mean.shape:
            return dict(ctx, violated="cem_sample.shape", got=samples.shape)
        if not inside(samples, lb[None], ub[None]):
            return dict(ctx, violated="cem_sample.bounds", samples=samples.tolist())
        if which == "sample":
            continue
        fitness = rng.normal(size=n_pop).astype(np.float32)
        for n_elite in ((1, 3, n_pop) if which == "update" else ()):
            for alpha in (0.0, 0.1, 0.5, 1.0):
                m2, v2 = cem_update(jnp.asarray(samples), jnp.asarray(fitness), jnp.asarray(mean), jnp.asarray(var), n_elite, alpha)
                m2, v2 = np.asarray(m2, dtype=np.float64), np.asarray(v2, dtype=np.float64)
                el = samples[np.argsort(-fitness, kind="stable")[:n_elite]].astype(np.float64)
                want_m = alpha * mean + (1 - alpha) * el.mean(axis=0)
                want_v = alpha * var + (1 - alpha) * el.var(axis=0)
                c2 = dict(ctx, n_elite=n_elite, alpha=alpha)
                if not inside(m2, lb, ub):
                    return dict(c2, violated="cem_update.mean_bounds", mean_next=m2.tolist())
                if not close(m2, want_m, float(np.max(np.abs(np.r_[lb.ravel(), ub.ravel()])))):
                    return dict(c2, violated="cem_update.mean_value", mean_next=m2.tolist(), expected=want_m.tolist())
                if np.any(v2 < -tol(var)):
                    return dict(c2, violated="cem_update.var_nonneg", var_next=v2.tolist())
                if not close(v2, want_v, float(np.max(np.abs(var))) + float(np.max(ub - lb)) ** 2):
                    return dict(c2, violated="cem_update.var_value", var_next=v2.tolist(), expected=want_v.tolist())
        if which == "optimize":
            target = lb + rng.random(lb.shape) * 3 * (ub - lb) - (ub - lb)  # optimum possibly outside the box
            fit = lambda x: -jnp.sum((x - target) ** 2, axis=tuple(range(1, x.ndim)))  # noqa: E731
            for n_iter in (0, 1, 5):
                r = np.asarray(optimize_cem(fit, mean, var, key, n_iter, n_pop, 3, lb, ub, epsilon=1e-9, alpha=0.25))
                if r.shape != mean.shape or not inside(r, lb, ub):
                    return dict(ctx, n_iter=n_iter, violated="optimize_cem.result_in_bounds", result=r.tolist())
    return None


def check_pets(m, rng):
    from rl_blox.algorithm.pets import PETSMPCConfig, PETSMPCState, _init_mpc_optimizer_cem, _pets_optimize, mpc_action
    from rl_blox.blox.probabilistic_ensemble import GaussianMLPEnsemble

    n_obs = 2
    for low, high in boxes_from_model(m, rng)[:6]:
        box = gym.spaces.Box(low.astype(np.float32), high.astype(np.float32))
        lo, hi = box.low, box.high
        A = len(lo)
        for H, n_samples in ((1, 10), (3, 20)):
            sample_fn, update_fn = _init_mpc_optimizer_cem(box, H, n_samples)
            ctx = dict(low=low.tolist(), high=high.tolist(), plan_horizon=H, n_samples=n_samples)
            reward = lambda act, obs: -jnp.sum(act ** 2, axis=-1) - jnp.sum(obs ** 2, axis=-1)  # noqa: E731
            cfg = PETSMPCConfig(plan_horizon=H, n_particles=2, n_samples=n_samples, n_opt_iter=2, init_with_previous_plan=True,
                                reward_model=reward, action_space_shape=box.shape, avg_act=jnp.asarray(0.5 * (hi + lo)),
                                init_var=jnp.array([(hi - lo) ** 2 / 16.0 for _ in range(H)]), sample_fn=sample_fn, update_fn=update_fn)
            plan0 = np.asarray(PETSMPCState.initial_plan(cfg))
            if plan0.shape != (H, A) or not inside(plan0, lo[None], hi[None]):
                return dict(ctx, violated="initial_plan.in_bounds", plan=plan0.tolist())
            mean = (lo + rng.random((H, A)) * (hi - lo)).astype(np.float32)
            key = jax.random.key(int(rng.integers(1 << 30)))
            acts = np.asarray(sample_fn(jnp.asarray(mean), cfg.init_var, key))
            if acts.shape != (n_samples, H, A) or not inside(acts, lo[None, None], hi[None, None]):
                return dict(ctx, violated="mpc.sample_fn.every_planned_action_in_action_space", mean=mean.tolist())
            m2, v2 = update_fn(jnp.asarray(acts), jnp.asarray(rng.normal(size=n_samples), dtype=jnp.float32), jnp.asarray(mean), cfg.init_var)
            if not inside(m2, lo[None], hi[None]) or np.any(np.asarray(v2) < 0):
                return dict(ctx, violated="mpc.update_fn.mean_bounds", mean_next=np.asarray(m2).tolist())
            model = GaussianMLPEnsemble(2, True, n_obs + A, n_obs, [8], "relu", nnx.Rngs(0))
            for init_prev in (True, False):
                cfg2 = cfg.replace(init_with_previous_plan=init_prev)
                state = PETSMPCState(dynamics_model=model, prev_plan=jnp.asarray(mean), key=jax.random.key(3))
                try:
                    from functools import partial

                    action = np.asarray(mpc_action(cfg2, state, partial(_pets_optimize, cfg2), rng.normal(size=n_obs).astype(np.float32)))
                    NOTES.setdefault("pets", "real _pets_optimize with a tiny GaussianMLPEnsemble")
                except Exception as e:  # the dynamics model is outside C10: fall back to a plan-preserving optimiser
                    state = PETSMPCState(dynamics_model=model, prev_plan=jnp.asarray(mean), key=jax.random.key(3))
                    action = np.asarray(mpc_action(cfg2, state, lambda mdl, plan, k, o: plan, rng.normal(size=n_obs).astype(np.float32)))
                    ctx = dict(ctx, note=f"real _pets_optimize not runnable here: {type(e).__name__}")
                    NOTES["pets"] = f"plan-preserving optimiser stub (real _pets_optimize raised {type(e).__name__}: {str(e)[:200]})"
                if action.shape != (A,) or not inside(action, lo, hi):
                    return dict(ctx, init_with_previous_plan=init_prev, violated="mpc_action.action_in_bounds", action=action.tolist())
                pp = np.asarray(state.prev_plan)
                if pp.shape != (H, A) or not inside(pp, lo[None], hi[None]):
                    return dict(ctx, init_with_previous_plan=init_prev, violated="mpc_action.prev_plan_in_bounds", prev_plan=pp.tolist())
    return None


def main():
    p = load()
    m = (p.get("verifier_output") or {}).get("model") or {}
    task = p.get("task") or p.get("obligation", "").split(".")[1]
    rng = np.random.default_rng(0)
    if task.startswith("sample_actions"):
        w = check_samplers(m, rng, "explore")
    elif task.startswith("sample_target_actions"):
        w = check_samplers(m, rng, "smooth")
    elif task.startswith("tanh_policy"):
        w = check_tanh(m, rng)
    elif task.startswith("cem_sample"):
        w = check_cem(m, rng, "sample")
    elif task.startswith("cem_update"):
        w = check_cem(m, rng, "update")
    elif task.startswith("optimize_cem"):
        w = check_cem(m, rng, "optimize")
    elif task.startswith("pets"):
        w = check_pets(m, rng)
    else:
        w = check_samplers(m, rng, "both") or check_tanh(m, rng) or check_cem(m, rng, "optimize") or check_pets(m, rng)
    if w is not None:
        done(True, w)
    done(False, None, pets_optimizer=NOTES.get("pets"), note="the real functions satisfied every clause on the counter-model's bounds and on the bounded neighbourhood")


main()
