"""Replay for C07: run the REAL return / advantage estimators of /repo on the
verifier's counter-model (sequences read from the model, concrete sizes under
"dim:...") and on a bounded neighbourhood (short sequences with terminations
at the first / last / several / no positions plus random ones) and compare
with a direct float64 implementation of the defining recurrences.

Checked clauses (selected by the obligation name, all of them when unknown):
  gae      compute_gae == A_t recurrence; returns == A_t + V_t
  nstep    discounted_n_step_return == (R_n, D_n); rows independent; nothing after the first termination matters
  rtg      discounted_reward_to_go == G_t; EpisodeDataset.prepare_policy_gradient_dataset per episode
  a2c      prepare_a2c_batch flat index t*N+e == per-environment GAE of column e
  ppo      advantages used by update_ppo at flat index e*T+t == per-environment GAE of environment e
  collect  collect_trajectories: next_value[e*T+t] == V(successor observation of environment e at step t)
  mrq      mrq_loss max_abs_td_error == |q - (R_n + D_n q_next trs)/rs| and post-terminal data is ignored
"""
import os
import sys

sys.path.insert(0, os.path.dirname(__file__))
from _common import done, load, num

import numpy as np

import jax
import jax.numpy as jnp

RTOL, ATOL = 2e-4, 2e-4
rng = np.random.default_rng(0)


def close(a, b):
    return np.allclose(np.asarray(a, dtype=np.float64), np.asarray(b, dtype=np.float64), rtol=RTOL, atol=ATOL)


# ------------------------------------------------------------------ references
def ref_gae(r, v, nv, term, gamma, lam):
    n = len(r)
    A = np.zeros(n + 1)
    for t in reversed(range(n)):
        delta = r[t] + gamma * nv[t] * (1 - term[t]) - v[t]
        A[t] = delta + gamma * lam * (1 - term[t]) * A[t + 1]
    return A[:n]


def ref_nstep(r, term, gamma):
    R, D = 0.0, 1.0
    for t in range(len(r)):
        R += D * r[t]
        D *= gamma * (1 - term[t])
    return R, D


def ref_rtg(r, gamma):
    G = np.zeros(len(r) + 1)
    for t in reversed(range(len(r))):
        G[t] = r[t] + gamma * G[t + 1]
    return G[:len(r)]


def term_patterns(n):
    pats = [np.zeros(n), np.ones(n)]
    for p in ([0], [n - 1], [0, n - 1], list(range(0, n, 2))):
        z = np.zeros(n)
        z[[i for i in p if 0 <= i < n]] = 1
        pats.append(z)
    pats += [rng.integers(0, 2, n).astype(float) for _ in range(3)]
    return pats


# ------------------------------------------------------------ model extraction
def tensor_of(model, name, shape=None, default=None):
    t = model.get(name)
    if not isinstance(t, dict) or "entries" not in t:
        return default
    dims = t.get("shape") or []
    if shape is not None:
        dims = list(shape)
    try:
        a = np.zeros([max(int(d), 0) for d in dims], dtype=np.float64)
        for k, v in t["entries"].items():
            idx = tuple(int(x) for x in k.split(",")) if k else ()
            if all(0 <= i < d for i, d in zip(idx, a.shape)):
                x = num(v, 0.0)
                a[idx] = float(x) if not isinstance(x, bool) else float(x)
        return a
    except Exception:
        return default


def dims_of(model):
    return {k[4:]: int(num(v, 0)) for k, v in model.items() if k.startswith("dim:")}


def scalar(model, name, default):
    v = num(model.get(name), None) if model.get(name) is not None else None
    return float(v) if isinstance(v, (int, float)) and not isinstance(v, bool) else default


# ---------------------------------------------------------------------- checks
def check_gae(model):
    from rl_blox.blox.gae import compute_gae

    cases = []
    g, l = scalar(model, "gamma", 0.9), scalar(model, "lmbda", 0.8)
    r = tensor_of(model, "reward")
    if r is not None and r.ndim == 1 and len(r) > 0:
        n = len(r)
        cases.append((r, tensor_of(model, "value", [n], np.zeros(n)), tensor_of(model, "next_value", [n], np.zeros(n)),
                      np.clip(np.round(tensor_of(model, "terminated", [n], np.zeros(n))), 0, 1), g, l))
    for n in (1, 2, 3, 5):
        for term in term_patterns(n):
            for gg, ll in ((0.99, 0.95), (1.0, 1.0), (0.5, 0.0), (0.0, 0.7)):
                cases.append((rng.normal(size=n), rng.normal(size=n), rng.normal(size=n), term, gg, ll))
    for r, v, nv, term, gg, ll in cases:
        out = compute_gae(jnp.asarray(r, jnp.float32), jnp.asarray(v, jnp.float32), jnp.asarray(nv, jnp.float32), jnp.asarray(term, jnp.float32), gg, ll)
        A = ref_gae(r, v, nv, term, gg, ll)
        if not close(out.advantages, A) or not close(out.returns, A + v):
            return dict(function="compute_gae", reward=r.tolist(), value=v.tolist(), next_value=nv.tolist(), terminated=term.tolist(), gamma=gg, lmbda=ll,
                        got=np.asarray(out.advantages).tolist(), expected=A.tolist())
    return None


def check_nstep(model):
    from rl_blox.blox.return_estimates import discounted_n_step_return

    cases = []
    r = tensor_of(model, "reward")
    if r is not None and r.ndim == 2 and r.size > 0:
        cases.append((r, np.clip(np.round(tensor_of(model, "terminated", r.shape, np.zeros(r.shape))), 0, 1), scalar(model, "gamma", 0.9)))
    for H in (1, 2, 3, 5):
        pats = term_patterns(H)
        cases.append((rng.normal(size=(len(pats), H)), np.stack(pats), 0.9))
        cases.append((rng.normal(size=(len(pats), H)), np.stack(pats), 1.0))
    for r, term, g in cases:
        R, D = discounted_n_step_return(jnp.asarray(r, jnp.float32), jnp.asarray(term, jnp.float32), g)
        for b in range(r.shape[0]):
            eR, eD = ref_nstep(r[b], term[b], g)
            if not close(R[b], eR) or not close(D[b], eD):
                return dict(function="discounted_n_step_return", reward=r[b].tolist(), terminated=term[b].tolist(), gamma=g, got=[float(R[b]), float(D[b])], expected=[eR, eD])
            # nothing after the first termination and no other row matters
            if term[b].any():
                c = int(np.argmax(term[b]))
                r2, t2 = rng.normal(size=r.shape), rng.integers(0, 2, r.shape).astype(float)
                r2[b, :c + 1], t2[b, :c + 1] = r[b, :c + 1], term[b, :c + 1]
                R2, D2 = discounted_n_step_return(jnp.asarray(r2, jnp.float32), jnp.asarray(t2, jnp.float32), g)
                if float(R2[b]) != float(R[b]) or float(D2[b]) != 0.0:
                    return dict(function="discounted_n_step_return", clause="post-terminal / other-row data changed the result", row=b, first_termination=c)
    return None


def check_rtg(model):
    from rl_blox.algorithm.reinforce import EpisodeDataset, discounted_reward_to_go
    import gymnasium as gym

    for n in (1, 2, 3, 6):
        for g in (0.0, 0.5, 0.99, 1.0):
            r = rng.normal(size=n)
            out = discounted_reward_to_go(list(r), g)
            if not close(out, ref_rtg(r, g)):
                return dict(function="discounted_reward_to_go", rewards=r.tolist(), gamma=g, got=np.asarray(out).tolist(), expected=ref_rtg(r, g).tolist())
    for lengths in ((2, 3), (1, 1, 2), (4,)):
        ds = EpisodeDataset()
        eps = []
        for ln in lengths:
            ds.start_episode()
            rw = rng.normal(size=ln)
            eps.append(rw)
            for t in range(ln):
                ds.add_sample(np.array([float(t)]), 1, np.array([float(t + 1)]), float(rw[t]))
        g = 0.9
        _, acts, _, returns, gd = ds.prepare_policy_gradient_dataset(gym.spaces.Discrete(3, start=1), g)
        exp = np.concatenate([ref_rtg(rw, g) for rw in eps])
        expd = np.concatenate([g ** np.arange(len(rw)) for rw in eps])
        if not close(returns, exp) or not close(gd, expd) or not np.all(np.asarray(acts) == 0):
            return dict(function="EpisodeDataset.prepare_policy_gradient_dataset", lengths=lengths, got=np.asarray(returns).tolist(), expected=exp.tolist())
    return None


class _Critic:
    """V(o) = w . o  (row-wise)"""

    def __init__(self, d):
        self.w = jnp.asarray(rng.normal(size=(d, 1)), jnp.float32)

    def __call__(self, x):
        return jnp.asarray(x, jnp.float32) @ self.w


def check_a2c(model):
    import gymnasium as gym
    from rl_blox.algorithm.a2c import prepare_a2c_batch

    class Buf:
        pass

    d = dims_of(model)
    sizes = [(d.get("T", 2), d.get("N", 2))] + [(1, 2), (2, 1), (3, 2), (2, 3)]
    for T_, N in sizes:
        for term in (np.zeros((T_, N)), np.ones((T_, N)), rng.integers(0, 2, (T_, N)).astype(float)):
            D = 2
            buf = Buf()
            obs = rng.normal(size=(T_, N, D))
            rew = rng.normal(size=(T_, N))
            buf.buffer = dict(obs=obs, actions=np.zeros((T_, N), dtype=int), rewards=rew, terminations=term.astype(int))
            vf = _Critic(D)
            last = rng.normal(size=(N, D))
            g, l = 0.9, 0.8
            try:
                fo, fa, fadv, fret = prepare_a2c_batch(buf, vf, jnp.asarray(last, jnp.float32), gym.spaces.Discrete(2), g, l)
            except Exception as e:  # degenerate sizes may raise (squeeze): not the clause under replay
                if T_ == 1 or N == 1:
                    continue
                return dict(function="prepare_a2c_batch", raised=f"{type(e).__name__}: {e}"[:200], T=T_, N=N)
            V = np.asarray(vf(obs.reshape(-1, D))).reshape(T_, N)
            Vl = np.asarray(vf(last)).reshape(N)
            for e in range(N):
                nv = np.concatenate([V[1:, e], Vl[e:e + 1]])
                A = ref_gae(rew[:, e], V[:, e], nv, term[:, e], g, l)
                got = np.asarray(fadv).reshape(T_, N)[:, e]
                if not close(got, A) or not close(np.asarray(fret).reshape(T_, N)[:, e], A + V[:, e]):
                    return dict(function="prepare_a2c_batch", T=T_, N=N, env=e, got=got.tolist(), expected=A.tolist())
    return None


def ppo_advantages(E_, T_, obs, rew, term, nv):
    """advantages that the REAL update_ppo computes (its compute_gae call is observed)"""
    import optax
    from flax import nnx
    import rl_blox.algorithm.ppo as ppo
    from rl_blox.blox.function_approximator.mlp import MLP
    from rl_blox.blox.function_approximator.policy_head import SoftmaxPolicy

    seen = {}
    real = ppo.ppo_loss

    def spy(actor, critic, logp, observation, action, advs, returns, *a, **k):
        # the tensors handed to the loss are what the property speaks about
        seen["adv"] = np.asarray(advs)
        seen["ret"] = np.asarray(returns)
        return real(actor, critic, logp, observation, action, advs, returns, *a, **k)

    D = obs.shape[1]
    actor = SoftmaxPolicy(MLP(D, 2, [4], "relu", nnx.Rngs(0)))
    critic = MLP(D, 1, [4], "relu", nnx.Rngs(1))
    oa = nnx.Optimizer(actor, optax.adam(1e-3), wrt=nnx.Param)
    oc = nnx.Optimizer(critic, optax.adam(1e-3), wrt=nnx.Param)
    seen["values"] = np.asarray(critic(jnp.asarray(obs, jnp.float32))).reshape(-1)  # before the optimizer step
    ppo.ppo_loss = spy
    try:
        with jax.disable_jit():
            try:
                import inspect

                args = [actor, critic, oa, oc, jnp.asarray(obs, jnp.float32), jnp.zeros(E_ * T_, dtype=int), jnp.asarray(rew, jnp.float32),
                        jnp.asarray(term, jnp.float32), jnp.asarray(nv, jnp.float32), 1]
                fn = getattr(ppo.update_ppo, "__wrapped__", ppo.update_ppo)
                if "n_envs" in inspect.signature(fn).parameters:
                    args.append(E_)  # as train_ppo calls it: envs.num_envs
                ppo.update_ppo(*args)
            except Exception:
                if "adv" not in seen:
                    raise
    finally:
        ppo.ppo_loss = real
    return seen


def check_ppo(model):
    d = dims_of(model)
    cases = []
    # the counter-model: flat sequences of length E*T (bounded task: E = T = 2)
    r = tensor_of(model, "reward")
    if r is not None and r.ndim == 1 and len(r) >= 2:
        E_ = d.get("E", 2)
        T_ = d.get("T", len(r) // max(E_, 1))
        if E_ * T_ == len(r):
            n = len(r)
            cases.append((E_, T_, r, np.clip(np.round(tensor_of(model, "terminated", [n], np.zeros(n))), 0, 1), tensor_of(model, "next_value", [n], np.zeros(n))))
    # hand-made rollout: 2 environments x 2 steps, no termination, rewards 1 (env 0) and 10 (env 1)
    cases.append((2, 2, np.array([1.0, 1.0, 10.0, 10.0]), np.zeros(4), np.zeros(4)))
    for E_, T_ in ((2, 1), (2, 3), (3, 2)):
        cases.append((E_, T_, rng.normal(size=E_ * T_), rng.integers(0, 2, E_ * T_).astype(float), rng.normal(size=E_ * T_)))
    for E_, T_, rew, term, nv in cases:
        obs = rng.normal(size=(E_ * T_, 2))
        seen = ppo_advantages(E_, T_, obs, rew, term, nv)
        V = seen["values"]
        for e in range(E_):
            sl = slice(e * T_, (e + 1) * T_)
            A = ref_gae(rew[sl], V[sl], nv[sl], term[sl], 0.99, 0.95)
            if not close(seen["adv"][sl], A):
                return dict(function="update_ppo (advantages passed to the loss)", envs=E_, steps=T_, env=e, reward=rew.tolist(), terminated=term.tolist(),
                            next_value=nv.tolist(), value=V.tolist(), got_env=seen["adv"][sl].tolist(), expected_env=A.tolist(),
                            note="advantages handed to ppo_loss differ from environment e's own GAE")
    return None


def check_collect(model):
    from rl_blox.algorithm.ppo import collect_trajectories

    class Envs:
        num_envs = 2

        def __init__(self, finish):
            self.t = 0
            self.finish = finish  # dict step -> list of finished env indices

        def reset(self, **k):
            return np.array([[0.0], [100.0]]), {}

        def step(self, a):
            t = self.t
            self.t += 1
            next_obs = np.array([[1.0 + t], [101.0 + t]])
            fin = self.finish.get(t, [])
            info = {}
            if fin:
                fo = np.empty(2, dtype=object)
                for e in range(2):
                    fo[e] = np.array([70.0 + 7 * e + t]) if e in fin else None
                info = {"episode": {"r": np.array([5.0 if e in fin else 0.0 for e in range(2)]), "l": np.array([3 if e in fin else 0 for e in range(2)])},
                        "final_obs": fo, "_episode": np.array([e in fin for e in range(2)])}
            return next_obs, np.array([1.0, 1.0]), np.array([False, False]), np.array([e in fin for e in range(2)]), info

    class Actor:
        def sample(self, obs, key):
            return jnp.zeros(obs.shape[0], dtype=int)

    class Logger:
        def record_stat(self, *a, **k):
            pass

        def start_new_episode(self):
            pass

    critic = lambda o: jnp.asarray(o)  # noqa: E731  V(o) = o
    T_ = 2
    for finish in ({0: [1]}, {1: [1]}, {0: [0]}, {0: [0, 1]}, {}):
        out = collect_trajectories(Envs(finish), Actor(), critic, jax.random.key(0), batch_size=T_, logger=Logger())
        nv = np.asarray(out.next_value)
        exp = np.zeros(2 * T_)
        for e in range(2):
            for t in range(T_):
                exp[e * T_ + t] = (70.0 + 7 * e + t) if e in finish.get(t, []) else [1.0 + t, 101.0 + t][e]
        if not close(nv, exp):
            return dict(function="ppo.collect_trajectories", finished_envs_per_step=finish, got_next_value=nv.tolist(), expected_next_value=exp.tolist(),
                        note="V = identity; a finished environment must be bootstrapped from its OWN final observation")
    return None


def check_mrq(model):
    # the n-step part of the MR.Q target is discounted_n_step_return: replayed through check_nstep
    return check_nstep(model)


CHECKS = [("update_ppo", check_ppo), ("collect_trajectories", check_collect), ("prepare_a2c_batch", check_a2c), ("gae", check_gae),
          ("n_step", check_nstep), ("mrq", check_mrq), ("reward_to_go", check_rtg), ("dataset", check_rtg)]


def main():
    p = load()
    model = (p.get("verifier_output") or {}).get("model") or {}
    name = p.get("obligation", "")
    sel = [f for key, f in CHECKS if key in name] or [f for _, f in CHECKS]
    seen = set()
    for f in sel:
        if f in seen:
            continue
        seen.add(f)
        w = f(model)
        if w is not None:
            done(True, w)
    done(False, None, checked=[f.__name__ for f in sel])


if __name__ == "__main__":
    main()
