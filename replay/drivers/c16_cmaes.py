"""Replay for C16 (CMA-ES): drive the real optimiser through short ask/tell
histories and evaluate the property's clauses natively (float tolerance):

  weights   positive, non-increasing, sum to one, documented formula, WF config
  incumbent best_fitness == min of the costs told so far (<= keeps the later one,
            NaN never becomes the incumbent), best_params is the candidate asked,
            `it` counts tells - fitness sequences with ties, +-inf and NaN
  update    mean' == sum_k w_k * samples[rank_k], sigma'/sigma <= e^0.6,
            cov' symmetric (both variants), positive diagonal (default variant)
  roundtrip flat_params(set_params(net, p)) == p on real tiny nnx networks

The counter-model of the failed obligation selects the population size /
dimension when it is small; a bounded neighbourhood is always searched.
`native_extras` reports the clauses the verifier cannot state over the reals
(NaN handling) and the active-variant gap (negative variance for a crafted
population), see NOT_COVERED in contracts/C16.py.
"""
import itertools
import math
import os
import sys

import numpy as np

sys.path.insert(0, os.path.dirname(__file__))
from _common import done, load, model_of

import jax
import jax.numpy as jnp
from flax import nnx

from rl_blox.algorithm import cmaes as M

TOL = 1e-5


def config(n, P, active=False, maximize=False):
    return M.CMAESConfig.create(active=active, bounds=None, maximize=maximize, min_variance=0.0, min_fitness_dist=0.0,
                                max_condition=1e7, n_params=n, n_samples_per_update=P)


def check_weights(n, P):
    bad = []
    c = config(n, P)
    Pe = c.n_samples_per_update
    w = np.asarray(c.weights, dtype=float)
    mu = Pe // 2
    if c.mu != mu or w.shape != (mu,):
        bad.append(f"mu={c.mu}, weights shape {w.shape}, expected {mu}")
        return bad
    raw = np.array([math.log(Pe / 2 + 0.5) - math.log(1 + i) for i in range(mu)])
    if not np.allclose(w, raw / raw.sum(), atol=TOL):
        bad.append(f"weights {w} != documented {raw / raw.sum()}")
    if not (w > 0).all():
        bad.append(f"non-positive weight {w}")
    if not (np.diff(w) <= 1e-7).all():
        bad.append(f"weights increase {w}")
    if abs(w.sum() - 1) > TOL:
        bad.append(f"weights sum to {w.sum()}")
    if not (c.mueff > 0 and 0 < c.c1 and 0 < c.cmu and c.c1 + c.cmu < 1 and 0 < c.cc <= 1 and 0 < c.cs < 1 and c.damps > 0):
        bad.append(f"config not well-formed: mueff={c.mueff} c1={c.c1} cmu={c.cmu} cc={c.cc} cs={c.cs} damps={c.damps}")
    return [f"n_params={n} population={P}: {b}" for b in bad]


def ref_incumbent(costs, samples, x0):
    """property model: min of the costs told so far, the later one on ties, NaN never wins"""
    best, arg, it_best = float("inf"), np.asarray(x0), 0
    for t, c in enumerate(costs):
        if c <= best:  # False for NaN
            best, arg, it_best = c, samples[t % len(samples)], t
    return best, arg, it_best


def check_history(n, P, feedbacks, maximize, seed=0, active=False):
    bad = []
    c = config(n, P, active=active, maximize=maximize)
    x0 = jnp.arange(n, dtype=jnp.float32) / 10
    st = M.CMAESState.create(key=jax.random.key(seed), initial_params=x0, variance=1.0, covariance=None)
    pop = M.Population.create(M.sample_population(c, st))
    samples = np.asarray(pop.samples)
    if samples.shape != (P, n) or len(pop.fitness) != P or not all(f == np.inf for f in pop.fitness):
        bad.append(f"population {samples.shape}, fitness {pop.fitness}")
    costs = []
    for t, fb in enumerate(feedbacks[:P]):
        x = np.asarray(M.get_next_parameters(c, st, pop))
        if not np.array_equal(x, samples[t % P]):
            bad.append(f"ask {t} is not population member {t % P}")
        M.set_evaluation_feedback(c, st, pop, fb)
        cost = -float(np.sum(fb)) if maximize else float(np.sum(fb))
        costs.append(cost)
        best, arg, it_best = ref_incumbent(costs, samples, x0)
        got = float(st.best_fitness)
        same = (got == best) or (math.isnan(got) and math.isnan(best))
        if not same:
            bad.append(f"after telling {costs}: best_fitness {got} != {best}")
        if not np.array_equal(np.asarray(st.best_params), arg):
            bad.append(f"after telling {costs}: best_params is not the candidate that achieved {best}")
        if st.best_fitness_it != it_best:
            bad.append(f"after telling {costs}: best_fitness_it {st.best_fitness_it} != {it_best}")
        if st.it != t + 1:
            bad.append(f"it={st.it} after {t + 1} tells")
        pf = pop.fitness[t % P]
        if not (pf == cost or (math.isnan(pf) and math.isnan(cost))):
            bad.append(f"fitness slot {t % P} holds {pf}, told {cost}")
    return [f"n={n} P={P} maximize={maximize} feedbacks={feedbacks}: {b}" for b in bad], (c, st, pop, costs)


def check_update(n, P, active, seed, fitness=None, samples=None):
    bad = []
    c = config(n, P, active=active)
    st = M.CMAESState.create(key=jax.random.key(seed), initial_params=jnp.zeros(n), variance=0.7, covariance=None)
    pop = M.Population.create(M.sample_population(c, st) if samples is None else jnp.asarray(samples, dtype=jnp.float32))
    rng = np.random.default_rng(seed)
    fit = list(rng.integers(0, 3, size=P).astype(float)) if fitness is None else list(fitness)  # many ties
    for k in range(P):
        M.get_next_parameters(c, st, pop)
        M.set_evaluation_feedback(c, st, pop, fit[k])
    mean0, var0, it0 = np.asarray(st.mean), float(st.var), st.it
    best0 = (st.best_fitness, st.best_fitness_it, np.asarray(st.best_params))
    M.update_search_distribution(c, st, pop)
    S = np.asarray(pop.samples, dtype=float)
    order = np.argsort(np.asarray(fit), kind="stable")
    w = np.asarray(c.weights, dtype=float)
    want = (w[:, None] * S[order[: c.mu]]).sum(axis=0)
    if not np.allclose(np.asarray(st.mean), want, atol=1e-4):
        bad.append(f"mean {np.asarray(st.mean)} != weighted mu best {want}")
    if not np.array_equal(np.asarray(st.last_mean), mean0):
        bad.append("last_mean is not the previous mean")
    ratio = math.sqrt(float(st.var) / var0)
    if not (float(st.var) > 0 and ratio <= math.exp(0.6) * (1 + 1e-5)):
        bad.append(f"sigma ratio {ratio} > e^0.6 or var {float(st.var)} <= 0")
    cov = np.asarray(st.cov, dtype=float)
    if not np.allclose(cov, cov.T, atol=1e-6):
        bad.append(f"covariance not symmetric: {cov}")
    if not active and not (np.diag(cov) > 0).all():
        bad.append(f"non-positive variance (default variant): {np.diag(cov)}")
    if st.it != it0 or (st.best_fitness, st.best_fitness_it) != best0[:2] or not np.array_equal(np.asarray(st.best_params), best0[2]):
        bad.append("update changed the tell counter / incumbent")
    return [f"n={n} P={P} active={active} seed={seed} fitness={fit}: {b}" for b in bad], np.diag(cov)


class Tiny1(nnx.Module):
    def __init__(self, rngs):
        self.l = nnx.Linear(2, 3, rngs=rngs)


class Tiny2(nnx.Module):
    def __init__(self, rngs):
        self.a = nnx.Linear(3, 2, rngs=rngs)
        self.b = nnx.Linear(2, 1, use_bias=False, rngs=rngs)
        self.norm = nnx.LayerNorm(2, rngs=rngs)


class TinyWithStats(nnx.Module):
    """holds non-Param variables (BatchNorm statistics): 'only variables of the type nnx.Param' are read / written"""

    def __init__(self, rngs):
        self.a = nnx.Linear(3, 2, rngs=rngs)
        self.bn = nnx.BatchNorm(2, rngs=rngs)


def check_roundtrip():
    import gymnasium as gym
    from rl_blox.blox.function_approximator.mlp import MLP
    from rl_blox.blox.function_approximator.policy_head import DeterministicTanhPolicy

    bad = []
    box = gym.spaces.Box(np.array([-1.0, 0.0], np.float32), np.array([2.0, 0.5], np.float32))
    nets = [Tiny1(nnx.Rngs(0)), Tiny2(nnx.Rngs(1)), MLP(3, 2, hidden_nodes=[4, 5], activation="relu", rngs=nnx.Rngs(2)),
            TinyWithStats(nnx.Rngs(3)), DeterministicTanhPolicy(MLP(3, 2, hidden_nodes=[4], activation="relu", rngs=nnx.Rngs(4)), box)]
    for net in nets:
        p0 = np.asarray(M.flat_params(net))
        n = p0.shape[0]
        n_leaves = sum(int(np.prod(x.shape)) for x in jax.tree_util.tree_leaves(nnx.state(net, nnx.Param)))
        if n != n_leaves:
            bad.append(f"{type(net).__name__}: flat length {n} != number of parameters {n_leaves}")
        p = jnp.arange(n, dtype=jnp.float32) * 0.5 - 3
        M.set_params(net, p)
        back = np.asarray(M.flat_params(net))
        if not np.array_equal(back, np.asarray(p)):
            bad.append(f"{type(net).__name__}: flat_params(set_params(p)) != p")
        shapes = [x.shape for x in jax.tree_util.tree_leaves(nnx.state(net, nnx.Param))]
        M.set_params(net, jnp.asarray(p0))
        if not np.array_equal(np.asarray(M.flat_params(net)), p0) or shapes != [x.shape for x in jax.tree_util.tree_leaves(nnx.state(net, nnx.Param))]:
            bad.append(f"{type(net).__name__}: restoring the original vector changed parameters / shapes")
    return bad


def native_extras():
    """clauses outside the verifier's real-arithmetic model"""
    out = {}
    # NaN never becomes the incumbent, is counted as a tell, stored in the population
    bad, (c, st, pop, costs) = check_history(2, 6, [3.0, float("nan"), 3.0, float("inf"), float("-inf"), 1.0], False)
    out["nan_inf_history_violations"] = bad
    out["nan_inf_history_final"] = dict(best_fitness=float(st.best_fitness), best_fitness_it=st.best_fitness_it, it=st.it)
    # active variant: a crafted population (worst candidates 5 sigma away) gives a negative variance
    S = [[0.1, 0.0], [0.0, 0.1], [-0.1, 0.0], [5.0, 0.0], [-5.0, 0.0], [5.0, 0.1]]
    _, diag = check_update(2, 6, True, 0, fitness=[float(np.sum(np.square(s))) for s in S], samples=S)
    out["active_negative_variance_for_crafted_population"] = dict(samples=S, cov_diag=[float(x) for x in diag])
    neg = 0
    for seed in range(40):
        _, d = check_update(2, 6, True, seed)
        neg += int((d <= 0).any())
    out["active_negative_variance_in_40_sampled_generations"] = neg
    return out


def check_mode(p):
    """bounded native stand-in (run as a Task): the incumbent clauses on fitness sequences with
    ties and NON-FINITE values (NaN, +inf, -inf), which the real-arithmetic proof cannot express"""
    import json

    seqs = [[3.0, float("nan"), 5.0, 4.0], [float("nan"), 2.0, 1.0], [float("inf"), 2.0, float("nan"), 2.0], [float("nan"), float("nan")],
            [float("-inf"), 1.0, float("-inf")], [1.0, 1.0, float("nan"), 1.0], [2.0, float("inf"), 1.0, float("nan"), 0.5, 0.5]]
    obs = {}
    cases = 0
    for (n, P), fbs, mx in itertools.product([(2, 6), (1, 4), (3, 7)], seqs, (False, True)):
        b, _ = check_history(n, P, fbs, mx)
        cases += 1
        for name, key in (("incumbent.best_fitness_is_best_evaluated_so_far[non-finite]", "best_fitness"), ("incumbent.best_params_is_the_achieving_candidate[non-finite]", "best_params"),
                          ("incumbent.tells_are_counted[non-finite]", "it=")):
            o = obs.setdefault(name, dict(name=name, ok=True, detail=None, cases=0))
            o["cases"] += 1
            hit = [x for x in b if key in x]
            if hit and o["ok"]:
                o["ok"], o["detail"] = False, hit[0][:300]
                o["witness"] = dict(n_params=n, population_size=P, fitness_sequence=[repr(x) for x in fbs], maximize=mx)
    print(json.dumps(dict(obligations=list(obs.values()), cases=cases, note="fitness sequences with NaN / +-inf / ties, minimise and maximise")))


def main():
    p = load()
    if p.get("mode") == "check":
        return check_mode(p)
    m = model_of(p)
    ob = p.get("obligation", "")
    g = lambda k, d: int(m[k]) if isinstance(m.get(k), (int, float)) and 1 <= m[k] <= 12 else d  # noqa: E731
    n0, P0 = g("n_params", 3), max(2, g("n_samples_per_update", g("population", 6)))
    bad = []
    if "CMAESConfig" in ob or not ob:
        for n, P in [(n0, P0)] + list(itertools.product((1, 2, 5, 40), (2, 3, 4, 7, 12, None))):
            bad += check_weights(n, P)
    if any(k in ob for k in ("set_evaluation_feedback", "history", "get_next", "Population", "CMAESState")) or not ob:
        seqs = [[1.0, 1.0, 1.0, 1.0], [2.0, 1.0, 1.0, 3.0], [0.0, -1.0, -1.0, -2.0, -2.0, 5.0], [float("inf"), 2.0, float("nan"), 2.0],
                [float("nan"), float("nan")], [float("-inf"), 1.0, float("-inf")], [np.array([1.0, 2.0]), np.array([3.0]), 3.0]]
        for (n, P), fbs, mx in itertools.product([(n0, P0), (1, 2), (3, 4)], seqs, (False, True)):
            b, _ = check_history(n, P, fbs, mx)
            bad += b
    if "update_search_distribution" in ob or not ob:
        for (n, P), active, seed in itertools.product([(n0, P0), (1, 2), (2, 4), (3, 7)], (False, True), range(3)):
            b, _ = check_update(n, P, active, seed)
            bad += b
    if "params" in ob or not ob:
        bad += check_roundtrip()
    extras = native_extras() if (not ob or p.get("extras")) else None
    if bad:
        done(True, dict(violated=bad[:6], count=len(bad)), native_extras=extras)
    done(False, None, note="real code satisfied every clause on the counter-model sizes and the bounded neighbourhood", native_extras=extras)


main()
