"""Replay for C14 (tabular learners): run the REAL rl_blox functions on the
verifier's counter-model and on a small random neighbourhood, and evaluate the
property's clauses natively against a float64 NumPy reference written from the
property statement (textbook rules)."""
import itertools
import os
import sys

sys.path.insert(0, os.path.dirname(__file__))
from _common import done, load, num

import gymnasium as gym
import jax
import jax.numpy as jnp
import numpy as np

from rl_blox.algorithm import double_q_learning, dynaq, monte_carlo, q_learning, sarsa
from rl_blox.blox.value_policy import greedy_policy
from rl_blox.util.error_functions import td_error

TOL = 2e-4


def close(a, b):
    a, b = np.asarray(a, dtype=np.float64), np.asarray(b, dtype=np.float64)
    return a.shape == b.shape and bool(np.all(np.abs(a - b) <= TOL * np.maximum(1.0, np.maximum(np.abs(a), np.abs(b)))))


# ------------------------------------------------------------ counter-model
def raw_model(p):
    return (p.get("verifier_output") or {}).get("model") or {}


def scal(m, k, default):
    v = m.get(k)
    if v is None or isinstance(v, dict):
        return default
    v = num(v, None)
    return default if v is None else v


def table(m, k, shape, default=0.0, integer=False):
    """tensor of the counter-model (entries reported for indices < 4), clipped /
    padded to `shape`; huge rationals are kept as floats"""
    out = np.full(shape, default, dtype=np.int64 if integer else np.float64)
    t = m.get(k)
    if isinstance(t, dict):
        for idx, v in (t.get("entries") or {}).items():
            ii = tuple(int(x) for x in idx.split(","))
            if len(ii) == len(shape) and all(0 <= a < b for a, b in zip(ii, shape)):
                x = num(v, None)
                if x is not None:
                    out[ii] = int(x) if integer else float(x)
    return out


def dims(m):
    S = int(min(max(scal(m, "S", 3), 1), 4))
    A = int(min(max(scal(m, "A", 3), 1), 4))
    return S, A


def clampi(v, n):
    return int(min(max(int(v), 0), n - 1))


def rand_table(rng, S, A):
    return rng.integers(-3, 4, size=(S, A)).astype(np.float64)


# --------------------------------------------------------------- references
def td_ref(Q, s, a, r, gamma, lr, term, V):
    Q2 = np.array(Q, dtype=np.float64)
    Q2[s, a] = Q[s, a] + lr * (r + gamma * (1 - int(term)) * V - Q[s, a])
    return Q2


def first_argmax(row):
    return int(np.argmax(row))


def td_compare(Qn, Q, s, a, ref, tag):
    bad = []
    Qn = np.asarray(Qn, dtype=np.float64)
    if Qn.shape != Q.shape:
        return [f"{tag}: result shape {Qn.shape}"]
    if not close(Qn[s, a], ref[s, a]):
        bad.append(f"{tag}.entry: got {Qn[s, a]!r}, textbook {ref[s, a]!r}")
    mask = np.ones(Q.shape, bool)
    mask[s, a] = False
    if not close(Qn[mask], Q[mask]):
        bad.append(f"{tag}.frame: an entry other than ({s},{a}) changed")
    return bad


# ------------------------------------------------------- TD update functions
def td_cases(m, rng, two_tables=False):
    S, A = dims(m)
    names = ("Q_updated", "Q_other") if two_tables else ("Q", "Q")
    if "q_table1" in m:
        names = ("q_table1", "q_table2")
    base = dict(S=S, A=A, Q=table(m, names[0], (S, A)), Q2=table(m, names[1], (S, A)),
                s=clampi(scal(m, "s", 0), S), a=clampi(scal(m, "a", scal(m, "policy_action", 0)), A),
                s2=clampi(scal(m, "s_next", 0), S), a2=clampi(scal(m, "a_next", 0), A),
                r=float(scal(m, "reward", 1.0)), gamma=float(scal(m, "gamma", 0.9)), lr=float(scal(m, "learning_rate", 0.5)),
                term=bool(scal(m, "terminated", False)))
    yield base
    yield dict(base, gamma=0.9, lr=0.5)
    for _ in range(60):
        S, A = int(rng.integers(1, 5)), int(rng.integers(1, 5))
        yield dict(S=S, A=A, Q=rand_table(rng, S, A), Q2=rand_table(rng, S, A), s=int(rng.integers(S)), a=int(rng.integers(A)),
                   s2=int(rng.integers(S)), a2=int(rng.integers(A)), r=float(rng.integers(-2, 3)), gamma=0.9, lr=0.5,
                   term=bool(rng.integers(2)))


def chk_q_learning(c):
    Q = c["Q"]
    na = greedy_policy(jnp.asarray(Q, jnp.float32), c["s2"])
    Qn = q_learning._update_policy(jnp.asarray(Q, jnp.float32), c["s"], c["a"], c["r"], c["s2"], na, c["gamma"], c["term"], c["lr"])
    return td_compare(Qn, Q, c["s"], c["a"], td_ref(Q, c["s"], c["a"], c["r"], c["gamma"], c["lr"], c["term"], Q[c["s2"]].max()), "q_learning")


def chk_sarsa(c):
    Q = c["Q"]
    Qn = sarsa._update_policy(jnp.asarray(Q, jnp.float32), c["s"], c["a"], c["r"], c["s2"], c["a2"], c["gamma"], c["lr"], c["term"])
    return td_compare(Qn, Q, c["s"], c["a"], td_ref(Q, c["s"], c["a"], c["r"], c["gamma"], c["lr"], c["term"], Q[c["s2"], c["a2"]]), "sarsa")


def chk_dql(c):
    Qu, Qo = c["Q"], c["Q2"]
    Qn = double_q_learning._dql_update(jax.random.key(0), jnp.asarray(Qu, jnp.float32), jnp.asarray(Qo, jnp.float32),
                                       c["s"], c["a"], c["r"], c["s2"], c["gamma"], c["lr"], c["term"])
    V = Qo[c["s2"], first_argmax(Qu[c["s2"]])]  # other table's value of the updated table's greedy action at s'
    return td_compare(Qn, Qu, c["s"], c["a"], td_ref(Qu, c["s"], c["a"], c["r"], c["gamma"], c["lr"], c["term"], V), "double_q")


def chk_dyna_q(c):
    Q = c["Q"]
    Qn = dynaq.q_learning_update(c["s"], c["a"], c["r"], c["s2"], c["gamma"], c["lr"], jnp.asarray(Q, jnp.float32))
    return td_compare(Qn, Q, c["s"], c["a"], td_ref(Q, c["s"], c["a"], c["r"], c["gamma"], c["lr"], False, Q[c["s2"]].max()), "dyna_q")


def chk_td_error(c):
    d = float(td_error(c["r"], c["gamma"], c["Q"][c["s"], c["a"]], c["Q"][c["s2"], c["a2"]]))
    ref = c["r"] + c["gamma"] * c["Q"][c["s2"], c["a2"]] - c["Q"][c["s"], c["a"]]
    return [] if close(d, ref) else [f"td_error: got {d}, expected {ref}"]


def chk_greedy(c):
    g = int(greedy_policy(jnp.asarray(c["Q"], jnp.float32), c["s"]))
    return [] if g == first_argmax(c["Q"][c["s"]]) else [f"greedy_policy returned {g} for row {c['Q'][c['s']].tolist()}"]


# --------------------------------------------------- call sites (train_* loops)
class ScriptedEnv(gym.Env):
    """one scripted transition per step, observations / actions are indices"""

    def __init__(self, S, A, start, steps):
        self.observation_space = gym.spaces.Discrete(S)
        self.action_space = gym.spaces.Discrete(A)
        self.start = start
        self.steps = list(steps)
        self.actions = []

    def reset(self, seed=None, options=None):
        return self.start, {}

    def step(self, action):
        self.actions.append(int(action))
        s2, r, term, trunc = self.steps.pop(0)
        return s2, r, term, trunc, {"episode": {"r": r}}


def chk_train_td(which):
    def chk(c):
        Q, Q2 = c["Q"], c["Q2"]
        env = ScriptedEnv(c["S"], c["A"], c["s"], [(c["s2"], c["r"], c["term"], False)])
        kw = dict(learning_rate=c["lr"], epsilon=0.3, gamma=c["gamma"], total_timesteps=1, seed=int(c.get("seed", 1)), progress_bar=False)
        j32 = lambda x: jnp.asarray(x, jnp.float32)  # noqa: E731
        if which == "q_learning":
            out = [np.asarray(q_learning.train_q_learning(env, j32(Q), **kw))]
        elif which == "sarsa":
            out = [np.asarray(sarsa.train_sarsa(env, j32(Q), **kw))]
        else:
            r1, r2 = double_q_learning.train_double_q_learning(env, j32(Q), j32(Q2), **kw)
            out = [np.asarray(r1), np.asarray(r2)]
        if len(env.actions) != 1:
            return ["environment was not stepped exactly once"]
        a, s, s2 = env.actions[0], c["s"], c["s2"]
        if which == "q_learning":
            return td_compare(out[0], Q, s, a, td_ref(Q, s, a, c["r"], c["gamma"], c["lr"], c["term"], Q[s2].max()), "train_q_learning")
        if which == "sarsa":  # the next action is drawn by the behaviour policy: some action
            alts = [td_compare(out[0], Q, s, a, td_ref(Q, s, a, c["r"], c["gamma"], c["lr"], c["term"], Q[s2, a2]), "train_sarsa") for a2 in range(c["A"])]
            return [] if any(not b for b in alts) else alts[0]
        # double Q: exactly one table updated, with the other one as evaluator
        ch1, ch2 = not close(out[0], Q), not close(out[1], Q2)
        if ch1 and ch2:
            return ["train_double_q_learning changed both tables in one step"]
        b1 = td_compare(out[0], Q, s, a, td_ref(Q, s, a, c["r"], c["gamma"], c["lr"], c["term"], Q2[s2, first_argmax(Q[s2])]), "train_double_q[table1]")
        b2 = td_compare(out[1], Q2, s, a, td_ref(Q2, s, a, c["r"], c["gamma"], c["lr"], c["term"], Q[s2, first_argmax(Q2[s2])]), "train_double_q[table2]")
        if ch1:
            return b1
        if ch2:
            return b2
        return [] if (not b1 or not b2) else b1  # nothing changed: fine only if the textbook update is a no-op
    return chk


def train_cases(m, rng):
    for k, c in enumerate(td_cases(m, rng, two_tables=True)):
        if k >= 24:
            return
        for seed in (1, 2):
            yield dict(c, seed=seed)


# ------------------------------------------------------------------ Monte-Carlo
def mc_ref(Q, N, rew, obs, act, gamma):
    Q, N, G = np.array(Q, np.float64), np.array(N, np.float64), 0.0
    for t in reversed(range(len(rew))):
        G = rew[t] + gamma * G
        N[obs[t], act[t]] += 1
        Q[obs[t], act[t]] += (G - Q[obs[t], act[t]]) / N[obs[t], act[t]]
    return Q, N


def mc_cases(m, rng):
    S, A = dims(m)
    Q, N = table(m, "Q", (S, A)), np.abs(np.round(table(m, "n_visits", (S, A))))
    L = 2 if "reward1" in m else 1
    yield dict(Q=Q, N=N, gamma=float(scal(m, "gamma", 0.9)), rew=[float(scal(m, f"reward{t}", 1.0)) for t in range(L)],
               obs=[clampi(scal(m, f"s{t}", 0), S) for t in range(L)], act=[clampi(scal(m, f"a{t}", 0), A) for t in range(L)])
    for _ in range(40):
        S, A, L = int(rng.integers(1, 4)), int(rng.integers(1, 4)), int(rng.integers(1, 6))
        yield dict(Q=rand_table(rng, S, A), N=rng.integers(0, 4, size=(S, A)).astype(np.float64), gamma=0.9,
                   rew=[float(x) for x in rng.integers(-2, 3, size=L)], obs=[int(x) for x in rng.integers(S, size=L)],
                   act=[int(x) for x in rng.integers(A, size=L)])


def chk_mc(c):
    res = monte_carlo.update(jnp.asarray(c["Q"], jnp.float32), jnp.asarray(c["N"], jnp.float32), jnp.asarray(c["rew"], jnp.float32),
                             jnp.asarray(c["obs"], jnp.int32), jnp.asarray(c["act"], jnp.int32), c["gamma"])
    Qr, Nr = mc_ref(c["Q"], c["N"], c["rew"], c["obs"], c["act"], c["gamma"])
    bad = []
    if not close(res[0], Qr):
        bad.append(f"monte_carlo.update q_table {np.asarray(res[0]).tolist()} != running-mean reference {Qr.tolist()}")
    if not close(res[1], Nr):
        bad.append(f"monte_carlo.update n_visits {np.asarray(res[1]).tolist()} != {Nr.tolist()}")
    return bad


def mc_train_cases(m, rng):
    for _ in range(12):
        S, A = int(rng.integers(2, 4)), int(rng.integers(1, 4))
        L = int(rng.integers(1, 4))
        steps = [(int(rng.integers(S)), float(rng.integers(-2, 3)), k == L - 1, False) for k in range(L)]
        yield dict(S=S, A=A, Q=rand_table(rng, S, A), start=int(rng.integers(S)), steps=steps, gamma=0.9, seed=int(rng.integers(100)))


def chk_mc_train(c):
    """whole finished episode is handed to update(): compare against the reference on the visited trajectory"""
    out = []
    for cut in (len(c["steps"]), len(c["steps"]) - 1):  # episode just finished / still running
        if cut < 1:
            continue
        env = ScriptedEnv(c["S"], c["A"], c["start"], c["steps"][:cut] if cut == len(c["steps"]) else [(a, b, False, False) for a, b, _, _ in c["steps"][:cut]])
        q, n = monte_carlo.train_monte_carlo(env, jnp.asarray(c["Q"], jnp.float32), total_timesteps=cut, epsilon=0.3, gamma=c["gamma"],
                                             seed=c["seed"], progress_bar=False)
        obs = [c["start"]] + [s[0] for s in c["steps"][:cut - 1]]
        if cut == len(c["steps"]):
            Qr, Nr = mc_ref(c["Q"], np.zeros_like(c["Q"]), [s[1] for s in c["steps"][:cut]], obs, env.actions, c["gamma"])
        else:
            Qr, Nr = c["Q"], np.zeros_like(c["Q"])
        if not close(q, Qr) or not close(n, Nr):
            out.append(f"train_monte_carlo after {cut} steps (episode {'ended' if cut == len(c['steps']) else 'running'}): tables differ from the reference")
    return out


# ---------------------------------------------------------------------- Dyna-Q
def nested(arr):
    return [[[int(x) for x in row] for row in plane] for plane in arr]


def model_cases(m, rng):
    S, A = dims(m)
    cnt = np.clip(table(m, "transition_counter", (S, A, S), integer=True), 0, 6)
    yield dict(S=S, A=A, cnt=cnt, s=clampi(scal(m, "s", 0), S), a=clampi(scal(m, "a", 0), A), s2=clampi(scal(m, "s_next", 0), S),
               r=float(scal(m, "reward", 1.0)))
    for _ in range(40):
        S, A = int(rng.integers(1, 4)), int(rng.integers(1, 4))
        yield dict(S=S, A=A, cnt=rng.integers(0, 3, size=(S, A, S)), s=int(rng.integers(S)), a=int(rng.integers(A)), s2=int(rng.integers(S)),
                   r=float(rng.integers(-2, 3)))


def chk_model(c):
    """counter / model built so that the invariant holds before the step (one
    stored reward per counted transition, model = empirical frequencies / means)"""
    S, A, cnt = c["S"], c["A"], np.asarray(c["cnt"])
    hist = [[[[float((i + 2 * j + k + n) % 3) for n in range(cnt[i, j, k])] for k in range(S)] for j in range(A)] for i in range(S)]
    tot = cnt.sum(axis=2, keepdims=True)
    T0 = np.where(tot > 0, cnt / np.maximum(tot, 1), 0.0)
    R0 = np.array([[[np.mean(hist[i][j][k]) if hist[i][j][k] else 0.0 for k in range(S)] for j in range(A)] for i in range(S)])
    counter = dynaq.Counter(nested(cnt), hist)
    model = dynaq.ForwardModel(jnp.asarray(T0, jnp.float32), jnp.asarray(R0, jnp.float32))
    s, a, s2, r = c["s"], c["a"], c["s2"], c["r"]
    exp_hist = [x for x in hist[s][a][s2]] + [r]
    counter = dynaq.counter_update(counter, s, a, r, s2)
    model = dynaq.model_update(model, counter, s, a, s2)
    bad = []
    cnt1 = np.array(cnt)
    cnt1[s, a, s2] += 1
    if not np.array_equal(np.array(counter.transition_counter), cnt1):
        bad.append("counter_update: counts differ from 'one more (s,a,s') transition'")
    if counter.reward_history[s][a][s2] != exp_hist:
        bad.append("counter_update: reward history of (s,a,s')")
    Tn, Rn = np.asarray(model.transition, np.float64), np.asarray(model.reward, np.float64)
    freq = cnt1[s, a] / cnt1[s, a].sum()
    if not close(Tn[s, a], freq):
        bad.append(f"model.transition[{s},{a}] = {Tn[s, a].tolist()} but empirical successor frequencies are {freq.tolist()} (counts {cnt1[s, a].tolist()})")
    if not close(Rn[s, a, s2], np.mean(exp_hist)):
        bad.append(f"model.reward[{s},{a},{s2}] = {Rn[s, a, s2]} but mean observed reward is {np.mean(exp_hist)}")
    mask = np.ones((S, A), bool)
    mask[s, a] = False
    if not close(Tn[mask], T0[mask]) or not close(Rn[mask], R0[mask]):
        bad.append("model rows of other (state, action) pairs changed")
    return bad


def planning_cases(m, rng):
    for _ in range(16):
        S, A, B, n = int(rng.integers(1, 4)), int(rng.integers(1, 4)), int(rng.integers(1, 4)), int(rng.integers(1, 3))
        yield dict(S=S, A=A, Q=rand_table(rng, S, A), T=rng.integers(0, 4, size=(S, A, S)).astype(np.float64), R=rng.integers(-2, 3, size=(S, A, S)).astype(np.float64),
                   ob=[int(x) for x in rng.integers(S, size=B)], ab=[int(x) for x in rng.integers(A, size=B)], n=n, seed=int(rng.integers(100)))


def replay_chain(Q, T_, R_, pairs, gamma, lr):
    Q = np.array(Q, np.float64)
    for s, a in pairs:
        s2 = first_argmax(T_[s, a])
        Q = td_ref(Q, s, a, R_[s, a, s2], gamma, lr, False, Q[s2].max())
    return Q


def chk_planning(c):
    gamma, lr = 0.9, 0.5
    out = dynaq.planning(jnp.asarray(c["T"], jnp.float32), jnp.asarray(c["R"], jnp.float32), jnp.asarray(c["ob"], int), jnp.asarray(c["ab"], int),
                         c["n"], jax.random.key(c["seed"]), gamma, lr, jnp.asarray(c["Q"], jnp.float32))
    B = len(c["ob"])
    for ks in itertools.product(range(B), repeat=c["n"]):  # SOME sequence of visited pairs
        if close(out, replay_chain(c["Q"], c["T"], c["R"], [(c["ob"][k], c["ab"][k]) for k in ks], gamma, lr)):
            return []
    return ["planning result is not a chain of greedy-successor updates of pairs drawn (position-wise) from the buffers"]


def chk_dyna_train(c):
    env = ScriptedEnv(c["S"], c["A"], c["ob"][0], [(c["ob"][-1] % c["S"], 1.0, False, False)])
    Q = c["Q"]
    out = dynaq.train_dynaq(env, jnp.asarray(Q, jnp.float32), gamma=0.9, learning_rate=0.5, epsilon=0.3, n_planning_steps=1, total_timesteps=1,
                            seed=c["seed"], progress_bar=False)
    s, a, s2 = c["ob"][0], env.actions[0], c["ob"][-1] % c["S"]
    Q1 = td_ref(Q, s, a, 1.0, 0.9, 0.5, False, Q[s2].max())
    # after one real step the model knows exactly (s,a)->s2 with reward 1; planning replays it
    Q2 = td_ref(Q1, s, a, 1.0, 0.9, 0.5, False, Q1[s2].max())
    return [] if close(out, Q2) else [f"train_dynaq one step: {np.asarray(out).tolist()} != real-then-replayed reference {Q2.tolist()}"]


# ------------------------------------------------------------------------ main
FAMILIES = [
    ("td_error", td_cases, chk_td_error),
    ("greedy_policy", td_cases, chk_greedy),
    ("q_learning._update_policy", td_cases, chk_q_learning),
    ("q_learning.train", train_cases, chk_train_td("q_learning")),
    ("sarsa._update_policy", td_cases, chk_sarsa),
    ("sarsa.train", train_cases, chk_train_td("sarsa")),
    ("_dql_update", lambda m, rng: td_cases(m, rng, two_tables=True), chk_dql),
    ("double_q.train", train_cases, chk_train_td("double_q")),
    ("monte_carlo.train", mc_train_cases, chk_mc_train),
    ("monte_carlo", mc_cases, chk_mc),
    ("dynaq.q_learning_update", td_cases, chk_dyna_q),
    ("model_update", model_cases, chk_model),
    ("dynaq.planning", planning_cases, chk_planning),
    ("dynaq.train", planning_cases, chk_dyna_train),
]


def summarise(c):
    return {k: (np.asarray(v).tolist() if isinstance(v, (np.ndarray, list)) else v) for k, v in c.items()}


def main():
    p = load()
    task = p.get("task") or ""
    m = raw_model(p)
    rng = np.random.default_rng(14)
    for prefix, cases, chk in FAMILIES:
        if not task.startswith(prefix):
            continue
        n = 0
        for c in cases(m, rng):
            n += 1
            try:
                bad = chk(c)
            except Exception as e:  # a crash of the real function on in-range inputs is a finding of its own
                bad = [f"exception {type(e).__name__}: {e}"]
            if bad:
                done(True, dict(case=n, from_counter_model=(n <= 2), inputs=summarise(c), violated=bad))
        done(False, None, note=f"real functions satisfied every clause on the counter-model and on {n - 1} neighbouring inputs")
    done(False, None, note=f"no native replay for task {task}")


main()
