"""Replay for C13: build the REAL policy heads around tiny real networks
(GaussianMLP / MLP), run __call__ / sample / log_probability / entropy in the
shape scenario of the failed obligation (concrete dims from the counter-model,
keys "dim:...") and in a small neighbourhood (seeds, shared/separate heads,
extreme log-variances beyond the clipping range), and evaluate the property's
clauses natively against float64 NumPy closed forms.  Exceptions are reported
as violations of `<method>.defined`.

Obligation name layout:  C13.<Head>.<scenario>.<act1|actA|n1|nK>.<method>.<clause>
                         C13.q_policy.greedy.<nA|n1>..., C13.value_policy....
"""
import itertools
import os
import sys

sys.path.insert(0, os.path.dirname(__file__))
from _common import done, load, model_of

import jax

jax.config.update("jax_enable_x64", True)
import gymnasium as gym
import jax.numpy as jnp
import numpy as np
from flax import nnx

from rl_blox.blox.function_approximator.gaussian_mlp import GaussianMLP
from rl_blox.blox.function_approximator.mlp import MLP
from rl_blox.blox.function_approximator.policy_head import GaussianPolicy, GaussianTanhPolicy, SoftmaxPolicy

TOL = 1e-6
HALF_LOG_2PI = 0.5 * np.log(2 * np.pi)
HALF_LOG_2PIE = 0.5 * np.log(2 * np.pi * np.e)


def close(a, b):
    a, b = np.asarray(a, dtype=np.float64), np.asarray(b, dtype=np.float64)
    return a.shape == b.shape and np.allclose(a, b, rtol=1e-5, atol=TOL)


def attempt(bad, name, f):
    try:
        return f(), True
    except Exception as e:  # noqa: BLE001
        bad.append(f"{name}.defined: raises {type(e).__name__}: {str(e)[:120]}")
        return None, False


class Scaled(nnx.Module):
    """wraps a GaussianMLP and scales the log-variance head (extreme values beyond the clip range)"""

    def __init__(self, net, k):
        self.net = net
        self.k = k

    def __call__(self, x):
        m, lv = self.net(x)
        return m, lv * self.k


def gauss_case(kind, bshape, D, A, seed, shared, lv_scale):
    bad = []
    rng = np.random.default_rng(seed)
    base = GaussianMLP(shared, D, A, [8], "tanh", nnx.Rngs(seed))
    net = Scaled(base, lv_scale) if lv_scale != 1 else base
    low = -1.0 - rng.random(A)
    high = 0.5 + rng.random(A)
    pol = GaussianTanhPolicy(net, gym.spaces.Box(low=low, high=high, dtype=np.float64)) if kind == "tanh" else GaussianPolicy(net)
    obs = jnp.asarray(rng.normal(size=bshape + (D,)))
    act = jnp.asarray(rng.normal(size=bshape + (A,)))
    key = jax.random.key(seed + 11)
    y, lv = net(obs)
    y, lv = np.asarray(y, np.float64), np.asarray(lv, np.float64)
    mu = np.tanh(y) * (high - low) / 2 + (high + low) / 2 if kind == "tanh" else y
    sigma = np.exp(np.clip(0.5 * lv, -20.0, 2.0))
    # __call__
    r, ok = attempt(bad, "call", lambda: pol(obs))
    if ok:
        if kind == "tanh":
            if not (isinstance(r, tuple) and len(r) == 2 and close(r[0], mu) and close(r[1], sigma)):
                bad.append("call: (mean, std) differ from (mu, sigma)")
        elif not close(r, mu):
            bad.append("call.is_mean")
    # sample
    s, ok = attempt(bad, "sample", lambda: pol.sample(obs, key))
    if ok:
        s = np.asarray(s, np.float64)
        if s.shape != mu.shape:
            bad.append(f"sample: shape {s.shape}, required {mu.shape}")
        else:
            z = (s - mu) / sigma
            # same key, other parameters / observations: the standardised noise must not change
            base2 = GaussianMLP(shared, D, A, [8], "tanh", nnx.Rngs(seed + 1))
            pol2 = GaussianTanhPolicy(base2, gym.spaces.Box(low=low - 1, high=high + 2, dtype=np.float64)) if kind == "tanh" else GaussianPolicy(base2)
            obs2 = jnp.asarray(rng.normal(size=bshape + (D,)))
            y2, lv2 = base2(obs2)
            y2, lv2 = np.asarray(y2, np.float64), np.asarray(lv2, np.float64)
            mu2 = np.tanh(y2) * (high + 2 - low + 1) / 2 + (high + 2 + low - 1) / 2 if kind == "tanh" else y2
            sg2 = np.exp(np.clip(0.5 * lv2, -20.0, 2.0))
            z2 = (np.asarray(pol2.sample(obs2, key), np.float64) - mu2) / sg2
            if not np.allclose(z, z2, rtol=1e-4, atol=1e-4):
                bad.append("sample.noise_independent_of_mu_sigma: standardised noise depends on the parameters")
            zj = np.asarray(jax.random.normal(key, mu.shape), np.float64)
            if kind == "tanh" or mu.ndim == 1:
                if not np.allclose(z, zj, rtol=1e-4, atol=1e-4):
                    bad.append("sample.is_mu_plus_sigma_times_key_noise: noise is not jax.random.normal(key, shape)")
            else:
                zt = np.asarray(jax.random.normal(key, mu.shape[::-1]), np.float64).T
                if not np.allclose(z, zt, rtol=1e-4, atol=1e-4):
                    bad.append("sample.is_mu_plus_sigma_times_key_noise: noise is not tfp's event-major normal draw (lib clause)")
    # log_probability
    lp, ok = attempt(bad, "log_probability", lambda: pol.log_probability(obs, act))
    if ok:
        want = np.sum(-np.log(sigma) - HALF_LOG_2PI - 0.5 * ((np.asarray(act) - mu) / sigma) ** 2, axis=-1)
        if not close(lp, want):
            bad.append(f"log_probability.is_diagonal_gaussian_log_density: shape {np.shape(lp)} vs {want.shape}")
    # entropy
    en, ok = attempt(bad, "entropy", lambda: pol.entropy(obs))
    if ok:
        want = HALF_LOG_2PIE + np.log(sigma)
        if not close(en, want):
            bad.append(f"entropy.per_dimension_closed_form: shape {np.shape(en)}, required {want.shape}; values {'differ' if np.shape(en) == want.shape else 'n/a'}")
    return bad, dict(head=kind, obs_shape=bshape + (D,), A=A, seed=seed, shared_head=shared, log_var_scale=lv_scale)


def softmax_case(bshape, D, K, seed, scale):
    bad = []
    rng = np.random.default_rng(seed)
    net = MLP(D, K, [8], "tanh", nnx.Rngs(seed))
    pol = SoftmaxPolicy(net)
    obs = jnp.asarray(rng.normal(size=bshape + (D,)) * scale)
    act = jnp.asarray(rng.integers(0, K, size=bshape))
    key = jax.random.key(seed + 5)
    L = np.asarray(net(obs), np.float64)
    lg, ok = attempt(bad, "logits", lambda: pol.logits(obs))
    if ok and not close(lg, L):
        bad.append("logits.is_net_output")
    p, ok = attempt(bad, "call", lambda: pol(obs))
    if ok:
        p = np.asarray(p, np.float64)
        if p.shape != L.shape or (p < 0).any():
            bad.append("call.probabilities_nonnegative")
        elif not np.allclose(p.sum(-1), 1.0, atol=1e-9):
            bad.append("call.probabilities_sum_to_one")
        elif not np.allclose(p[..., :1] * np.exp(L - L.max()), p * np.exp(L[..., :1] - L.max()), atol=1e-9):
            bad.append("call.probabilities_proportional_to_exp_logits")
    else:
        p = None
    s, ok = attempt(bad, "sample", lambda: pol.sample(obs, key))
    if ok:
        s = np.asarray(s)
        if s.shape != bshape or not np.issubdtype(s.dtype, np.integer) or (s < 0).any() or (s >= K).any():
            bad.append(f"sample: shape {s.shape} dtype {s.dtype}")
    lp, ok = attempt(bad, "log_probability", lambda: pol.log_probability(obs, act))
    if ok and p is not None and p.shape == L.shape:
        want = np.log(np.take_along_axis(p, np.asarray(act)[..., None], -1)[..., 0]) if bshape else np.log(p[int(act)])
        if not close(lp, want):
            bad.append("log_probability.is_log_of_selected_probability")
    en, ok = attempt(bad, "entropy", lambda: pol.entropy(obs))
    if ok and p is not None and p.shape == L.shape:
        want = -np.sum(p * np.log(np.maximum(p, 1e-300)), axis=-1)
        if not close(en, want):
            bad.append("entropy.is_minus_sum_p_log_p")
    return bad, dict(head="softmax", obs_shape=bshape + (D,), n=K, seed=seed, obs_scale=scale)


def greedy_cases(which, n):
    from rl_blox.blox import q_policy, value_policy

    for seed in range(6):
        rng = np.random.default_rng(seed)
        if which == "q_policy":
            D = 3
            q = MLP(D, n, [8], "tanh", nnx.Rngs(seed))
            obs = jnp.asarray(rng.normal(size=(D,)))
            bad = []
            a, ok = attempt(bad, "greedy", lambda: q_policy.greedy_policy(q, obs))
            if ok:
                qv = np.asarray(q(obs))
                if np.ndim(a) != 0 or not (0 <= int(a) < n) or qv[int(a)] < qv.max():
                    bad.append("greedy.is_maximiser")
            if bad:
                return bad, dict(fn="q_policy.greedy_policy", n=n, seed=seed)
        else:
            S = 4
            qt = jnp.asarray(rng.normal(size=(S, n)))
            qt2 = jnp.asarray(rng.normal(size=(S, n)))
            for s in range(S):
                bad = []
                a, ok = attempt(bad, "greedy", lambda: value_policy.greedy_policy(qt, s))
                if ok and (not (0 <= int(a) < n) or qt[s, int(a)] < qt[s].max()):
                    bad.append("greedy.is_maximiser")
                key = jax.random.key(seed * 7 + s)
                e0, ok0 = attempt(bad, "eps_greedy", lambda: value_policy.epsilon_greedy_policy(qt, s, 0.0, key))
                if ok0 and ok and int(e0) != int(a):
                    bad.append("eps_greedy.epsilon_0_is_greedy")
                e1, ok1 = attempt(bad, "eps_greedy", lambda: value_policy.epsilon_greedy_policy(qt, s, 1.0, key))
                e2, ok2 = attempt(bad, "eps_greedy", lambda: value_policy.epsilon_greedy_policy(qt2, s, 1.0, key))
                if ok1 and ok2 and (int(e1) != int(e2) or not (0 <= int(e1) < n)):
                    bad.append("eps_greedy.epsilon_1_ignores_values")
                for eps in (0.3, 0.7):
                    e, oke = attempt(bad, "eps_greedy", lambda: value_policy.epsilon_greedy_policy(qt, s, eps, key))
                    roll = float(jax.random.uniform(jax.random.split(key)[1]))
                    if oke and roll >= eps and qt[s, int(e)] < qt[s].max():
                        bad.append("eps_greedy.greedy_unless_roll_below_epsilon")
                if bad:
                    return bad, dict(fn="value_policy", n=n, seed=seed, observation=s)
    return [], None


def main():
    p = load()
    m = model_of(p)
    name = p["obligation"].split("C13.", 1)[1]
    parts = name.split(".")
    head = parts[0]
    if head in ("q_policy", "value_policy"):
        n = 1 if "n1" in parts else int(m.get("dim:n_actions") or 4)
        bad, w = greedy_cases(head, n)
        done(bool(bad), dict(inputs=w, violated=bad) if bad else None, note=None if bad else "all greedy / epsilon-greedy clauses hold natively on the sampled tables")
    scen, av = parts[1], parts[2]
    method = parts[3] if len(parts) > 3 else ""
    D = int(m.get("dim:D_obs") or 3)
    N = int(m.get("dim:N") or 3)
    A = 1 if av in ("act1", "n1") else int(m.get("dim:D_act") or 4)
    bshape = {"obs1": (), "batch1": (1,), "batch2": (2,), "batchN": (N,)}[scen]
    found = []
    if head == "SoftmaxPolicy":
        cases = (softmax_case(bshape, D, A, seed, scale) for seed, scale in itertools.product(range(3), (1.0, 50.0)))
    else:
        kind = "tanh" if head == "GaussianTanhPolicy" else "plain"
        cases = (gauss_case(kind, bshape, D, A, seed, shared, k) for seed, shared, k in itertools.product(range(2), (False, True), (1, 200)))
    # reproduced: a native violation of the same method (clause group) as the failed obligation
    for bad, w in cases:
        if bad:
            found.append(dict(inputs=w, violated=bad))
            if any(v.startswith(method) for v in bad):
                done(True, found[-1])
    done(False, dict(other_violations=found[:2]) if found else None,
         note="real head satisfied the clauses of this method on the counter-model shapes and the bounded neighbourhood")


main()
