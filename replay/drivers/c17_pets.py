"""Replay for C17 (PETS model): evaluate the property's clauses natively on the
real code with a tiny real GaussianMLPEnsemble (E=3, outputs 1 and 2), single
input vectors and batches, and on a real gymnasium Pendulum-v1.

The failing obligations of C17 are shape / structure violations that do not
depend on the verifier's counter-model (any parameter values reproduce them),
so the driver runs a small fixed neighbourhood: n_outputs in {1, 2}, vector
and batch inputs, two seeds.  It prints one JSON line
{"reproduced": bool, "witness": ...}; `witness.checks` lists every clause that
was evaluated with shapes / exceptions / max abs errors.
"""
import os
import sys
import warnings

warnings.filterwarnings("ignore")
sys.path.insert(0, os.path.dirname(__file__))
from _common import done, load  # noqa: E402

import jax  # noqa: E402
import jax.numpy as jnp  # noqa: E402
import numpy as np  # noqa: E402
from flax import nnx  # noqa: E402

import rl_blox.blox.probabilistic_ensemble as pe  # noqa: E402

TOL = 1e-5
N_ENS, N_FEAT = 3, 4


def softplus(x):
    return np.logaddexp(0.0, x)


def mk_model(n_out, seed=0, n_feat=N_FEAT):
    m = pe.GaussianMLPEnsemble(N_ENS, False, n_feat, n_out, [8, 8], "relu", nnx.Rngs(seed))
    # non-trivial learned bounds (the constructor starts them at zero)
    m.raw_min_log_var.value = jnp.linspace(-0.7, 0.4, n_out)
    m.raw_max_log_var.value = jnp.linspace(0.9, -0.3, n_out)
    return m


def member(model, i):
    graphdef, state = nnx.split(model.ensemble)
    return nnx.merge(graphdef, jax.tree.map(lambda x: x[i], state))


def spec_joint(model, X):
    """means / log_vars from the specification: member i applied row-wise + soft bounds"""
    lo = np.asarray(-20.0 + 20.0 * jax.nn.sigmoid(model.raw_min_log_var.value))
    hi = np.asarray(-4.0 + 9.0 * jax.nn.sigmoid(model.raw_max_log_var.value))
    means, lvs = [], []
    for i in range(N_ENS):
        mu, raw = member(model, i)(X)
        raw = np.asarray(raw)
        lv = lo + softplus(hi - softplus(hi - raw) - lo)
        means.append(np.asarray(mu))
        lvs.append(lv)
    return np.stack(means), np.stack(lvs), lo, hi


def err(a, b):
    a, b = np.asarray(a), np.asarray(b)
    if a.shape != b.shape:
        return f"shape {a.shape} vs {b.shape}"
    return float(np.max(np.abs(a - b))) if a.size else 0.0


def bad(e):
    return isinstance(e, str) or e > TOL


def check_call(checks):
    viol = []
    for D in (1, 2):
        model = mk_model(D)
        X = jax.random.normal(jax.random.key(1), (5, N_FEAT))
        means, lvs = model(X)
        sm, sl, lo, hi = spec_joint(model, X)
        e1, e2 = err(means, sm), err(lvs, sl)
        inb = bool(np.all(np.asarray(lvs) > lo) and np.all(np.asarray(lvs) < np.maximum(lo, hi) + np.log(2.0) + 1e-6))
        checks.append(dict(clause="call", n_outputs=D, means=str(means.shape), log_vars=str(lvs.shape), err_means=e1, err_log_vars=e2, within_soft_bounds=inb))
        if bad(e1) or bad(e2) or not inb:
            viol.append(f"call D={D}")
    return viol


SCENARIO = {"D": (1, 2), "kinds": ("batch", "vector")}


def check_base(checks, which):
    viol = []
    for D in SCENARIO["D"]:
        model = mk_model(D)
        Xb = jax.random.normal(jax.random.key(2), (5, N_FEAT))
        for kind, x in (("batch", Xb), ("vector", Xb[0])):
            if kind not in SCENARIO["kinds"]:
                continue
            joint_in = x if x.ndim == 2 else x[None]
            means, lvs = model(joint_in)
            for i in (0, 2):
                ref_m = means[i] if x.ndim == 2 else means[i, 0]
                ref_l = lvs[i] if x.ndim == 2 else lvs[i, 0]
                c = dict(clause=which, n_outputs=D, input=kind, x_shape=str(x.shape), member=i, required_shape=str(ref_m.shape))
                try:
                    if which == "base_predict":
                        mu, var = model.base_predict(x, i)
                        c.update(mean_shape=str(mu.shape), var_shape=str(var.shape), err_mean=err(mu, ref_m), err_var=err(var, np.exp(ref_l)))
                        wrong = bad(c["err_mean"]) or bad(c["err_var"])
                    else:
                        d = model.base_distribution(x, i)
                        loc, std = d.mean(), d.stddev()
                        scale = d.scale.diag if hasattr(d.scale, "diag") else std
                        c.update(loc_shape=str(d.loc.shape), scale_diag_shape=str(scale.shape), batch_shape=str(tuple(d.batch_shape)),
                                 event_shape=str(tuple(d.event_shape)), sample_shape=str(d.sample(seed=jax.random.key(0)).shape),
                                 err_loc=err(d.loc, ref_m), err_std=err(scale, np.exp(0.5 * np.asarray(ref_l))))
                        wrong = bad(c["err_loc"]) or bad(c["err_std"]) or tuple(d.batch_shape) != tuple(x.shape[:-1])
                except Exception as e:  # noqa: BLE001
                    c.update(raises=f"{type(e).__name__}: {str(e)[:160]}")
                    wrong = True
                c["violates_property"] = bool(wrong)
                checks.append(c)
                if wrong:
                    viol.append(f"{which} D={D} {kind} member={i}")
    return viol


def check_aggregate(checks):
    viol = []
    for D in (1, 2):
        model = mk_model(D)
        X = jax.random.normal(jax.random.key(3), (6, N_FEAT))
        mean, var = model.aggregate(X)
        means, lvs = model(X)
        means, lvs = np.asarray(means), np.asarray(lvs)
        want_mean = means.mean(0)
        want_var = np.exp(lvs).mean(0) + ((means - want_mean) ** 2).mean(0)
        e1, e2 = err(mean, want_mean), err(var, want_var)
        checks.append(dict(clause="aggregate", n_outputs=D, mean=str(mean.shape), var=str(var.shape), err_mean=e1, err_var=e2))
        if bad(e1) or bad(e2):
            viol.append(f"aggregate D={D}")
    return viol


def check_nll(checks):
    rng = np.random.default_rng(0)
    viol = []
    for shape in ((7, 2), (3, 7, 2)):
        mu, lv, Y = rng.normal(size=shape), rng.normal(size=shape), rng.normal(size=shape)
        got = float(pe.gaussian_nll(jnp.asarray(mu), jnp.asarray(lv), jnp.asarray(Y)))
        want = float(np.mean(0.5 * (Y - mu) ** 2 * np.exp(-lv)) + 0.5 * np.mean(lv))
        checks.append(dict(clause="gaussian_nll", shape=str(shape), got=got, closed_form=want))
        if abs(got - want) > 1e-4:
            viol.append(f"gaussian_nll {shape}")
    model = mk_model(2)
    X = jnp.asarray(rng.normal(size=(N_ENS, 5, N_FEAT)))
    Y = jnp.asarray(rng.normal(size=(N_ENS, 5, 2)))
    got = float(pe.gaussian_ensemble_loss(model, X, Y))
    means, lvs = (np.asarray(a) for a in model(X))
    want = float(np.mean(0.5 * (np.asarray(Y) - means) ** 2 * np.exp(-lvs)) + 0.5 * np.mean(lvs)
                 + 0.01 * (float(model.max_log_var.sum()) - float(model.min_log_var.sum())))
    checks.append(dict(clause="gaussian_ensemble_loss", got=got, closed_form=want))
    if abs(got - want) > 1e-4:
        viol.append("gaussian_ensemble_loss")
    return viol


def check_pendulum(checks):
    import gymnasium as gym

    from rl_blox.algorithm.pets_reward_models import pendulum_reward

    env = gym.make("Pendulum-v1")
    env.reset(seed=0)
    rng = np.random.default_rng(1)
    worst = 0.0
    viol = []
    cases = [(th, thd, u) for th in (-3.1, -1.0, 0.0, 0.5, 2.5, 3.14159, 4.0, -5.0) for thd in (-8.0, 0.3, 7.5) for u in (-3.0, -0.4, 1.9, 2.5)]
    cases += [(float(rng.uniform(-10, 10)), float(rng.uniform(-8, 8)), float(rng.uniform(-3, 3))) for _ in range(50)]
    for th, thd, u in cases:
        env.unwrapped.state = np.array([th, thd])
        obs = np.array([np.cos(th), np.sin(th), thd], dtype=np.float32)
        _, r_env, *_ = env.step(np.array([u], dtype=np.float32))
        r_model = float(pendulum_reward(jnp.array([u]), jnp.asarray(obs)))
        e = abs(r_env - r_model)
        worst = max(worst, e)
        if e > 1e-3 * max(1.0, abs(r_env)):
            viol.append(dict(theta=th, theta_dot=thd, torque=u, env=float(r_env), model=r_model))
    checks.append(dict(clause="pendulum_reward vs gymnasium Pendulum-v1 step", cases=len(cases), max_abs_err=worst, mismatches=viol[:3]))
    return [f"pendulum {v}" for v in viol[:3]]


def check_ts_inf(checks):
    """every step must add a sample of N(mean_i(z), diag exp(log_var_i(z))) of the particle's own member"""
    from rl_blox.algorithm import pets

    viol = []
    D, A = 2, 1
    model = mk_model(D, n_feat=D + A)
    obs = jnp.array([0.3, -0.2])
    act = jnp.array([0.7])
    z = jnp.hstack((obs, act))
    means, lvs = model(z[None])
    for i in range(N_ENS):
        d = model.base_distribution(z, i)
        std_used = np.asarray(d.stddev())  # what ts_inf samples with; it then keeps row [0]
        std_spec = np.exp(0.5 * np.asarray(lvs[i, 0]))
        used_row0 = std_used[0] if std_used.ndim == 2 else std_used
        e = err(used_row0, std_spec)
        checks.append(dict(clause="ts_inf step distribution", member=i, stddev_shape=str(std_used.shape), std_of_step=used_row0.tolist(), std_of_member=std_spec.tolist(), err=e))
        if bad(e):
            viol.append(f"ts_inf: step noise scale {used_row0.tolist()} != member std {std_spec.tolist()} (member {i})")
    keys = jax.random.split(jax.random.key(0), (2, 3))
    traj = pets.ts_inf(keys, jnp.array([0, 1, 2]), jnp.ones((2, 2, A)) * 0.1, obs, model)
    checks.append(dict(clause="ts_inf shape", shape=str(traj.shape), required=str((2, 3, 3, D)), starts_at_obs=err(traj[:, :, 0], np.broadcast_to(obs, (2, 3, D)))))
    return viol


def check_evaluate_plans(checks):
    from rl_blox.algorithm import pets

    rng = np.random.default_rng(2)
    S, P, H, A, D = 3, 4, 5, 1, 3
    acts = jnp.asarray(rng.normal(size=(S, H, A)))
    traj = jnp.asarray(rng.normal(size=(S, P, H + 1, D)))
    rm = lambda a, o: jnp.sin(a[..., 0]) * o[..., 0] + o[..., 2] ** 2  # noqa: E731
    got = np.asarray(pets.evaluate_plans(acts, traj, rm))
    want = np.zeros(S)
    for s in range(S):
        want[s] = np.mean([sum(float(rm(acts[s, t], traj[s, p, t])) for t in range(H)) for p in range(P)])
    e = err(got, want)
    checks.append(dict(clause="evaluate_plans", got=str(got.shape), err=e))
    return ["evaluate_plans"] if bad(max(e, 0) if not isinstance(e, str) else e) and (isinstance(e, str) or e > 1e-4) else []


def check_training_indices(checks):
    """each member only sees indices of its own bootstrap row, each column at most once per epoch"""
    viol = []
    captured = {}
    real_boot, real_epoch = pe.bootstrap, pe.train_epoch

    def boot(*a, **k):
        captured["boot"] = np.asarray(real_boot(*a, **k))
        return jnp.asarray(captured["boot"])

    def epoch(model, optimizer, X, Y, indices):
        captured.setdefault("epochs", []).append(np.asarray(indices))
        return jnp.asarray(0.0)

    pe.bootstrap, pe.train_epoch = boot, epoch
    try:
        import optax

        model = mk_model(1)
        opt = nnx.Optimizer(model, optax.adam(1e-3), wrt=nnx.Param)
        for n, bs, ts in ((23, 4, 0.7), (16, 4, 1.0), (9, 5, 0.9)):
            captured.clear()
            X, Y = jnp.zeros((n, N_FEAT)), jnp.zeros((n, 1))
            pe.train_ensemble(model, opt, ts, X, Y, 2, bs, jax.random.key(n))
            b = captured["boot"]
            ok_shape = b.shape == (N_ENS, int(ts * n)) and b.min() >= 0 and b.max() < n
            ok = True
            for idx in captured["epochs"]:
                ok &= idx.shape[1:] == (N_ENS, bs) and idx.shape[0] == b.shape[1] // bs
                for e in range(N_ENS):
                    used = np.sort(idx[:, e, :].ravel())
                    avail = list(np.sort(b[e]))
                    for v in used:  # multiset inclusion
                        if v in avail:
                            avail.remove(v)
                        else:
                            ok = False
            checks.append(dict(clause="bootstrap / train_ensemble indices", n=n, batch_size=bs, train_size=ts, bootstrap_shape=str(b.shape),
                               epochs=len(captured["epochs"]), index_shape=str(captured["epochs"][0].shape), ok=bool(ok and ok_shape)))
            if not (ok and ok_shape):
                viol.append(f"training indices n={n} bs={bs}")
    finally:
        pe.bootstrap, pe.train_epoch = real_boot, real_epoch
    return viol


GROUPS = [
    ("call", check_call), ("base_predict", lambda c: check_base(c, "base_predict")),
    ("base_distribution", lambda c: check_base(c, "base_distribution")), ("aggregate", check_aggregate),
    ("gaussian_nll", check_nll), ("gaussian_ensemble_loss", check_nll), ("pendulum_reward", check_pendulum), ("norm_angle", check_pendulum),
    ("ts_inf", check_ts_inf), ("evaluate_plans", check_evaluate_plans), ("bootstrap", check_training_indices),
    ("train_ensemble", check_training_indices), ("train_epoch", check_training_indices),
]


def main():
    p = load()
    ob = p.get("obligation", "")
    task = ob.split(".", 1)[1] if "." in ob else ob
    todo = [f for k, f in GROUPS if task.startswith(k)]
    if not todo:
        todo = [f for _, f in GROUPS]
    checks, viol, seen = [], [], set()
    # the scenario named by the obligation (rank / output size); everything when it names none
    if "rank1" in task:
        SCENARIO["kinds"] = ("vector",)
    elif "rank2" in task:
        SCENARIO["kinds"] = ("batch",)
    if "D=1" in task:
        SCENARIO["D"] = (1,)
    elif ",D]" in task:
        SCENARIO["D"] = (2,)
    for f in todo:
        if f in seen:
            continue
        seen.add(f)
        try:
            viol += f(checks)
        except Exception as e:  # noqa: BLE001
            checks.append(dict(clause=getattr(f, "__name__", "check"), driver_error=f"{type(e).__name__}: {e}"))
    # narrow the witness to the scenario of the obligation where the name carries one
    sel = checks
    if "rank1" in task:
        sel = [c for c in checks if c.get("input") in (None, "vector")]
    elif "rank2" in task:
        sel = [c for c in checks if c.get("input") in (None, "batch")]
    if "D=1" in task:
        sel = [c for c in sel if c.get("n_outputs") in (None, 1)]
    elif ",D]" in task:
        sel = [c for c in sel if c.get("n_outputs") in (None, 2)]
    if sel is not checks:
        viol = [f"{c['clause']} n_outputs={c.get('n_outputs')} {c.get('input')} member={c.get('member')}" for c in sel if c.get("violates_property")]
        reproduced = any(c.get("violates_property") for c in sel)
    else:
        reproduced = bool(viol)
    done(reproduced, dict(obligation=ob, violated=viol[:6], checks=sel[:12]))


if __name__ == "__main__":
    main()
