"""C19 native BOUNDED stand-in and replay driver.

mode == "check" (run as a Task): pickles every replay-buffer class in a bounded set of reachable states
(empty, partially filled, wrapped, mid-episode, non-uniform priorities), reloads it and drives the original
and the copy through the same short continuation (add / sample with equal generator state / update_priority /
reset_max_priority), comparing contents and every sampled batch bit for bit; round-trips three small module types
through save_pickle/load_pickle and through the Orbax checkpointer + restore_checkpoint and compares parameters
and outputs.  Otherwise (replay of a failed obligation) the same run, reporting the first difference."""
import copy
import itertools
import os
import pickle
import sys
import tempfile

import numpy as np

sys.path.insert(0, os.path.dirname(__file__))
from _common import done, load  # noqa: E402

import jax  # noqa: E402
import jax.numpy as jnp  # noqa: E402
from flax import nnx  # noqa: E402

from rl_blox.blox import replay_buffer as rb  # noqa: E402


def tr(j, term=False, trunc=False, sub=False):
    d = dict(observation=np.array([j, j + .5]), action=np.array([j * 2.0]), reward=float(j) / 3, next_observation=np.array([j + 1, j + 1.5]))
    if sub:
        d["terminated"], d["truncated"] = term, trunc
    else:
        d["termination"] = int(term)
    return d


def state_of(b):
    out = {}
    for k, v in b.__dict__.items():
        if k == "Batch":
            continue
        if isinstance(v, dict):
            n = b.current_len
            out[k] = {kk: np.asarray(vv[:n]).tobytes() if vv.ndim else b"" for kk, vv in v.items()}
        elif isinstance(v, rb.PriorityBuffer):
            out[k] = (v.max_priority, np.asarray(v.priority[: b.current_len]).tobytes(), np.asarray(v.sampled_indices).tobytes())
        elif isinstance(v, np.ndarray):
            out[k] = v.tobytes()
        else:
            out[k] = v
    return out


def batch_bytes(x):
    if isinstance(x, tuple) and not hasattr(x, "_fields"):
        return tuple(batch_bytes(y) for y in x)
    if hasattr(x, "_fields"):
        return tuple(np.asarray(y).tobytes() for y in x)
    return np.asarray(x).tobytes()


def builders():
    yield "ReplayBuffer", lambda: rb.ReplayBuffer(5), False, False
    yield "LAP", lambda: rb.LAP(5), False, True
    yield "PrioritizedReplayBuffer", lambda: rb.PrioritizedReplayBuffer(5), False, True
    yield "SubtrajectoryReplayBuffer", lambda: rb.SubtrajectoryReplayBuffer(7, horizon=2), True, False
    yield "SubtrajectoryReplayBufferPER", lambda: rb.SubtrajectoryReplayBufferPER(7, horizon=2), True, True
    yield "MultiTaskReplayBuffer", lambda: rb.MultiTaskReplayBuffer(rb.LAP(4), 2), False, True


def fill(b, n, sub, prio, name):
    rng = np.random.default_rng(n)
    for j in range(n):
        if name == "MultiTaskReplayBuffer":
            b.select_task(j % 2)
        term = sub and (j % 4 == 3)
        b.add_sample(**tr(j, term=term, sub=sub))
    if prio and n >= 3 and name != "MultiTaskReplayBuffer":
        try:
            sample(b, rng, sub)
            b.update_priority(np.array([0.5, 2.0, 7.0]))
        except ValueError:
            pass


def sample(b, rng, sub):
    if sub:
        return b.sample_batch(3, 2, True, rng)
    return b.sample_batch(3, rng)


def continuation(b, ops, sub, prio, name, seed):
    rng = np.random.default_rng(seed)
    trace = []
    for i, op in enumerate(ops):
        try:
            if op == "add":
                if name == "MultiTaskReplayBuffer":
                    b.select_task(i % 2)
                b.add_sample(**tr(100 + i, term=sub and i % 3 == 2, sub=sub))
            elif op == "sample":
                trace.append(batch_bytes(sample(b, rng, sub)))
            elif op == "update" and prio:
                sample(b, rng, sub)
                b.update_priority(np.array([1.5, 0.25, 3.0]))
            elif op == "reset" and prio:
                b.reset_max_priority()
        except Exception as e:  # both copies must fail alike
            trace.append(("exc", type(e).__name__))
        trace.append(snapshot(b, name))
    return trace


def snapshot(b, name):
    if name == "MultiTaskReplayBuffer":
        return (b.selected_task, tuple(sorted(b.active_buffers)), tuple(repr(state_of(x)) for x in b.buffers))
    return repr(state_of(b))


def check_buffers(obl, limit_ops):
    cases = 0
    for name, mk, sub, prio in builders():
        for n in (0, 1, 3, 5, 9, 12):
            b = mk()
            fill(b, n, sub, prio, name)
            c = pickle.loads(pickle.dumps(b))
            ok = snapshot(b, name) == snapshot(c, name)
            obl(f"{name}.contents_identical_after_reload", ok, f"n={n}")
            for ops in itertools.product(("add", "sample", "update", "reset"), repeat=limit_ops):
                b1, c1 = copy.deepcopy(b), copy.deepcopy(c)
                t1 = continuation(b1, ops, sub, prio, name, 7)
                t2 = continuation(c1, ops, sub, prio, name, 7)
                cases += 1
                obl(f"{name}.same_behaviour_after_reload", t1 == t2, f"filled with {n}, continuation {ops}")
    return cases


def check_modules(obl):
    from rl_blox.blox.double_qnet import ContinuousClippedDoubleQNet
    from rl_blox.blox.function_approximator.layer_norm_mlp import LayerNormMLP
    from rl_blox.blox.function_approximator.mlp import MLP
    from rl_blox.blox.probabilistic_ensemble import restore_checkpoint
    from rl_blox.logging.checkpointer import OrbaxCheckpointer
    from rl_blox.util.serialize import load_pickle, save_pickle

    def mods():
        yield "MLP", lambda s: MLP(3, 2, [4], "relu", nnx.Rngs(s)), 3
        yield "LayerNormMLP", lambda s: LayerNormMLP(3, 2, [4], "relu", nnx.Rngs(s)), 3
        yield "DoubleQ", lambda s: ContinuousClippedDoubleQNet(MLP(3, 1, [4], "relu", nnx.Rngs(s)), MLP(3, 1, [4], "tanh", nnx.Rngs(s + 1))), 3
        # a module with NON-Param variables (action_scale / action_bias): the policy heads of DDPG / TD3 / TD7 / SAC / MR.Q
        import gymnasium as gym
        from rl_blox.blox.function_approximator.policy_head import DeterministicTanhPolicy

        box = lambda s: gym.spaces.Box(np.array([-1.0 - s, 0.0], np.float32), np.array([2.0, 0.5 + s], np.float32))  # noqa: E731
        yield "TanhPolicy", lambda s: DeterministicTanhPolicy(MLP(3, 2, [4], "relu", nnx.Rngs(s)), box(s % 7)), 3
    cases = 0
    x = jnp.asarray(np.random.default_rng(0).normal(size=(4, 3)))
    for name, mk, d in mods():
        net, other = mk(1), mk(99)
        leaves = lambda m: [np.asarray(v).tobytes() for v in jax.tree.leaves(nnx.state(m))]  # noqa: E731
        with tempfile.TemporaryDirectory() as td:
            fn = os.path.join(td, "m.pkl")
            save_pickle(fn, net)
            back = load_pickle(fn, nnx.split(other)[0])
            obl(f"{name}.pickle.parameters_identical", leaves(back) == leaves(net), "")
            obl(f"{name}.pickle.same_outputs", np.asarray(back(x)).tobytes() == np.asarray(net(x)).tobytes(), "")
            try:
                lg = OrbaxCheckpointer(checkpoint_dir=td)
                path = os.path.join(os.path.abspath(td), f"{name}_ckpt")
                lg.save_model(path, net)
                try:
                    rest = restore_checkpoint(path, other)
                except ValueError as e:  # the checkpoint does not cover the module's variables
                    obl(f"{name}.orbax.parameters_identical", False, f"checkpoint written by save_model cannot be restored: {e}")
                    cases += 1
                    continue
                obl(f"{name}.orbax.parameters_identical", leaves(rest) == leaves(net), "")
                obl(f"{name}.orbax.same_outputs", np.asarray(rest(x)).tobytes() == np.asarray(net(x)).tobytes(), "")
            except TypeError as e:
                obl(f"{name}.orbax.driver_could_not_construct_checkpointer", True, str(e))
        cases += 1
    return cases


def main():
    p = load()
    results = {}

    def obl(name, ok, detail):
        r = results.setdefault(name, dict(name=name, ok=True, detail=None, cases=0))
        r["cases"] += 1
        if not ok and r["ok"]:
            r["ok"], r["detail"], r["witness"] = False, detail, detail  # the detail names class, state and continuation

    ops = 2 if p.get("tier", "quick") == "quick" else 3
    cases = check_buffers(obl, ops)
    cases += check_modules(obl)
    if p.get("mode") == "check":
        import json
        print(json.dumps(dict(obligations=list(results.values()), cases=cases, note=f"continuations of {ops} operations")))
        return
    bad = [r for r in results.values() if not r["ok"]]
    done(bool(bad), bad[:3] if bad else None, cases=cases)


main()
