"""Replay for the scheduler part of C11: drives the REAL task selectors, the REAL
discounted-UCB bandit and the REAL multi-task schedulers (with a scripted
single-task routine that honours the per-routine contract: executes at most the
remaining budget, stops at the episode limit, reports start + executed) through
bounded call histories / configurations and evaluates the property's clauses
natively.  The verifier's counter-model (budgets, interval, number of tasks)
is tried first."""
import contextlib
import io
import itertools
import math
import os
import sys
import warnings
from collections import namedtuple

sys.path.insert(0, os.path.dirname(__file__))
from _common import done, load, model_of

warnings.filterwarnings("ignore")

import gymnasium as gym  # noqa: E402
import numpy as np  # noqa: E402

from rl_blox.blox.mapb import DUCB  # noqa: E402
from rl_blox.blox.multitask import DiscreteTaskSet, DUCBGeneralized, RoundRobinSelector, TaskSelector  # noqa: E402

WINDOW = 250
SKIP = os.environ.get("C11_REPLAY_SKIP", "")  # clause keywords to leave out (to look past a known finding)


# ------------------------------------------------------------------ selectors
def _sel_state(sel):
    st = dict(waiting=sel.waiting_for_reward)
    if isinstance(sel, RoundRobinSelector):
        st["i"] = sel.i
    if isinstance(sel, DUCBGeneralized):
        st.update(chosen=list(sel.ducb.chosen_arms), rewards=[float(x) for x in sel.ducb.rewards], last=[list(x) for x in sel.last_rewards])
    return st


def check_selector(make, n_tasks, tasks, history):
    """history: sequence of 's' (select) / float (feedback).  Returns list of violated clauses."""
    sel = make()
    bad = []
    waiting = False
    if sel.waiting_for_reward:
        bad.append("init.not_waiting")
    prev_pos = None
    for step, op in enumerate(history):
        before = _sel_state(sel)
        legal = (not waiting) if op == "s" else waiting
        try:
            out = sel.select() if op == "s" else sel.feedback(op)
            raised = False
        except AssertionError:
            raised = True
        after = _sel_state(sel)
        what = "select" if op == "s" else "feedback"
        if raised:
            if legal:
                bad.append(f"{what}.rejected_only_out_of_turn")
            if after["waiting"] != before["waiting"]:
                bad.append(f"{what}.rejected_call_leaves_flag")
            if {k: v for k, v in after.items() if k in ("chosen", "rewards")} != {k: v for k, v in before.items() if k in ("chosen", "rewards")}:
                if "bandit_history" in SKIP:
                    return bad  # the object is corrupted from here on
                bad.append(f"{what}.rejected_call_leaves_bandit_history")
            if after.get("i") != before.get("i"):
                bad.append(f"{what}.rejected_call_leaves_position")
            continue
        if not legal:
            bad.append(f"{what}.accepted_only_in_turn")
        if op == "s":
            waiting = True
            if not after["waiting"]:
                bad.append("select.flips_waiting_flag")
            if not (0 <= int(out) < n_tasks):
                bad.append(f"select.valid_task_id (got {out})")
            if int(out) not in [int(t) for t in tasks]:
                bad.append("select.is_member_of_task_list")
            if isinstance(sel, RoundRobinSelector):
                pos = sel.i % len(tasks)
                if int(out) != int(tasks[pos]):
                    bad.append("select.is_member_of_task_list")
                if prev_pos is not None and pos != (prev_pos + 1) % len(tasks):
                    bad.append("select.advances_one_position_cyclically")
                prev_pos = pos
            if isinstance(sel, DUCBGeneralized):
                arm = sel.chosen_arm
                if not (0 <= arm < len(tasks)) or int(tasks[arm]) != int(out):
                    bad.append("select.task_is_the_bandit_arm_mapped_through_the_task_list")
                if after["chosen"] != before["chosen"] + [arm]:
                    bad.append("select.bandit_history.grows_by_exactly_one_record")
                t = len(before["rewards"])
                if t < 2 * len(tasks) and arm != t % len(tasks):
                    bad.append("select.initial_rounds.arm_is_reward_count_mod_n_arms")
        else:
            waiting = False
            if after["waiting"]:
                bad.append("feedback.flips_waiting_flag")
            if isinstance(sel, DUCBGeneralized):
                arm = sel.chosen_arm
                if after["last"][arm] != before["last"][arm] + [op] or any(after["last"][k] != before["last"][k] for k in range(len(tasks)) if k != arm):
                    bad.append("feedback.reward_recorded_for_the_selected_task_only")
                if len(after["chosen"]) != len(after["rewards"]):
                    bad.append("feedback.GWF.no_choice_pending")
                first = len(before["last"][arm]) == 0
                if first and (after["chosen"] != before["chosen"][:-1] or after["rewards"] != before["rewards"]):
                    bad.append("feedback.first_visit_retracts_the_choice")
                if not first and (len(after["rewards"]) != len(before["rewards"]) + 1 or after["chosen"] != before["chosen"]):
                    bad.append("feedback.bandit_rewards_grow_by_exactly_one_record")
        if bad:
            break
    return bad


def selector_sweep(kind):
    makers = []
    for n in (1, 2, 3):
        tasks = np.arange(n)
        if kind in (None, "base"):
            makers.append(("TaskSelector", n, tasks, lambda tasks=tasks: TaskSelector(tasks)))
        if kind in (None, "rr"):
            makers.append(("RoundRobinSelector", n, tasks, lambda tasks=tasks: RoundRobinSelector(tasks)))
        if kind in (None, "dg") and n >= 2:
            for baseline, op in (("last", None), ("max", "max-with-0"), (None, None), (None, "neg"), ("avg", "abs")):
                makers.append((f"DUCBGeneralized[{baseline},{op}]", n, tasks,
                               lambda tasks=tasks, baseline=baseline, op=op: DUCBGeneralized(tasks, 1.0, 0.95, 0.002, baseline, op)))
    ops = ["s", 0.0, 1.0]
    for name, n, tasks, make in makers:
        for length in range(1, 7):
            for hist in itertools.product(ops, repeat=length):
                bad = check_selector(make, n, tasks, hist)
                if bad:
                    return dict(selector=name, n_tasks=n, history=list(hist), violated=bad)
        # long legal runs (equal, zero and varying rewards): beyond the initial rounds of the bandit
        for rewards in ([0.0] * 40, [1.0] * 40, [((7 * j) % 5) - 2.0 for j in range(60)]):
            hist = []
            for r in rewards:
                hist += ["s", r]
            bad = check_selector(make, n, tasks, hist)
            if bad:
                return dict(selector=name, n_tasks=n, history=f"legal run with rewards {rewards[:6]}..", violated=bad)
    return None


# ------------------------------------------------------------------ DUCB
def ducb_spec(chosen, rewards, n, gamma, B, zeta):
    """documented quantities after t = len(rewards) rounds (window of the last 250 rounds)"""
    t = len(chosen)
    lo = max(0, t - WINDOW)
    N = [0.0] * n
    X = [0.0] * n
    for s in range(lo, t):
        w = gamma ** (t - 1 - s)
        N[chosen[s]] += w
        X[chosen[s]] += w * rewards[s]
    return N, X, sum(N)


def check_ducb(n, gamma, B, zeta, rewards_seq):
    d = DUCB(n, B, gamma, zeta)
    bad = []
    for r in rewards_seq:
        t = len(d.rewards)
        ch0, rw0 = list(d.chosen_arms), list(d.rewards)
        with warnings.catch_warnings():
            warnings.simplefilter("ignore")
            arm = int(d.choose_arm())
        if not (0 <= arm < n):
            bad.append(f"valid_arm (got {arm})")
        if list(d.chosen_arms) != ch0 + [arm] or list(d.rewards) != rw0:
            bad.append("choose.chosen_arms.grows_by_exactly_one_record")
        if t < 2 * n:
            if arm != t % n:
                bad.append(f"initial_rounds.arm_is_round_number_mod_n_arms (round {t}: arm {arm})")
        else:
            N, X, tot = ducb_spec(ch0, rw0, n, gamma, B, zeta)
            if all(x > 0 for x in N):
                ucb = [X[k] / N[k] + 2 * B * math.sqrt(zeta * math.log(tot) / N[k]) for k in range(n)]
                if ucb[arm] < max(ucb) - 1e-9 * max(1.0, abs(max(ucb))):
                    bad.append(f"exploit.arm_maximises_discounted_mean_plus_bonus (round {t}: arm {arm}, ucb {ucb})")
        d.reward(r)
        if list(d.rewards) != rw0 + [r] or list(d.chosen_arms) != ch0 + [arm]:
            bad.append("reward.rewards.grows_by_exactly_one_record")
        N, X, tot = ducb_spec(list(d.chosen_arms), list(d.rewards), n, gamma, B, zeta)
        if not np.allclose(d.discounted_frequencies, N, rtol=1e-9, atol=1e-12) or not math.isclose(d.total_frequency, tot, rel_tol=1e-9, abs_tol=1e-12):
            bad.append("reward.DWF.freq")
        if len(d.rewards) >= n and not all(k in d.chosen_arms[:2 * n] for k in range(n)):
            bad.append("initial_rounds.every_arm_played")
        if bad:
            return dict(n_arms=n, gamma=gamma, upper_bound=B, zeta=zeta, rewards=list(rewards_seq)[: len(d.rewards)], violated=bad)
    return None


def ducb_sweep():
    for n in (1, 2, 3):
        for length in range(1, 2 * n + 4):
            for seq in itertools.product((0.0, 1.0, -0.5), repeat=min(length, 7)):
                seq = list(seq) + [1.0] * (length - len(seq))
                w = check_ducb(n, 0.95, 1.0, 0.002, seq)
                if w:
                    return w
        for gamma, B, zeta in ((0.95, 1.0, 0.002), (1.0, 2.0, 0.5), (0.5, 0.1, 0.002)):
            rng = np.random.default_rng(n)
            for seq in ([0.0] * 30, [1.0] * 30, list(rng.uniform(-1, 1, size=320 if gamma > 0.9 else 60))):
                w = check_ducb(n, gamma, B, zeta, seq)
                if w:
                    return w
    return None


def ducb_zero_frequency():
    """an arm that is not played during the last 250 rounds has discounted frequency 0: 0/0 in the
    mean.  Outside the contract (stated for N_t(k) > 0); checked here: still a valid arm, no exception."""
    d = DUCB(2, 1e-9, 0.95, 0.002)
    seen_zero = False
    for t in range(600):
        with warnings.catch_warnings():
            warnings.simplefilter("ignore")
            arm = int(d.choose_arm())
        if not (0 <= arm < 2):
            return dict(round=t, arm=arm, violated=["valid_arm with a zero discounted frequency"])
        d.reward(1.0 if arm == 0 else 0.0)
        seen_zero = seen_zero or bool((d.discounted_frequencies == 0).any())
    return None if seen_zero else dict(note="zero-frequency state not reached")


# ------------------------------------------------------------------ schedulers
Result = namedtuple("Result", ["policy", "global_step"])


class Runaway(Exception):
    """the scheduler keeps calling the single-task routine / stepping far beyond its budget"""



class TaskEnv(gym.Env):
    """episode of task k lasts LENGTHS[k] steps (truncation), reward REWARDS[k] per step; counts every step"""

    def __init__(self, lengths, rewards):
        self.observation_space = gym.spaces.Box(-1.0, 1.0, (1,), dtype=np.float32)
        self.action_space = gym.spaces.Discrete(2)
        self.lengths, self.rewards = lengths, rewards
        self.task = 0
        self.t = 0
        self.alive = False
        self.steps_on = [0] * len(lengths)
        self.bad = []

    def reset(self, *, seed=None, options=None):
        self.t = 0
        self.alive = True
        return np.zeros(1, dtype=np.float32), {}

    def step(self, action):
        if not self.alive:
            self.bad.append("step.pre.episode_running")
        self.t += 1
        self.steps_on[self.task] += 1
        trunc = self.t >= self.lengths[self.task]
        self.alive = not trunc
        return np.zeros(1, dtype=np.float32), float(self.rewards[self.task]), False, trunc, {}


def make_train_st(log):
    def train_st(env, total_timesteps, total_episodes=None, global_step=0, **kw):
        log.append(dict(start=global_step, total=total_timesteps, episodes=total_episodes))
        if len(log) > 20 * (total_timesteps + 2):
            raise Runaway(f"single-task routine called {len(log)} times for a budget of {total_timesteps}")
        env.reset()
        step, eps = global_step, 0
        while step < total_timesteps:
            _, _, term, trunc, _ = env.step(0)
            step += 1
            if term or trunc:
                eps += 1
                if total_episodes is not None and eps >= total_episodes:
                    break
                env.reset()
        return Result(None, step)
    return train_st


class Buffer:
    def __init__(self, n):
        self.n, self.ids = n, []

    def select_task(self, i):
        self.ids.append(int(i))


class LoggingSelector(RoundRobinSelector):
    def __init__(self, tasks):
        super().__init__(tasks)
        self.calls = []

    def select(self):
        self.calls.append("s")
        return super().select()

    def feedback(self, r):
        self.calls.append("f")
        return super().feedback(r)


def _task_set(lengths, rewards):
    base = TaskEnv(lengths, rewards)
    ids = []

    def set_context(env, ctx):
        env.task = int(ctx[0])
        ids.append(int(ctx[0]))
    contexts = np.arange(len(lengths), dtype=float)[:, np.newaxis]
    return DiscreteTaskSet(base, set_context, contexts, context_aware=False), base, ids


def _quiet(f, *a, **k):
    with contextlib.redirect_stdout(io.StringIO()), warnings.catch_warnings():
        warnings.simplefilter("ignore")
        return f(*a, **k)


def _guard(check):
    def g(*a, **k):
        try:
            return check(*a, **k)
        except Runaway as e:
            return [f"post.budget: {e}"]
        except Exception as e:  # noqa: BLE001  (an exception escaping the scheduler is itself a finding)
            return [f"no_uncaught_exception[{type(e).__name__}]: {e}"]
    return g


def _accounting(base, steps, total, res, n, extra=()):
    bad = list(base.bad) + list(extra)
    ex = sum(base.steps_on)
    if ex > total:
        bad.append(f"post.budget.executed_within_total_budget (executed {ex} > {total})")
    if steps is not None:
        if int(np.sum(steps)) != ex:
            bad.append(f"post.accounting.per_task_totals_sum_to_steps_executed (sum {int(np.sum(steps))} != executed {ex})")
        if [int(x) for x in steps] != base.steps_on:
            bad.append(f"post.accounting.per_task_total_is_steps_executed_on_that_task ({[int(x) for x in steps]} vs {base.steps_on})")
    if res is not None and res.global_step != ex:
        bad.append(f"post.accounting.returned_result_counts_steps_executed ({res.global_step} vs {ex})")
    return bad


def check_uts(lengths, total, episodes_per_task, seed=1):
    from rl_blox.algorithm.uniform_task_sampling import train_uts
    ts, base, ids = _task_set(lengths, [0.0] * len(lengths))
    log = []
    res = _quiet(train_uts, ts, make_train_st(log), total_timesteps=total, episodes_per_task=episodes_per_task, seed=seed, progress_bar=False)
    bad = _accounting(base, None, total, res, len(lengths))
    if any(not (0 <= i < len(lengths)) for i in ids):
        bad.append("get_task.pre.valid_task_id")
    return bad


def check_amt(lengths, rewards, total, si, selector):
    from rl_blox.algorithm.active_mt import train_active_mt
    n = len(lengths)
    ts, base, ids = _task_set(lengths, rewards)
    rb = Buffer(n)
    log = []
    sel = LoggingSelector(np.arange(n)) if selector == "logging" else selector
    res, steps = _quiet(train_active_mt, ts, make_train_st(log), rb, 1.0, task_selector=sel, total_timesteps=total, scheduling_interval=si, progress_bar=False)
    extra = []
    if any(not (0 <= i < n) for i in ids + rb.ids):
        extra.append("valid_task_id")
    if selector == "logging":
        c = "".join(sel.calls)
        if "ss" in c or "ff" in c or not c.startswith("s"):
            extra.append(f"selection and feedback do not alternate: {c}")
    return _accounting(base, steps, total, res, n, extra)


def check_smt(lengths, rewards, b1, b2, si, K, solved=5.0, unsolvable=-5.0, kappa=0.5):
    from rl_blox.algorithm.smt import train_smt
    n = len(lengths)
    ts, base, ids = _task_set(lengths, rewards)
    rb = Buffer(n)
    log = []
    res, steps, avg = _quiet(train_smt, ts, make_train_st(log), rb, b1=b1, b2=b2, solved_threshold=solved, unsolvable_threshold=unsolvable,
                             scheduling_interval=si, kappa=kappa, K=K, n_average=2, progress_bar=False)
    extra = []
    if any(not (0 <= i < n) for i in ids + rb.ids):
        extra.append("valid_task_id")
    return _accounting(base, steps, b1 + b2, res, n, extra)


check_uts, check_amt, check_smt = _guard(check_uts), _guard(check_amt), _guard(check_smt)


def scheduler_sweep(which, m):
    tot = [t for t in (m.get("total_timesteps"), m.get("b1")) if isinstance(t, int) and 1 <= t <= 40]
    for lengths in ((1, 1), (2, 3), (3, 1), (5, 2), (1, 2, 3), (4, 4, 1)):
        n = len(lengths)
        for total in tot + list(range(1, 14)):
            if which in (None, "uts"):
                for ept in (1, 2):
                    bad = check_uts(lengths, total, ept)
                    if bad:
                        return dict(scheduler="train_uts", episode_lengths=lengths, total_timesteps=total, episodes_per_task=ept, violated=bad)
            if which in (None, "amt"):
                for si in (1, 2, 3):
                    for sel in ("logging", "Round Robin", "Monotonic Progress", "1-step Progress", "Best Reward", "Diversity"):
                        bad = check_amt(lengths, [1.0, -1.0, 0.0][:n], total, si, sel)
                        if bad:
                            return dict(scheduler="train_active_mt", episode_lengths=lengths, total_timesteps=total, scheduling_interval=si, selector=sel, violated=bad)
            if which in (None, "smt"):
                for b2 in (1, 4):
                    for si in (1, 2):
                        for K in range(1, n + 1):
                            for rewards in ([1.0] * n, [-1.0] * n, [3.0, -3.0, 0.0][:n]):
                                bad = check_smt(lengths, rewards, total, b2, si, K)
                                if bad:
                                    return dict(scheduler="train_smt", episode_lengths=lengths, rewards=rewards, b1=total, b2=b2, scheduling_interval=si, K=K, violated=bad)
    return None


def main():
    p = load() if not sys.stdin.isatty() else {}
    name = p.get("obligation", "")
    m = model_of(p) if p else {}
    part = None
    if "train_uts" in name:
        part = ("sched", "uts")
    elif "train_active_mt" in name:
        part = ("sched", "amt")
    elif "smt" in name:
        part = ("sched", "smt")
    elif "DUCBGeneralized" in name:
        part = ("sel", "dg")
    elif "RoundRobin" in name:
        part = ("sel", "rr")
    elif "TaskSelector" in name:
        part = ("sel", "base")
    elif "DUCB" in name:
        part = ("ducb", None)
    checks = []
    if part is None or part[0] == "sel":
        checks.append(lambda: selector_sweep(part[1] if part else None))
    if part is None or part[0] == "ducb":
        checks.append(ducb_sweep)
    if part is None or part[0] == "sched":
        checks.append(lambda: scheduler_sweep(part[1] if part else None, m))
    for c in checks:
        w = c()
        if w:
            done(True, w)
    z = ducb_zero_frequency() if part is None or part[0] == "ducb" else None
    done(False, None, note="real code satisfied every clause on the bounded histories / configurations",
         zero_frequency_stand_in=("arm stays valid, no exception" if z is None else z))


main()
