"""Replay for C05: run the REAL parameter-update routine named in the failed
obligation once on tiny real modules / optimizers (built with the routine's
own create_* helpers where they exist) and a random small batch, and compare
bit-wise snapshots of every module and optimizer that is passed to - or
reachable from - the call.

Clauses (names as in contracts/C05.py, k = role of the object in the routine):
  frame.bit_identical[k]               module outside the documented trained set: every leaf of
                                       nnx.state(module) has identical bytes afterwards
  frame.optimizer_untouched[k]         optimizer outside the documented set: identical state
  trains.every_leaf_of[k]              every network of the documented component changed
                                       (double-Q wrappers: q1 and q2 separately)
  trains.optimizer_state_advances[k]   the documented optimizer's state changed
  binding.loss_depends_on_updated_module[k]  the optimizer's first moment is non-zero (non-zero gradient)
  binding.* / no_uncaught_exception    the routine raises on a well-formed call (an optimizer applied
                                       to a module it was not created for usually fails inside optax)
  frame.fixed_temperature_update_is_noop
Routines: dqn.train_step_with_loss (ddpg_loss and dqn_loss), ddpg.ddpg_update_actor,
sac.sac_update_actor, sac.EntropyControl.update[autotune|fixed], td7.td7_update_critic,
td7.td7_update_actor, sale.update_sale, mrq.update_critic_and_policy,
model_based_encoder.update_model_based_encoder, ppo.update_ppo, a2c.train_policy_a2c,
reinforce.train_policy_reinforce, reinforce.train_value_function,
actor_critic.train_policy_actor_critic, probabilistic_ensemble.train_epoch.
Every scenario is run for two seeds (different parameters and batches).
"""
import os
import sys
import time
import traceback
import types
import warnings

warnings.filterwarnings("ignore")
os.environ.setdefault("JAX_PLATFORMS", "cpu")
sys.path.insert(0, os.path.dirname(__file__))
from _common import done, load

import gymnasium as gym
import jax
import jax.numpy as jnp
import numpy as np
import optax
from flax import nnx

T0 = time.time()
OBS, ACT, NA, B = 3, 2, 3, 8


class Violation(Exception):
    def __init__(self, clause, what):
        super().__init__(what)
        self.clause, self.what = clause, what


def box_env():
    return types.SimpleNamespace(observation_space=gym.spaces.Box(-1.0, 1.0, (OBS,), np.float32), action_space=gym.spaces.Box(-2.0, 2.0, (ACT,), np.float32))


def disc_env():
    return types.SimpleNamespace(observation_space=gym.spaces.Box(-1.0, 1.0, (OBS,), np.float32), action_space=gym.spaces.Discrete(NA))


def snap(obj):
    flat = jax.tree_util.tree_flatten_with_path(nnx.state(obj))[0]
    return [(jax.tree_util.keystr(p), np.array(v, copy=True)) for p, v in flat]


def diff(a, b):
    """paths of leaves whose bytes differ (or structure change)"""
    if [p for p, _ in a] != [p for p, _ in b]:
        return ["<tree structure changed>"]
    return [p for (p, x), (_, y) in zip(a, b) if x.dtype != y.dtype or x.shape != y.shape or x.tobytes() != y.tobytes()]


class Scenario:
    def __init__(self, mods, opts, trained, trained_opts, call, note=""):
        self.mods, self.opts, self.trained, self.trained_opts, self.call, self.note = mods, opts, set(trained), set(trained_opts), call, note


def groups_of(module, snapshot):
    from rl_blox.blox.double_qnet import ContinuousClippedDoubleQNet
    if isinstance(module, ContinuousClippedDoubleQNet):
        return {g: [p for p, _ in snapshot if p.startswith(f"['{g}']")] for g in ("q1", "q2")}
    return {"": [p for p, _ in snapshot]}


def run(sc, routine):
    before_m = {k: snap(m) for k, m in sc.mods.items()}
    before_o = {k: snap(o) for k, o in sc.opts.items()}
    try:
        out = sc.call()
        jax.block_until_ready(jax.tree_util.tree_leaves(out))
    except Exception as e:
        tb = traceback.extract_tb(e.__traceback__)
        where = next((f"{os.path.basename(f.filename)}:{f.lineno} {f.name}" for f in reversed(tb) if "rl_blox" in f.filename), "")
        raise Violation("no_uncaught_exception", f"{routine} raised {type(e).__name__}: {str(e)[:300]} (innermost rl_blox frame: {where})") from None
    bad = []  # frames first (the more informative clause), then the trained set
    after_m = {k: snap(m) for k, m in sc.mods.items()}
    after_o = {k: snap(o) for k, o in sc.opts.items()}
    for k in sc.mods:
        changed = diff(before_m[k], after_m[k])
        if k not in sc.trained and changed:
            bad.append((f"frame.bit_identical[{k}]", f"{routine}: parameters {changed[:4]}{'...' if len(changed) > 4 else ''} of {k} were written ({len(changed)} leaves)"))
    for k in sc.opts:
        changed = diff(before_o[k], after_o[k])
        if k not in sc.trained_opts and changed:
            bad.append((f"frame.optimizer_untouched[{k}]", f"{routine}: state {changed[:4]} of {k} was written"))
    for k, m in sc.mods.items():
        if k in sc.trained:
            changed = diff(before_m[k], after_m[k])
            for g, paths in groups_of(m, after_m[k]).items():
                if not any(p in changed for p in paths):
                    bad.append((f"trains.every_leaf_of[{k}]", f"{routine}: no parameter of {k}{'.' + g if g else ''} changed although it is the trained component"))
    for k in sc.opts:
        if k in sc.trained_opts:
            if not diff(before_o[k], after_o[k]):
                bad.append((f"trains.optimizer_state_advances[{k}]", f"{routine}: the state of {k} did not change"))
                continue
            mu = [v for p, v in after_o[k] if "mu" in p]
            if mu and not any(np.any(v != 0) for v in mu):
                bad.append((f"binding.loss_depends_on_updated_module[{k}]", f"{routine}: first moment of {k} is zero after the update (zero gradient)"))
    if bad:
        v = Violation(*bad[0])
        v.all = [c for c, _ in bad]
        raise v


def arr(r, *shape, scale=1.0):
    return jnp.asarray(r.normal(size=shape) * scale, dtype=jnp.float32)


def cont_batch(r):
    return (arr(r, B, OBS), jnp.tanh(arr(r, B, ACT)) * 2, arr(r, B), arr(r, B, OBS), jnp.asarray(r.integers(0, 2, size=B), dtype=jnp.int32))


def adam(m, lr=1e-2):
    return nnx.Optimizer(m, optax.adam(lr), wrt=nnx.Param)


# ---------------------------------------------------------------- scenarios
def s_train_step(seed, variant):
    from rl_blox.algorithm.dqn import train_step_with_loss
    from rl_blox.blox import losses
    from rl_blox.blox.function_approximator.mlp import MLP
    from rl_blox.blox.function_approximator.policy_head import DeterministicTanhPolicy
    r = np.random.default_rng(seed)
    if variant == "ddpg_loss":
        q = MLP(OBS + ACT, 1, [8], "relu", nnx.Rngs(seed))
        qt = MLP(OBS + ACT, 1, [8], "relu", nnx.Rngs(seed + 1))
        pt = DeterministicTanhPolicy(MLP(OBS, ACT, [8], "relu", nnx.Rngs(seed + 2)), box_env().action_space)
        opt, opt_other = adam(q), adam(pt)
        batch = cont_batch(r)
        call = lambda: train_step_with_loss(losses.ddpg_loss, opt, q, qt, pt, batch, 0.9)  # noqa: E731
        return Scenario(dict(q=q, q_target=qt, policy_target=pt), dict(optimizer=opt, policy_target_optimizer=opt_other), {"q"}, {"optimizer"}, call)
    q = MLP(OBS, NA, [8], "relu", nnx.Rngs(seed))
    qt = MLP(OBS, NA, [8], "relu", nnx.Rngs(seed + 1))
    opt, opt_t = adam(q), adam(qt)
    batch = (arr(r, B, OBS), jnp.asarray(r.integers(0, NA, size=B), dtype=jnp.int32), arr(r, B), arr(r, B, OBS), jnp.asarray(r.integers(0, 2, size=B), dtype=jnp.int32))
    jitted = nnx.jit(lambda o, qq, b: train_step_with_loss(losses.dqn_loss, o, qq, b, 0.9))
    return Scenario(dict(q=q, q_target=qt), dict(optimizer=opt, q_target_optimizer=opt_t), {"q"}, {"optimizer"}, lambda: jitted(opt, q, batch))


def s_ddpg_actor(seed, variant):
    from rl_blox.algorithm.ddpg import create_ddpg_state, ddpg_update_actor
    st = create_ddpg_state(box_env(), policy_hidden_nodes=[8], q_hidden_nodes=[8], policy_learning_rate=1e-2, q_learning_rate=1e-2, seed=seed)
    r = np.random.default_rng(seed)
    obs = arr(r, B, OBS)
    return Scenario(dict(policy=st.policy, q=st.q), dict(policy_optimizer=st.policy_optimizer, q_optimizer=st.q_optimizer), {"policy"}, {"policy_optimizer"},
                    lambda: ddpg_update_actor(st.policy, st.policy_optimizer, st.q, obs))


def _sac_state(seed):
    from rl_blox.algorithm.sac import create_sac_state
    return create_sac_state(box_env(), policy_hidden_nodes=[8], q_hidden_nodes=[8], policy_learning_rate=1e-2, q_learning_rate=1e-2, seed=seed)


def s_sac_actor(seed, variant):
    from rl_blox.algorithm.sac import sac_update_actor
    st = _sac_state(seed)
    r = np.random.default_rng(seed)
    obs, key = arr(r, B, OBS), jax.random.key(seed)
    return Scenario(dict(policy=st.policy, q=st.q), dict(policy_optimizer=st.policy_optimizer, q_optimizer=st.q_optimizer), {"policy"}, {"policy_optimizer"},
                    lambda: sac_update_actor(st.policy, st.policy_optimizer, st.q, key, obs, jnp.asarray(0.2)))


def s_entropy(seed, variant):
    from rl_blox.algorithm.sac import EntropyControl
    st = _sac_state(seed)
    r = np.random.default_rng(seed)
    obs, key = arr(r, B, OBS), jax.random.key(seed)
    if variant == "fixed":
        ec = EntropyControl(box_env(), 0.2, False, 1e-2)
        sc = Scenario(dict(policy=st.policy, q=st.q), dict(policy_optimizer=st.policy_optimizer, q_optimizer=st.q_optimizer), set(), set(), lambda: ec.update(st.policy, obs, key))
        sc.rename = {"frame.bit_identical": "frame.fixed_temperature_update_is_noop", "frame.optimizer_untouched": "frame.fixed_temperature_update_is_noop"}
        return sc
    ec = EntropyControl(box_env(), 0.2, True, 1e-2)
    return Scenario(dict(policy=st.policy, q=st.q, log_alpha=ec._alpha), dict(alpha_optimizer=ec.optimizer, policy_optimizer=st.policy_optimizer, q_optimizer=st.q_optimizer),
                    {"log_alpha"}, {"alpha_optimizer"}, lambda: ec.update(st.policy, obs, key))


def _td7_state(seed):
    from rl_blox.algorithm.td7 import create_td7_state
    return create_td7_state(box_env(), n_embedding_dimensions=6, state_embedding_hidden_nodes=[8], state_action_embedding_hidden_nodes=[8], policy_sa_encoding_nodes=6,
                            policy_hidden_nodes=[8], q_sa_encoding_nodes=6, q_hidden_nodes=[8], embedding_learning_rate=1e-2, policy_learning_rate=1e-2, q_learning_rate=1e-2, seed=seed)


def _perturbed_clone(m, seed):
    """a clone whose values differ from the original (so that writing one into the other is visible)"""
    c = nnx.clone(m)
    st = nnx.state(c)
    leaves, tree = jax.tree_util.tree_flatten(st)
    r = np.random.default_rng(seed)
    nnx.update(c, jax.tree_util.tree_unflatten(tree, [x + jnp.asarray(r.normal(size=np.shape(x)) * 0.05, dtype=x.dtype) if jnp.issubdtype(x.dtype, jnp.floating) else x for x in leaves]))
    return c


def s_td7_critic(seed, variant):
    from rl_blox.algorithm.td7 import td7_update_critic
    st = _td7_state(seed)
    fe, fet, ct = _perturbed_clone(st.embedding, seed + 1), _perturbed_clone(st.embedding, seed + 2), _perturbed_clone(st.critic, seed + 3)
    r = np.random.default_rng(seed)
    o, a, rew, o2, t = cont_batch(r)
    a2 = jnp.tanh(arr(r, B, ACT)) * 2
    return Scenario(dict(fixed_embedding=fe, fixed_embedding_target=fet, critic=st.critic, critic_target=ct, embedding=st.embedding, actor=st.actor),
                    dict(critic_optimizer=st.critic_optimizer, actor_optimizer=st.actor_optimizer, embedding_optimizer=st.embedding_optimizer), {"critic"}, {"critic_optimizer"},
                    lambda: td7_update_critic(fe, fet, st.critic, ct, st.critic_optimizer, 0.9, o, a, o2, a2, rew, t, 1.0, -5.0, 5.0))


def s_td7_actor(seed, variant):
    from rl_blox.algorithm.td7 import td7_update_actor
    from rl_blox.blox.embedding.sale import DeterministicSALEPolicy
    st = _td7_state(seed)
    fe = _perturbed_clone(st.embedding, seed + 1)
    policy = DeterministicSALEPolicy(fe, st.actor)
    obs = arr(np.random.default_rng(seed), B, OBS)
    return Scenario(dict(embedding=fe, actor=st.actor, critic=st.critic, trained_embedding=st.embedding),
                    dict(actor_optimizer=st.actor_optimizer, critic_optimizer=st.critic_optimizer, embedding_optimizer=st.embedding_optimizer), {"actor"}, {"actor_optimizer"},
                    lambda: td7_update_actor(policy, st.actor_optimizer, st.critic, obs))


def s_sale(seed, variant):
    from rl_blox.blox.embedding.sale import update_sale
    st = _td7_state(seed)
    r = np.random.default_rng(seed)
    o, a, _, o2, _ = cont_batch(r)
    return Scenario(dict(embedding=st.embedding, actor=st.actor, critic=st.critic), dict(embedding_optimizer=st.embedding_optimizer, actor_optimizer=st.actor_optimizer, critic_optimizer=st.critic_optimizer),
                    {"embedding"}, {"embedding_optimizer"}, lambda: update_sale(st.embedding, st.embedding_optimizer, o, a, o2))


def _mrq_state(seed):
    from rl_blox.algorithm.mrq import create_mrq_state
    st = create_mrq_state(box_env(), policy_hidden_nodes=[8], q_hidden_nodes=[8], encoder_n_bins=5, encoder_zs_dim=6, encoder_za_dim=4, encoder_zsa_dim=6, encoder_hidden_nodes=[8],
                          policy_learning_rate=1e-2, q_learning_rate=1e-2, encoder_learning_rate=1e-2, seed=seed)
    pwe_t = _perturbed_clone(st.policy_with_encoder, seed + 5)
    q_t = _perturbed_clone(st.q, seed + 6)
    return st, pwe_t, q_t


def _subtraj_batches(seed, n, horizon, intermediate):
    from rl_blox.blox.replay_buffer import SubtrajectoryReplayBufferPER
    r = np.random.default_rng(seed)
    buf = SubtrajectoryReplayBufferPER(64, horizon=horizon)
    t = 0
    for i in range(50):
        t += 1
        term = t >= 4 and r.random() < 0.3
        buf.add_sample(observation=r.normal(size=OBS), action=np.tanh(r.normal(size=ACT)) * 2, reward=float(r.normal()), next_observation=r.normal(size=OBS), terminated=int(term), truncated=0)
        if term:
            t = 0
    return buf.sample_batch(n, horizon, intermediate, r), buf.environment_terminates


def s_mrq(seed, variant):
    from rl_blox.algorithm.mrq import update_critic_and_policy
    st, pwe_t, q_t = _mrq_state(seed)
    pwe = st.policy_with_encoder
    batch, _ = _subtraj_batches(seed, B, 2, False)
    next_action = jnp.tanh(arr(np.random.default_rng(seed), B, ACT)) * 2
    return Scenario(dict(q=st.q, q_target=q_t, policy=pwe.policy, encoder=pwe.encoder, encoder_target=pwe_t.encoder, policy_target=pwe_t.policy),
                    dict(q_optimizer=st.q_optimizer, policy_optimizer=st.policy_optimizer, encoder_optimizer=st.encoder_optimizer), {"q", "policy"}, {"q_optimizer", "policy_optimizer"},
                    lambda: update_critic_and_policy(st.q, q_t, st.q_optimizer, pwe.policy, st.policy_optimizer, pwe.encoder, pwe_t.encoder, 0.9, 1e-5, next_action, batch, 1.3, 1.1))


def s_encoder(seed, variant):
    from rl_blox.blox.embedding.model_based_encoder import update_model_based_encoder
    st, pwe_t, q_t = _mrq_state(seed)
    pwe = st.policy_with_encoder
    td, bs, H = 2, 4, 2
    batches, env_term = _subtraj_batches(seed, td * bs, H, True)
    return Scenario(dict(encoder=pwe.encoder, encoder_target=pwe_t.encoder, q=st.q, policy=pwe.policy, q_target=q_t),
                    dict(encoder_optimizer=st.encoder_optimizer, q_optimizer=st.q_optimizer, policy_optimizer=st.policy_optimizer), {"encoder"}, {"encoder_optimizer"},
                    lambda: update_model_based_encoder(pwe.encoder, pwe_t.encoder, st.encoder_optimizer, st.the_bins, H, 1.0, 0.1, 0.1, td, bs, False, batches, env_term))


def _pg_state(seed, continuous):
    from rl_blox.algorithm.reinforce import create_policy_gradient_continuous_state, create_policy_gradient_discrete_state
    if continuous:
        return create_policy_gradient_continuous_state(box_env(), policy_hidden_nodes=[8], policy_learning_rate=1e-2, value_network_hidden_nodes=[8], seed=seed)
    return create_policy_gradient_discrete_state(disc_env(), policy_hidden_nodes=[8], policy_learning_rate=1e-2, value_network_hidden_nodes=[8], seed=seed)


def _pg_data(seed, continuous):
    r = np.random.default_rng(seed)
    act = arr(r, B, ACT) if continuous else jnp.asarray(r.integers(0, NA, size=B), dtype=jnp.int32)
    return arr(r, B, OBS), act, arr(r, B), arr(r, B, OBS), jnp.asarray(0.9 ** np.arange(B), dtype=jnp.float32)


def s_pg(which):
    def build(seed, variant):
        continuous = variant == "continuous"
        st = _pg_state(seed, continuous)
        o, a, w, o2, gd = _pg_data(seed, continuous)
        mods = dict(policy=st.policy, value_function=st.value_function)
        opts = dict(policy_optimizer=st.policy_optimizer, value_function_optimizer=st.value_function_optimizer)
        if which == "a2c":
            from rl_blox.algorithm.a2c import train_policy_a2c
            return Scenario(mods, opts, {"policy"}, {"policy_optimizer"}, lambda: train_policy_a2c(st.policy, st.policy_optimizer, 2, o, a, w))
        if which == "reinforce":
            from rl_blox.algorithm.reinforce import train_policy_reinforce
            return Scenario(mods, opts, {"policy"}, {"policy_optimizer"}, lambda: train_policy_reinforce(st.policy, st.policy_optimizer, 2, st.value_function, o, a, w, gd))
        if which == "reinforce-v":
            from rl_blox.algorithm.reinforce import train_value_function
            return Scenario(mods, opts, {"value_function"}, {"value_function_optimizer"}, lambda: train_value_function(st.value_function, st.value_function_optimizer, 2, o, w))
        from rl_blox.algorithm.actor_critic import train_policy_actor_critic
        return Scenario(mods, opts, {"policy"}, {"policy_optimizer"}, lambda: train_policy_actor_critic(st.policy, st.policy_optimizer, 2, st.value_function, o, a, o2, w, gd, 0.9))
    return build


def s_ppo(seed, variant):
    from rl_blox.algorithm.ppo import update_ppo
    from rl_blox.blox.function_approximator.mlp import MLP
    from rl_blox.blox.function_approximator.policy_head import SoftmaxPolicy
    actor = SoftmaxPolicy(MLP(OBS, NA, [8], "relu", nnx.Rngs(seed)))
    critic = MLP(OBS, 1, [8], "relu", nnx.Rngs(seed + 1))
    mk = (lambda m: nnx.Optimizer(m, optax.rprop(3e-4), wrt=nnx.Param)) if variant == "rprop" else adam
    oa, oc = mk(actor), mk(critic)
    r = np.random.default_rng(seed)
    o, a, rew = arr(r, B, OBS), jnp.asarray(r.integers(0, NA, size=B), dtype=jnp.int32), arr(r, B)
    t, nv = jnp.asarray(r.integers(0, 2, size=B), dtype=jnp.float32), arr(r, B)
    return Scenario(dict(actor=actor, critic=critic), dict(optimizer_actor=oa, optimizer_critic=oc), {"actor", "critic"}, {"optimizer_actor", "optimizer_critic"},
                    lambda: update_ppo(actor, critic, oa, oc, o, a, rew, t, nv, epochs=2, n_envs=2))


def s_ensemble(seed, variant):
    from rl_blox.blox.function_approximator.mlp import MLP
    from rl_blox.blox.probabilistic_ensemble import GaussianMLPEnsemble, train_epoch
    model = GaussianMLPEnsemble(3, False, OBS + ACT, OBS, [8], "swish", nnx.Rngs(seed))
    other = MLP(OBS, 1, [8], "relu", nnx.Rngs(seed))
    opt, oopt = adam(model), adam(other)
    r = np.random.default_rng(seed)
    X, Y = arr(r, 20, OBS + ACT), arr(r, 20, OBS)
    idx = jnp.asarray(r.integers(0, 20, size=(2, 3, 5)))
    return Scenario(dict(model=model, other=other), dict(optimizer=opt, other_optimizer=oopt), {"model"}, {"optimizer"}, lambda: train_epoch(model, opt, X, Y, idx))


ROUTINES = {
    "dqn.train_step_with_loss": (s_train_step, ["ddpg_loss", "dqn_loss"]),
    "ddpg.ddpg_update_actor": (s_ddpg_actor, [""]),
    "sac.sac_update_actor": (s_sac_actor, [""]),
    "sac.EntropyControl.update[autotune]": (s_entropy, ["autotune"]),
    "sac.EntropyControl.update[fixed]": (s_entropy, ["fixed"]),
    "td7.td7_update_critic": (s_td7_critic, [""]),
    "td7.td7_update_actor": (s_td7_actor, [""]),
    "mrq.update_critic_and_policy": (s_mrq, [""]),
    "sale.update_sale": (s_sale, [""]),
    "model_based_encoder.update_model_based_encoder": (s_encoder, [""]),
    "ppo.update_ppo": (s_ppo, ["rprop", "adam"]),
    "a2c.train_policy_a2c": (s_pg("a2c"), ["discrete", "continuous"]),
    "reinforce.train_policy_reinforce": (s_pg("reinforce"), ["discrete", "continuous"]),
    "reinforce.train_value_function": (s_pg("reinforce-v"), ["discrete"]),
    "actor_critic.train_policy_actor_critic": (s_pg("ac"), ["discrete", "continuous"]),
    "probabilistic_ensemble.train_epoch": (s_ensemble, [""]),
}


def main():
    p = load()
    ob = p.get("obligation", "")
    rest = ob.split("C05.", 1)[1] if "C05." in ob else ob
    names = [n for n in ROUTINES if rest.startswith(n + ".") or rest == n]
    if not names:
        short = [n for n in ROUTINES if rest.startswith(n.split("[")[0])]
        names = short
    if not names:
        if rest in ("", "all"):
            names = list(ROUTINES)
        else:
            done(False, None, note=f"no native scenario for the routine of obligation {ob!r}")
    ran = []
    for name in names:
        build, variants = ROUTINES[name]
        for variant in variants:
            for seed in (0, 7):
                label = f"{name}{'/' + variant if variant else ''} seed {seed}"
                try:
                    sc = build(seed, variant)
                except Exception as e:
                    done(False, None, note=f"could not build the scenario {label}: {type(e).__name__}: {str(e)[:300]}", error=traceback.format_exc()[-1500:])
                try:
                    run(sc, name)
                except Violation as v:
                    clause = v.clause
                    for a, b in getattr(sc, "rename", {}).items():
                        if clause.startswith(a):
                            clause = b
                    done(True, dict(routine=name, variant=variant, seed=seed, violated=clause, what=v.what, all_violated=getattr(v, "all", [v.clause]), trained=sorted(sc.trained), observed_modules=sorted(sc.mods), observed_optimizers=sorted(sc.opts)))
                ran.append(label)
    done(False, None, note=f"{len(ran)} runs ({', '.join(ran)}): everything outside the documented trained set is bit-identical, the trained component and its optimizer changed", seconds=round(time.time() - T0, 1))


main()
